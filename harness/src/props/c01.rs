//! C01: any original_count of the shards restore every missing original.
//!
//! Direct oracle (implementation only): encode, give a subset of >= k shards to a decoder of the
//! same configuration, the result must be exactly the missing originals, byte for byte.
//! Correspondence: the same op sequence on the Lean model must give the same answers.

use crate::ctx::{Case, Ctx};
use crate::gen::*;
use crate::json::J;
use crate::objs::{to_hex, Ans, parse_indexed, ENGINES};

pub fn roundtrip_case(
    name: &str,
    cfg: &Cfg,
    dec_cfg: &Cfg,
    originals: &[Vec<u8>],
    recovery: &[Vec<u8>],
    order: &[(bool, usize)],
) -> Case {
    let mut c = Case::new(name);
    c.push(cfg.new_line("E"));
    for o in originals {
        c.push(format!("E add {}", to_hex(o)));
    }
    c.push("E encode".into());
    c.push(dec_cfg.new_line("D"));
    for (is_o, i) in order {
        if *is_o {
            c.push(format!("D addo {} {}", i, to_hex(&originals[*i])));
        } else {
            c.push(format!("D addr {} {}", i, to_hex(&recovery[*i])));
        }
    }
    c.push("D decode".into());
    c
}

/// checks the decode answer of a round-trip case against the originals
pub fn check_restored(
    ctx: &mut Ctx,
    case: &Case,
    ans: &Ans,
    originals: &[Vec<u8>],
    given_orig: &[usize],
) {
    match ans {
        Ans::Ok(p) => {
            let Some(rest) = parse_indexed(p) else {
                ctx.oracle_fail("unparsable decode answer".into(), case, None);
                return;
            };
            let expect: Vec<usize> = (0..originals.len()).filter(|i| !given_orig.contains(i)).collect();
            let got: Vec<usize> = rest.iter().map(|p| p.0).collect();
            if got != expect {
                ctx.oracle_fail(
                    format!("decode restored indexes {:?}, expected exactly the missing {:?}", got, expect),
                    case,
                    None,
                );
                return;
            }
            for (i, s) in rest {
                if s != originals[i] {
                    ctx.oracle_fail(format!("restored original {} differs from the encoded one", i), case, None);
                    return;
                }
            }
        }
        other => ctx.oracle_fail(
            format!("decode of a sufficient shard set did not succeed: {}", other.line()),
            case,
            None,
        ),
    }
}

pub fn run(ctx: &mut Ctx) {
    let thorough = ctx.thorough();
    run_scaled(ctx, if thorough { 3000 } else { 260 }, if thorough { 300 } else { 40 }, true);
}

pub fn run_scaled(ctx: &mut Ctx, n_model: usize, n_big: usize, exhaustive_subsets: bool) {
    let thorough = ctx.thorough();
    let kinds = ["high", "low", "default", "rs"];

    struct Item {
        case: Case,
        originals: Vec<Vec<u8>>,
        given: Vec<usize>,
    }
    let mut items: Vec<Item> = vec![];

    // (a) exhaustive subsets of small configurations (k + r <= limit), both dedicated rates, 2-byte shards
    let limit = if !exhaustive_subsets { 0 } else if thorough { 9 } else { 6 };
    let mut exhaustive = 0usize;
    for k in 1..limit {
        for r in 1..=(limit - k) {
            for kind in ["high", "low"] {
                let engine = ENGINES[(k * 7 + r) % ENGINES.len()];
                let cfg = Cfg { kind: kind.into(), engine: engine.into(), k, r, sb: 2 };
                let originals: Vec<Vec<u8>> = (0..k).map(|_| ctx.rng.bytes(2)).collect();
                let Some(recovery) = encode_impl(&cfg, &originals) else {
                    let c = roundtrip_case("exhaustive", &cfg, &cfg, &originals, &[], &[]);
                    ctx.oracle_fail("encode failed for a supported configuration".into(), &c, None);
                    continue;
                };
                let n = k + r;
                for mask in 0u32..(1 << n) {
                    if (mask.count_ones() as usize) < k {
                        continue;
                    }
                    let mut order = vec![];
                    let mut given = vec![];
                    for i in 0..n {
                        if mask >> i & 1 == 1 {
                            if i < k {
                                order.push((true, i));
                                given.push(i);
                            } else {
                                order.push((false, i - k));
                            }
                        }
                    }
                    let case = roundtrip_case("exhaustive-subsets", &cfg, &cfg, &originals, &recovery, &order);
                    items.push(Item { case, originals: originals.clone(), given });
                    exhaustive += 1;
                }
            }
        }
    }
    ctx.bump("exhaustive_subset_cases", exhaustive);

    // (b) structured random cases the model can follow
    for n in 0..n_model {
        let max_work = *ctx.rng.pick(&[16usize, 32, 64, 64, 128, 256]);
        let sizes: &[usize] = if max_work >= 128 { &[2, 4, 6] } else { &SMALL_SIZES };
        let cfg = gen_cfg(&mut ctx.rng, max_work, &kinds, &ENGINES, sizes);
        let originals = gen_originals(&mut ctx.rng, cfg.k, cfg.sb);
        let Some(recovery) = encode_impl(&cfg, &originals) else {
            let c = roundtrip_case("random", &cfg, &cfg, &originals, &[], &[]);
            ctx.oracle_fail("encode failed for a supported configuration".into(), &c, None);
            continue;
        };
        let (go, gr, pat) = gen_received(&mut ctx.rng, cfg.k, cfg.r);
        let mut order: Vec<(bool, usize)> =
            go.iter().map(|i| (true, *i)).chain(gr.iter().map(|i| (false, *i))).collect();
        if ctx.rng.chance(1, 2) {
            ctx.rng.shuffle(&mut order);
        }
        // decoder may use another engine: shards interoperate
        let mut dcfg = cfg.clone();
        if cfg.kind != "rs" && ctx.rng.chance(1, 2) {
            dcfg.engine = ctx.rng.pick(&ENGINES).to_string();
        }
        ctx.count("loss_pattern", pat);
        ctx.count("kind", &cfg.kind);
        ctx.count("engine", &cfg.engine);
        ctx.count("shard_bytes", &cfg.sb.to_string());
        ctx.count("work_class", &format!("<={}", max_work));
        let case = roundtrip_case(&format!("random-{}", n), &cfg, &dcfg, &originals, &recovery, &order);
        if n < 3 {
            let mut j = J::obj();
            j.set("cfg", J::s(&cfg.tag()));
            j.set("pattern", J::s(pat));
            j.set("given_originals", J::Arr(go.iter().map(|i| J::i(*i)).collect()));
            j.set("given_recovery", J::Arr(gr.iter().map(|i| J::i(*i)).collect()));
            ctx.sample(j);
        }
        items.push(Item { case, originals, given: go });
    }

    // (c) larger configurations, implementation only (the model is too slow there)
    for n in 0..n_big {
        let max_work = *ctx.rng.pick(&[1024usize, 4096, 16384, 65536]);
        let cfg = gen_cfg(&mut ctx.rng, max_work, &kinds, &["nosimd", "ssse3", "avx2", "default"], &[2, 8, 64, 66]);
        let originals = gen_originals(&mut ctx.rng, cfg.k, cfg.sb);
        let Some(recovery) = encode_impl(&cfg, &originals) else {
            let c = Case::new("big-encode");
            ctx.oracle_fail(format!("encode failed for supported {}", cfg.tag()), &c, None);
            continue;
        };
        let (go, gr, pat) = gen_received(&mut ctx.rng, cfg.k, cfg.r);
        let order: Vec<(bool, usize)> =
            go.iter().map(|i| (true, *i)).chain(gr.iter().map(|i| (false, *i))).collect();
        ctx.count("loss_pattern", pat);
        ctx.count("kind", &cfg.kind);
        ctx.count("work_class", &format!("<={}", max_work));
        let mut case = roundtrip_case(&format!("big-{}", n), &cfg, &cfg, &originals, &recovery, &order);
        case.with_model = false;
        items.push(Item { case, originals, given: go });
    }

    // (d) few shards of 5 .. 18 blocks each, implementation only: the block loops of the kernels with every
    //     remainder of the block count, on every engine
    for n in 0..n_big.max(20) {
        let max_work = *ctx.rng.pick(&[8usize, 16, 32]);
        let cfg = gen_cfg(&mut ctx.rng, max_work, &kinds, &ENGINES, if n % 4 == 3 { &LONG_SIZES } else { &MULTI_BLOCK_SIZES });
        let originals = gen_originals(&mut ctx.rng, cfg.k, cfg.sb);
        let Some(recovery) = encode_impl(&cfg, &originals) else {
            let c = Case::new("wide-encode");
            ctx.oracle_fail(format!("encode failed for supported {}", cfg.tag()), &c, None);
            continue;
        };
        let (go, gr, pat) = gen_received(&mut ctx.rng, cfg.k, cfg.r);
        let order: Vec<(bool, usize)> =
            go.iter().map(|i| (true, *i)).chain(gr.iter().map(|i| (false, *i))).collect();
        ctx.count("loss_pattern", pat);
        ctx.count("kind", &cfg.kind);
        ctx.count("engine", &cfg.engine);
        ctx.count("shard_bytes", &cfg.sb.to_string());
        let mut case = roundtrip_case(&format!("wide-{}", n), &cfg, &cfg, &originals, &recovery, &order);
        case.with_model = false;
        items.push(Item { case, originals, given: go });
    }

    // (e) thousands of originals and 2 .. 8 recovery shards (the everyday storage shape): few erasures among very many
    //     work positions — every position is one evaluation point of the erasure locator
    for n in 0..(n_big / 8).max(3) + (n_big / 8).max(3) {
        let edge = n >= (n_big / 8).max(3);
        // … and configurations exactly ON the edge of the envelope (power-of-two side + other side = 65536), where the
        // last work position is 65535 and an exclusive end is 65536
        let (k, r) = if edge {
            let p = *ctx.rng.pick(&[2usize, 256, 4096, 16384]);
            if ctx.rng.chance(1, 2) { (ctx.rng.range(p / 2 + 1, p), 65536 - p) } else { (65536 - p, ctx.rng.range(p / 2 + 1, p)) }
        } else { (ctx.rng.range(3000, 60000), ctx.rng.range(2, 8)) };
        let kind = if edge { *ctx.rng.pick(&["default", "rs"]) } else { *ctx.rng.pick(&["high", "default", "rs"]) };
        let engine = if kind == "rs" { "default" } else { *ctx.rng.pick(&["nosimd", "ssse3", "avx2", "default"]) };
        let cfg = Cfg { kind: kind.into(), engine: engine.into(), k, r, sb: 2 };
        let originals = gen_originals(&mut ctx.rng, cfg.k, cfg.sb);
        let Some(recovery) = encode_impl(&cfg, &originals) else {
            let c = Case::new("many-originals-encode");
            ctx.oracle_fail(format!("encode failed for supported {}", cfg.tag()), &c, None);
            continue;
        };
        let lost = if edge { ctx.rng.range(1, 3.min(k).min(r)) } else { ctx.rng.range(if n % 2 == 0 { r } else { 1 }, r) };
        let mut miss = ctx.rng.subset(k, lost);
        if edge && ctx.rng.chance(1, 2) { miss[0] = 0; miss.sort_unstable(); miss.dedup(); }
        let lost = miss.len();
        let go: Vec<usize> = (0..k).filter(|i| !miss.contains(i)).collect();
        let mut gr = ctx.rng.subset(r, lost);
        if edge && !gr.contains(&(r - 1)) && ctx.rng.chance(1, 2) { gr[0] = r - 1; }
        let order: Vec<(bool, usize)> =
            go.iter().map(|i| (true, *i)).chain(gr.iter().map(|i| (false, *i))).collect();
        ctx.count("loss_pattern", if edge { "envelope-edge" } else { "many-originals+few-recovery" });
        ctx.count("kind", &cfg.kind);
        ctx.count("work_class", "<=65536");
        let mut case = roundtrip_case(&format!("many-originals-{}", n), &cfg, &cfg, &originals, &recovery, &order);
        case.with_model = false;
        items.push(Item { case, originals, given: go });
    }

    // (g) MASS LOSS in the largest configurations: as many originals lost as there are recovery shards, tens of thousands of
    //     erased positions across the whole upper half of the work positions — the logarithms `eval_poly` returns at erased
    //     positions then take every value, including the two spellings of "zero" (0 and 65535)
    for n in 0..(n_big / 6).max(if n_big >= 40 { 6 } else { 2 }) {
        let (k, r) = *ctx.rng.pick(&[(32768usize, 16384usize), (49152, 16384), (40000, 8192), (16384, 32768), (57344, 8192)]);
        let kind = *ctx.rng.pick(&["default", "rs"]);
        let engine = if kind == "rs" { "default" } else { *ctx.rng.pick(&["nosimd", "ssse3", "avx2", "default"]) };
        let cfg = Cfg { kind: kind.into(), engine: engine.into(), k, r, sb: 2 };
        let originals = gen_originals(&mut ctx.rng, cfg.k, cfg.sb);
        let Some(recovery) = encode_impl(&cfg, &originals) else {
            let c = Case::new("mass-loss-encode");
            ctx.oracle_fail(format!("encode failed for supported {}", cfg.tag()), &c, None);
            continue;
        };
        let lost = r.min(k) - ctx.rng.below(3);
        let miss: std::collections::BTreeSet<usize> = ctx.rng.subset(k, lost).into_iter().collect();
        let go: Vec<usize> = (0..k).filter(|i| !miss.contains(i)).collect();
        let gr = ctx.rng.subset(r, lost);
        let order: Vec<(bool, usize)> =
            go.iter().map(|i| (true, *i)).chain(gr.iter().map(|i| (false, *i))).collect();
        ctx.count("loss_pattern", "mass-loss");
        ctx.count("kind", &cfg.kind);
        ctx.count("work_class", "<=65536");
        let mut case = roundtrip_case(&format!("mass-loss-{}", n), &cfg, &cfg, &originals, &recovery, &order);
        case.with_model = false;
        items.push(Item { case, originals, given: go });
    }

    // (f) the decoder object had a LARGER configuration before (one full round there, then `reset`): whatever the
    //     working space and the received-bitmap keep from it must not matter
    for n in 0..(n_model / 4).max(30) {
        let max_work = *ctx.rng.pick(&[16usize, 32, 64]);
        let cfg = gen_cfg(&mut ctx.rng, max_work, &kinds, &ENGINES, &SMALL_SIZES);
        let mut bigger = gen_cfg(&mut ctx.rng, max_work * 4, &[cfg.kind.as_str()], &[cfg.engine.as_str()], &SMALL_SIZES);
        for _ in 0..20 {
            if dec_work(&bigger.kind, bigger.k, bigger.r) > dec_work(&cfg.kind, cfg.k, cfg.r) { break; }
            bigger = gen_cfg(&mut ctx.rng, max_work * 4, &[cfg.kind.as_str()], &[cfg.engine.as_str()], &SMALL_SIZES);
        }
        let originals = gen_originals(&mut ctx.rng, cfg.k, cfg.sb);
        let Some(recovery) = encode_impl(&cfg, &originals) else { continue };
        let (go, gr, pat) = gen_received(&mut ctx.rng, cfg.k, cfg.r);
        let mut order: Vec<(bool, usize)> =
            go.iter().map(|i| (true, *i)).chain(gr.iter().map(|i| (false, *i))).collect();
        ctx.rng.shuffle(&mut order);
        let mut c = Case::new(&format!("after-larger-{}", n));
        if n % 3 == 2 {
            // … or the SAME configuration: a complete lossy round of other data first, then only the implicit reset of
            // the dropped result (whatever `reset` sets up and the implicit reset does not must not matter either)
            c.push(cfg.new_line("D"));
            let o1 = gen_originals(&mut ctx.rng, cfg.k, cfg.sb);
            if let Some(r1) = encode_impl(&cfg, &o1) {
                let (go1, gr1, _) = gen_received(&mut ctx.rng, cfg.k, cfg.r);
                for i in &go1 { c.push(format!("D addo {} {}", i, to_hex(&o1[*i]))); }
                for j in &gr1 { c.push(format!("D addr {} {}", j, to_hex(&r1[*j]))); }
                c.push("D decode".into());
            }
            ctx.count("history", "decoder-second-round-implicit-reset");
        } else {
        c.push(bigger.new_line("D"));
        if ctx.rng.chance(2, 3) {
            // one successful round in the larger configuration: every original given
            let bo = gen_originals(&mut ctx.rng, bigger.k, bigger.sb);
            for (i, o) in bo.iter().enumerate() { c.push(format!("D addo {} {}", i, to_hex(o))); }
            c.push("D decode".into());
        }
        c.push(format!("D reset {} {} {}", cfg.k, cfg.r, cfg.sb));
        }
        for (is_o, i) in order.iter() {
            if *is_o { c.push(format!("D addo {} {}", i, to_hex(&originals[*i]))); } else { c.push(format!("D addr {} {}", i, to_hex(&recovery[*i]))); }
        }
        c.push("D decode".into());
        ctx.count("loss_pattern", pat);
        ctx.count("history", "decoder-reset-from-larger");
        items.push(Item { case: c, originals, given: go });
    }

    let cases: Vec<Case> = items.iter().map(|i| i.case.clone()).collect();
    let runs = ctx.run_cases(&cases);
    for (it, run) in items.iter().zip(runs.iter()) {
        if let Some(a) = run.answers.last() {
            check_restored(ctx, &it.case, a, &it.originals, &it.given);
        }
    }
}
