//! C12: result accessors expose exactly the produced shards; drop starts a new round.
//!
//! Direct oracle (in `objs::read_encoder_result` / `read_decoder_result`): accessor by index incl.
//! usize extremes, iterator contents/order/exhaustion, lengths; many consecutive rounds on one
//! object with implicit reset only.

use crate::ctx::{Case, Ctx};
use crate::gen::*;
use crate::objs::{to_hex, ENGINES};

pub fn run(ctx: &mut Ctx) {
    let n = if ctx.thorough() { 2500 } else { 220 };
    let mut cases = vec![];
    for i in 0..n {
        let big = i % 8 == 7;
        let max_work = if big { *ctx.rng.pick(&[1024usize, 4096, 16384]) } else { *ctx.rng.pick(&[16usize, 32, 64]) };
        let cfg = gen_cfg(&mut ctx.rng, max_work, &["high", "low", "default", "rs"], &ENGINES, if big { &[2, 8] } else { &SMALL_SIZES });
        let rounds = if big { 2 } else { ctx.rng.range(1, 12) };
        let mut c = Case::new(&format!("rounds-{}", i));
        c.with_model = !big;
        c.push(cfg.new_line("E"));
        c.push(cfg.new_line("D"));
        for _ in 0..rounds {
            let originals = gen_originals(&mut ctx.rng, cfg.k, cfg.sb);
            for o in &originals {
                c.push(format!("E add {}", to_hex(o)));
            }
            c.push("E encode".into());
            let Some(recovery) = encode_impl(&cfg, &originals) else { continue };
            let (go, gr, pat) = gen_received(&mut ctx.rng, cfg.k, cfg.r);
            ctx.count("loss_pattern", pat);
            let mut order: Vec<(bool, usize)> = go.iter().map(|i| (true, *i)).chain(gr.iter().map(|i| (false, *i))).collect();
            ctx.rng.shuffle(&mut order);
            // rejected adds that are never retried: wrong-length shards for indexes that stay missing
            // (the accessors must still answer for them as "not given")
            if ctx.rng.chance(1, 3) {
                let missing_o: Vec<usize> = (0..cfg.k).filter(|i| !go.contains(i)).collect();
                let missing_r: Vec<usize> = (0..cfg.r).filter(|i| !gr.contains(i)).collect();
                for _ in 0..ctx.rng.range(1, 2) {
                    let wrong = if cfg.sb > 2 { cfg.sb - 2 } else { cfg.sb + 2 };
                    if !missing_o.is_empty() && ctx.rng.chance(2, 3) {
                        c.push(format!("D addo {} {}", ctx.rng.pick(&missing_o), to_hex(&ctx.rng.bytes(wrong))));
                        ctx.count("rejected_add", "original");
                    } else if !missing_r.is_empty() {
                        c.push(format!("D addr {} {}", ctx.rng.pick(&missing_r), to_hex(&ctx.rng.bytes(wrong))));
                        ctx.count("rejected_add", "recovery");
                    }
                }
            }
            for (is_o, i) in order {
                if is_o {
                    c.push(format!("D addo {} {}", i, to_hex(&originals[i])));
                } else {
                    c.push(format!("D addr {} {}", i, to_hex(&recovery[i])));
                }
            }
            c.push("D decode".into());
            // dropping the result started a new round: nothing of the finished round is left, so a second
            // `decode` / `encode` before any add must answer "no shards yet", not with the old round
            if ctx.rng.chance(1, 3) {
                c.push("D decode".into());
                ctx.count("probe_after_drop", "decode");
            }
            if ctx.rng.chance(1, 4) {
                c.push("E encode".into());
                ctx.count("probe_after_drop", "encode");
            }
        }
        ctx.count("rounds", &rounds.to_string());
        ctx.count("kind", &cfg.kind);
        cases.push(c);
    }
    ctx.run_cases(&cases);
    ctx.notes.push(format!("profile: {}", if cfg!(debug_assertions) { "dev (overflow checks, debug assertions)" } else { "release" }));
}
