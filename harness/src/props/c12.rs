//! C12: result accessors expose exactly the produced shards; drop starts a new round.
//!
//! Direct oracle (in `objs::read_encoder_result` / `read_decoder_result`): accessor by index incl.
//! usize extremes, iterator contents/order/exhaustion, lengths; many consecutive rounds on one
//! object with implicit reset only.

use crate::ctx::{Case, Ctx};
use crate::gen::*;
use crate::objs::{to_hex, ENGINES};

pub fn run(ctx: &mut Ctx) {
    let n = if ctx.thorough() { 2500 } else { 220 };
    let mut cases = vec![];
    for i in 0..n {
        let big = i % 8 == 7;
        let max_work = if big { *ctx.rng.pick(&[1024usize, 4096, 16384]) } else { *ctx.rng.pick(&[16usize, 32, 64]) };
        let cfg = gen_cfg(&mut ctx.rng, max_work, &["high", "low", "default", "rs"], &ENGINES, if big { &[2, 8] } else { &SMALL_SIZES });
        let rounds = if big { 2 } else { ctx.rng.range(1, 12) };
        let mut c = Case::new(&format!("rounds-{}", i));
        c.with_model = !big;
        c.push(cfg.new_line("E"));
        c.push(cfg.new_line("D"));
        for _ in 0..rounds {
            let originals = gen_originals(&mut ctx.rng, cfg.k, cfg.sb);
            for o in &originals {
                c.push(format!("E add {}", to_hex(o)));
            }
            c.push("E encode".into());
            let Some(recovery) = encode_impl(&cfg, &originals) else { continue };
            let (go, gr, pat) = gen_received(&mut ctx.rng, cfg.k, cfg.r);
            ctx.count("loss_pattern", pat);
            let mut order: Vec<(bool, usize)> = go.iter().map(|i| (true, *i)).chain(gr.iter().map(|i| (false, *i))).collect();
            ctx.rng.shuffle(&mut order);
            // rejected adds that are never retried: wrong-length shards for indexes that stay missing
            // (the accessors must still answer for them as "not given")
            if ctx.rng.chance(1, 3) {
                let missing_o: Vec<usize> = (0..cfg.k).filter(|i| !go.contains(i)).collect();
                let missing_r: Vec<usize> = (0..cfg.r).filter(|i| !gr.contains(i)).collect();
                for _ in 0..ctx.rng.range(1, 2) {
                    let wrong = if cfg.sb > 2 { cfg.sb - 2 } else { cfg.sb + 2 };
                    if !missing_o.is_empty() && ctx.rng.chance(2, 3) {
                        c.push(format!("D addo {} {}", ctx.rng.pick(&missing_o), to_hex(&ctx.rng.bytes(wrong))));
                        ctx.count("rejected_add", "original");
                    } else if !missing_r.is_empty() {
                        c.push(format!("D addr {} {}", ctx.rng.pick(&missing_r), to_hex(&ctx.rng.bytes(wrong))));
                        ctx.count("rejected_add", "recovery");
                    }
                }
            }
            for (is_o, i) in order {
                if is_o {
                    c.push(format!("D addo {} {}", i, to_hex(&originals[i])));
                } else {
                    c.push(format!("D addr {} {}", i, to_hex(&recovery[i])));
                }
            }
            c.push("D decode".into());
            // dropping the result started a new round: nothing of the finished round is left, so a second
            // `decode` / `encode` before any add must answer "no shards yet", not with the old round
            if ctx.rng.chance(1, 3) {
                c.push("D decode".into());
                ctx.count("probe_after_drop", "decode");
            }
            if ctx.rng.chance(1, 4) {
                c.push("E encode".into());
                ctx.count("probe_after_drop", "encode");
            }
        }
        ctx.count("rounds", &rounds.to_string());
        ctx.count("kind", &cfg.kind);
        cases.push(c);
    }
    ctx.run_cases(&cases);
    unwind_leg(ctx);
    ctx.notes.push(format!("profile: {}", if cfg!(debug_assertions) { "dev (overflow checks, debug assertions)" } else { "release" }));
}

/// "Dropping the result forgets the added shards" also when the drop happens while a panic unwinds (a job that panics
/// while it holds the result, caught by `catch_unwind` as a worker pool would): the same object must accept a new round
/// with the same configuration and produce what a fresh object produces.
fn unwind_leg(ctx: &mut Ctx) {
    use reed_solomon_simd::{ReedSolomonDecoder, ReedSolomonEncoder};
    use std::panic::{catch_unwind, AssertUnwindSafe};
    for n in 0..(if ctx.thorough() { 40 } else { 8 }) {
        let (k, r) = if n % 2 == 0 { (ctx.rng.range(2, 9), ctx.rng.range(1, 4)) } else { (ctx.rng.range(1, 4), ctx.rng.range(2, 9)) };
        let sb = *ctx.rng.pick(&[2usize, 64, 66, 130]);
        let case = Case { name: format!("unwind {}:{} {}", k, r, sb), lines: vec![format!("result of a {}:{} round ({} bytes) dropped by an unwinding panic, then a second round", k, r, sb)], with_model: false };
        ctx.evaluations += 1;
        ctx.count("unwind", if n % 2 == 0 { "high" } else { "low" });
        let o1: Vec<Vec<u8>> = (0..k).map(|_| ctx.rng.bytes(sb)).collect();
        let o2: Vec<Vec<u8>> = (0..k).map(|_| ctx.rng.bytes(sb)).collect();
        let want: Vec<Vec<u8>> = match reed_solomon_simd::encode(k, r, &o2) { Ok(x) => x, Err(_) => continue };
        let rec1: Vec<Vec<u8>> = match reed_solomon_simd::encode(k, r, &o1) { Ok(x) => x, Err(_) => continue };
        // encoder
        let Ok(mut e) = ReedSolomonEncoder::new(k, r, sb) else { continue };
        for o in &o1 { let _ = e.add_original_shard(o); }
        let _ = catch_unwind(AssertUnwindSafe(|| {
            let res = e.encode().expect("round 1");
            let _first = res.recovery(0).map(|s| s.len());
            panic!("job failed while holding the EncoderResult");
        }));
        let mut bad: Option<String> = None;
        for (i, o) in o2.iter().enumerate() {
            if let Err(err) = e.add_original_shard(o) { bad = Some(format!("encoder: add_original_shard #{} of the second round failed: {:?}", i, err)); break; }
        }
        if bad.is_none() {
            match e.encode() {
                Ok(res) => { let got: Vec<Vec<u8>> = res.recovery_iter().map(|s| s.to_vec()).collect(); if got != want { bad = Some("encoder: the second round's recovery shards differ from a fresh encoder's".into()); } }
                Err(err) => bad = Some(format!("encoder: encode of the second round failed: {:?}", err)),
            }
        }
        if let Some(b) = bad { ctx.oracle_fail(format!("after a result was dropped by an unwinding panic — {}", b), &case, None); continue; }
        // decoder: round 1 loses original 0, round 2 too (other data)
        let Ok(mut d) = ReedSolomonDecoder::new(k, r, sb) else { continue };
        for i in 1..k { let _ = d.add_original_shard(i, &o1[i]); }
        let _ = d.add_recovery_shard(0, &rec1[0]);
        let _ = catch_unwind(AssertUnwindSafe(|| {
            let res = d.decode().expect("round 1");
            let _x = res.restored_original(0).map(|s| s.len());
            panic!("job failed while holding the DecoderResult");
        }));
        let mut bad: Option<String> = None;
        for i in 1..k {
            if let Err(err) = d.add_original_shard(i, &o2[i]) { bad = Some(format!("decoder: add_original_shard({}) of the second round failed: {:?}", i, err)); break; }
        }
        if bad.is_none() {
            if let Err(err) = d.add_recovery_shard(0, &want[0]) { bad = Some(format!("decoder: add_recovery_shard(0) of the second round failed: {:?}", err)); }
        }
        if bad.is_none() {
            match d.decode() {
                Ok(res) => { if res.restored_original(0) != Some(&o2[0][..]) { bad = Some("decoder: the second round restores a wrong original".into()); } }
                Err(err) => bad = Some(format!("decoder: decode of the second round failed: {:?}", err)),
            }
        }
        if let Some(b) = bad { ctx.oracle_fail(format!("after a result was dropped by an unwinding panic — {}", b), &case, None); }
    }
}
