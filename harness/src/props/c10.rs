//! C10: one-shot encode()/decode() equal the streaming API, errors included.
//!
//! Direct oracle: one-shot call vs the equivalent streaming sequence on ReedSolomonEncoder /
//! ReedSolomonDecoder (both on the implementation): if the streaming sequence succeeds the one-shot
//! result must be identical; if it fails the one-shot call must fail with a truthful error.

use crate::ctx::{run_impl, Case, Ctx};
use crate::gen::*;
use crate::objs::{to_hex, envelope};
use crate::seqgen::EXTREME;

pub fn run(ctx: &mut Ctx) {
    let n = if ctx.thorough() { 20000 } else { 1500 };
    let mut cases = vec![];
    let mut streams = vec![];
    for i in 0..n {
        let valid = ctx.rng.chance(1, 2);
        let (k, r) = if ctx.rng.chance(4, 5) {
            let mw = *ctx.rng.pick(&[32usize, 32, 64, 128]);
            let (_, k, r) = gen_counts(&mut ctx.rng, mw, &["default"]);
            (k, r)
        } else {
            (ctx.rng.range(0, 4), ctx.rng.range(0, 4))
        };
        let sb = if valid || ctx.rng.chance(3, 4) { *ctx.rng.pick(&[2usize, 4, 6, 64, 66]) } else { *ctx.rng.pick(&[0usize, 1, 3]) };
        let mut c = Case::new(&format!("oneshot-{}", i));
        let mut s = Case::new("streaming");
        if i % 2 == 0 {
            // ---- encode
            // invalid tuples: a third of them are well-formed except for the shard size (exactly k shards of
            // one odd / zero length), the rest have any number of shards
            let only_size = !valid && ctx.rng.chance(1, 3);
            let sb = if only_size { *ctx.rng.pick(&[0usize, 1, 3, 5, 7, 63, 65]) } else { sb };
            let n_o = if valid || only_size { k } else { ctx.rng.below(k + 3) };
            let shards: Vec<Vec<u8>> = (0..n_o)
                .map(|_| {
                    let l = if !valid && !only_size && ctx.rng.chance(1, 6) { *ctx.rng.pick(&[0usize, 2, 4, 5]) } else { sb };
                    ctx.rng.bytes(l)
                })
                .collect();
            let txt = if shards.is_empty() { "-".to_string() } else { shards.iter().map(|x| to_hex(x)).collect::<Vec<_>>().join(",") };
            c.push(format!("X encode {} {} {}", k, r, txt));
            if let Some(f) = shards.first() {
                s.push(format!("E new rs default {} {} {}", k, r, f.len()));
                for sh in &shards {
                    s.push(format!("E add {}", to_hex(sh)));
                }
                s.push("E encode".into());
            }
            ctx.count("oneshot", if valid { "encode-valid" } else { "encode-mutated" });
        } else {
            // ---- decode: start from a real encoding when the configuration is supported
            let originals = gen_originals(&mut ctx.rng, k.max(1), if sb % 2 == 0 && sb > 0 { sb } else { 2 });
            let cfg = Cfg { kind: "rs".into(), engine: "default".into(), k, r, sb: originals[0].len() };
            let recovery = if envelope("default", k, r) { encode_impl(&cfg, &originals[..k]).unwrap_or_default() } else { vec![] };
            let (go, gr) = if envelope("default", k, r) && !recovery.is_empty() {
                let (a, b, _) = gen_received(&mut ctx.rng, k, r);
                (a, b)
            } else {
                (vec![], vec![])
            };
            let mut o: Vec<(usize, Vec<u8>)> = go.iter().map(|i| (*i, originals[*i].clone())).collect();
            let mut rc: Vec<(usize, Vec<u8>)> = gr.iter().map(|i| (*i, recovery[*i].clone())).collect();
            if ctx.rng.chance(1, 4) {
                rc.clear(); // the no-recovery branch
                if ctx.rng.chance(1, 2) {
                    o = (0..k).map(|i| (i, originals[i].clone())).collect();
                }
            }
            if !valid {
                // mutate: duplicates, out-of-range, wrong sizes, too few, extras
                for _ in 0..ctx.rng.range(1, 3) {
                    let which_o = ctx.rng.chance(1, 2);
                    let l: &mut Vec<(usize, Vec<u8>)> = if which_o { &mut o } else { &mut rc };
                    match ctx.rng.below(6) {
                        0 if !l.is_empty() => {
                            let d = l[ctx.rng.below(l.len())].clone();
                            l.push(d);
                        }
                        1 => l.push((if ctx.rng.chance(1, 2) { *ctx.rng.pick(&EXTREME) } else { k.max(r) + ctx.rng.below(2) }, ctx.rng.bytes(cfg.sb))),
                        2 if !l.is_empty() => {
                            let j = ctx.rng.below(l.len());
                            let nl = *ctx.rng.pick(&[0usize, 1, 2, 4, 6]);
                            l[j].1 = ctx.rng.bytes(nl);
                        }
                        3 if !l.is_empty() => {
                            let j = ctx.rng.below(l.len());
                            l.remove(j);
                        }
                        4 => {
                            let bound = if which_o { k } else { r };
                            if bound > 0 {
                                l.push((ctx.rng.below(bound), ctx.rng.bytes(cfg.sb)));
                            }
                        }
                        _ => {
                            if !l.is_empty() {
                                l.truncate(l.len() / 2);
                            }
                        }
                    }
                }
                ctx.rng.shuffle(&mut o);
            }
            let show = |l: &Vec<(usize, Vec<u8>)>| {
                if l.is_empty() { "-".to_string() } else { l.iter().map(|(i, b)| format!("{}:{}", i, to_hex(b))).collect::<Vec<_>>().join(",") }
            };
            c.push(format!("X decode {} {} {} {}", k, r, show(&o), show(&rc)));
            let first = rc.first().or(o.first());
            if let Some(f) = first {
                s.push(format!("D new rs default {} {} {}", k, r, f.1.len()));
                for (i, b) in &o {
                    s.push(format!("D addo {} {}", i, to_hex(b)));
                }
                for (i, b) in &rc {
                    s.push(format!("D addr {} {}", i, to_hex(b)));
                }
                s.push("D decode".into());
            }
            ctx.count("oneshot", if rc.is_empty() { if valid { "decode-norecovery-valid" } else { "decode-norecovery-mutated" } } else if valid { "decode-valid" } else { "decode-mutated" });
        }
        cases.push(c);
        streams.push(s);
    }
    // ---- the edge of the supported envelope, implementation only (2-byte shards): both counts in the top power-of-two
    //      bracket, the largest single-chunk configurations, one side at the field size, just outside on each side.
    //      The one-shot functions pre-check with `supports`, the streaming constructors validate on their own:
    //      the two must agree there too.
    let pool: [(usize, usize); 16] = [
        (16385, 16385), (20000, 17000), (17000, 20000), (32768, 32768), (32769, 32768), (32768, 32769), (4096, 61440), (61440, 4096),
        (61441, 4096), (4096, 61441), (1, 65535), (65535, 1), (65536, 1), (1, 65536), (40000, 30000), (30000, 32768),
    ];
    let n_edge = if ctx.thorough() { pool.len() } else { 6 };
    let mut picks: Vec<(usize, usize)> = pool.to_vec();
    ctx.rng.shuffle(&mut picks);
    // the same-bracket configurations are the ones a hand-written `supports` gets wrong most easily: always in
    let mut chosen: Vec<(usize, usize)> = vec![pool[ctx.rng.below(4)]];
    // … and the two extreme corners (a count of 1 next to 65535): always in as well
    chosen.push(pool[10]);
    chosen.push(pool[11]);
    chosen.extend(picks.into_iter().filter(|p| *p != pool[10] && *p != pool[11]).take(n_edge - 1));
    for (j, (k, r)) in chosen.into_iter().enumerate() {
        let mut c = Case::new(&format!("oneshot-edge-{}", j));
        c.with_model = false;
        let mut s = Case::new("streaming");
        s.with_model = false;
        let shards: Vec<Vec<u8>> = (0..k).map(|_| ctx.rng.bytes(2)).collect();
        if j % 2 == 0 {
            c.push(format!("X encode {} {} {}", k, r, shards.iter().map(|x| to_hex(x)).collect::<Vec<_>>().join(",")));
            s.push(format!("E new rs default {} {} 2", k, r));
            for sh in &shards { s.push(format!("E add {}", to_hex(sh))); }
            s.push("E encode".into());
            ctx.count("oneshot", "encode-envelope-edge");
        } else {
            // all originals given, no recovery shard: nothing to restore, but the configuration is validated
            let o: Vec<String> = shards.iter().enumerate().map(|(i, b)| format!("{}:{}", i, to_hex(b))).collect();
            c.push(format!("X decode {} {} {} -", k, r, o.join(",")));
            s.push(format!("D new rs default {} {} 2", k, r));
            for (i, b) in shards.iter().enumerate() { s.push(format!("D addo {} {}", i, to_hex(b))); }
            s.push("D decode".into());
            ctx.count("oneshot", "decode-envelope-edge");
        }
        cases.push(c);
        streams.push(s);
    }
    // ---- shards of more than half a megabyte (a size-dependent path in a one-shot function — striping, a working-space
    //      cap — is taken nowhere else): one-shot encode == streaming encode, byte for byte, both rates
    let n_long = if ctx.thorough() { 6 } else { 2 };
    for j in 0..n_long {
        let (k, r) = if j % 2 == 0 { (3usize, 2usize) } else { (2, 3) };
        let sb = *ctx.rng.pick(&[500_002usize, 524_288, 524_290, 600_000, 655_362]) + 2 * ctx.rng.range(0, 40) * (j % 3);
        let mut c = Case::new(&format!("oneshot-long-shards-{}", j));
        c.with_model = false;
        let mut s = Case::new("streaming");
        s.with_model = false;
        let shards: Vec<Vec<u8>> = (0..k).map(|_| ctx.rng.bytes(sb)).collect();
        c.push(format!("X encode {} {} {}", k, r, shards.iter().map(|x| to_hex(x)).collect::<Vec<_>>().join(",")));
        s.push(format!("E new rs default {} {} {}", k, r, sb));
        for sh in &shards { s.push(format!("E add {}", to_hex(sh))); }
        s.push("E encode".into());
        ctx.count("oneshot", "encode-long-shards");
        cases.push(c);
        streams.push(s);
    }
    // ---- counts far outside the envelope, up to usize::MAX (any size derived from a count BEFORE the `supports`
    //      pre-check — a capacity, a product — overflows or cannot be allocated here): the one-shot functions answer
    //      like the streaming constructors
    let big: [usize; 6] = [usize::MAX, usize::MAX - 1, usize::MAX / 2 + 1, 1 << 60, 1 << 59, (1 << 59) + 7];
    let n_huge = if ctx.thorough() { 24 } else { 8 };
    for j in 0..n_huge {
        let a = *ctx.rng.pick(&big);
        let b = if j % 3 == 0 { *ctx.rng.pick(&big) } else { ctx.rng.range(1, 9) };
        let (k, r) = if j % 2 == 0 { (a, b) } else if j % 3 == 0 { (a, b) } else { (b, a) };
        let (k, r) = if j % 4 == 1 { (a, *ctx.rng.pick(&big)) } else { (k, r) };
        let mut c = Case::new(&format!("oneshot-huge-counts-{}", j));
        c.with_model = false;
        let mut s = Case::new("streaming");
        s.with_model = false;
        let shards: Vec<Vec<u8>> = (0..ctx.rng.range(1, 4)).map(|_| ctx.rng.bytes(2)).collect();
        if j % 2 == 0 {
            c.push(format!("X encode {} {} {}", k, r, shards.iter().map(|x| to_hex(x)).collect::<Vec<_>>().join(",")));
            s.push(format!("E new rs default {} {} 2", k, r));
            ctx.count("oneshot", "encode-huge-counts");
        } else {
            let o: Vec<String> = shards.iter().enumerate().map(|(i, b)| format!("{}:{}", i, to_hex(b))).collect();
            let rc = if j % 4 == 1 { format!("0:{}", to_hex(&ctx.rng.bytes(2))) } else { "-".to_string() };
            c.push(format!("X decode {} {} {} {}", k, r, o.join(","), rc));
            s.push(format!("D new rs default {} {} 2", k, r));
            ctx.count("oneshot", "decode-huge-counts");
        }
        cases.push(c);
        streams.push(s);
    }
    let runs = ctx.run_cases(&cases);
    for ((c, s), run) in cases.iter().zip(streams.iter()).zip(runs.iter()) {
        if s.lines.is_empty() {
            continue;
        }
        let sr = run_impl(s);
        ctx.evaluations += 1;
        let one = run.answers[0].line();
        // the streaming sequence stops at its first failing call
        let first_fail = sr.answers.iter().position(|a| !a.line().starts_with("ok"));
        match first_fail {
            None => {
                let last = sr.answers.last().unwrap().line();
                if one != last {
                    ctx.oracle_fail(
                        format!("one-shot answered `{}` but the streaming sequence answered `{}`", crate::ctx::short(&one), crate::ctx::short(&last)),
                        c,
                        None,
                    );
                }
            }
            Some(_) => {
                if !one.starts_with("err ") {
                    ctx.oracle_fail(
                        format!("the streaming sequence fails but the one-shot call answered `{}`", crate::ctx::short(&one)),
                        c,
                        None,
                    );
                }
                // truthfulness of the error is checked by the shadow oracle in run_cases
            }
        }
    }
}
