//! C13: encoding is linear over GF(2^16).
//!
//! Direct oracle (oracle-free relations on the implementation): enc(a ^ b) = enc(a) ^ enc(b),
//! enc(0) = 0, enc(c . a) = c . enc(a) with the scalar multiplication of shards done by `rsmodel`
//! (`C scale`, own field arithmetic).  Correspondence: each encode also runs on the model.

use crate::ctx::{Case, Ctx};
use crate::gen::*;
use crate::objs::{parse_shards, to_hex, Ans, ENGINES};

fn xor(a: &[u8], b: &[u8]) -> Vec<u8> {
    a.iter().zip(b.iter()).map(|(x, y)| x ^ y).collect()
}

pub fn run(ctx: &mut Ctx) {
    let n = if ctx.thorough() { 3000 } else { 220 };
    let dummy = Case::new("scale");
    let mut cases = vec![];
    let mut metas = vec![];
    let mut scale_q: Vec<String> = vec![];
    for i in 0..n {
        let big = i % 10 == 9;
        // every 11th case: few shards of 4 KiB and more (64+ blocks), implementation only
        let long = !big && i % 11 == 4;
        let max_work = if big { 2048 } else if long { 8 } else { *ctx.rng.pick(&[8usize, 16, 32, 64]) };
        let cfg = gen_cfg(&mut ctx.rng, max_work, &["high", "low", "default", "rs"], &ENGINES, if big { &[2, 64, 66] } else if long { &LONG_SIZES } else { &SMALL_SIZES });
        // structured data (zero blocks, identical shards, constant fills, unit vectors) as well as
        // random: a data-dependent shortcut in the encoder shows up only on such inputs
        let a: Vec<Vec<u8>> = gen_originals(&mut ctx.rng, cfg.k, cfg.sb);
        let b: Vec<Vec<u8>> = if ctx.rng.chance(1, 3) {
            // sparse delta: one symbol, equal low and high byte
            let mut v = vec![vec![0u8; cfg.sb]; cfg.k];
            let (i, l) = (ctx.rng.below(cfg.k), ctx.rng.below(cfg.sb / 2));
            let (lo, hi) = crate::props::c04::slot_bytes(cfg.sb, l);
            let x = ctx.rng.range(1, 255) as u8;
            v[i][lo] = x;
            v[i][hi] = x;
            v
        } else {
            gen_originals(&mut ctx.rng, cfg.k, cfg.sb)
        };
        let ab: Vec<Vec<u8>> = a.iter().zip(b.iter()).map(|(x, y)| xor(x, y)).collect();
        let zero: Vec<Vec<u8>> = vec![vec![0u8; cfg.sb]; cfg.k];
        let c = *ctx.rng.pick(&[0usize, 1, 2, 18064, 65535, 0x8000, 12345]) ^ (if ctx.rng.chance(1, 2) { ctx.rng.below(65536) } else { 0 });
        let c = c % 65536;
        let mut case = Case::new(&format!("linear-{}", i));
        case.with_model = !big && !long;
        // half of the time the four encodes are consecutive rounds of ONE encoder (implicit reset only): the code is
        // linear whatever the object did before
        let reuse = ctx.rng.chance(1, 2);
        ctx.count("object", if reuse { "one encoder, four rounds" } else { "fresh encoder per round" });
        for (round, data) in [&a, &b, &ab, &zero].into_iter().enumerate() {
            if round == 0 || !reuse {
                case.push(cfg.new_line("E"));
            }
            for s in data.iter() {
                case.push(format!("E add {}", to_hex(s)));
            }
            case.push("E encode".into());
        }
        for s in &a {
            scale_q.push(format!("C scale {} {}", c, to_hex(s)));
        }
        ctx.count("kind", &cfg.kind);
        ctx.count("engine", &cfg.engine);
        ctx.count("constant_class", if c == 0 { "0" } else if c == 1 { "1" } else { "other" });
        cases.push(case);
        metas.push((cfg, c, a.len()));
    }
    let runs = ctx.run_cases(&cases);
    // c . a by the model
    let scaled = match ctx.model_eval(&scale_q) {
        Ok(s) => s,
        Err(e) => {
            ctx.model_fail(e, &dummy, None);
            return;
        }
    };
    let mut off = 0;
    let mut second_cases = vec![];
    let mut second_meta = vec![];
    for ((case, run), (cfg, c, k)) in cases.iter().zip(runs.iter()).zip(metas.iter()) {
        let enc: Vec<Option<Vec<Vec<u8>>>> = run
            .answers
            .iter()
            .filter_map(|a| match a { Ans::Ok(p) if !p.is_empty() => Some(parse_shards(p)), _ => None })
            .collect();
        if enc.len() != 4 || enc.iter().any(|e| e.is_none()) {
            ctx.oracle_fail("an encode of valid data failed".into(), case, None);
            off += k;
            continue;
        }
        let e: Vec<Vec<Vec<u8>>> = enc.into_iter().map(|x| x.unwrap()).collect();
        for j in 0..cfg.r {
            if xor(&e[0][j], &e[1][j]) != e[2][j] {
                ctx.oracle_fail(format!("enc(a^b) != enc(a)^enc(b) at recovery shard {} for {}", j, cfg.tag()), case, None);
                break;
            }
            if e[3][j].iter().any(|x| *x != 0) {
                ctx.oracle_fail(format!("enc(0) != 0 at recovery shard {} for {}", j, cfg.tag()), case, None);
                break;
            }
        }
        // encode c.a and compare with c.enc(a): second pass
        let mut c2 = Case::new("scaled");
        c2.with_model = false;
        c2.push(cfg.new_line("E"));
        for s in &scaled[off..off + k] {
            c2.push(format!("E add {}", s));
        }
        c2.push("E encode".into());
        off += k;
        second_cases.push(c2);
        second_meta.push((cfg.clone(), *c, e[0].clone(), case.clone()));
    }
    let runs2 = ctx.run_cases(&second_cases);
    let mut q2 = vec![];
    for (_, c, enc_a, _) in &second_meta {
        for s in enc_a {
            q2.push(format!("C scale {} {}", c, to_hex(s)));
        }
    }
    let scaled2 = match ctx.model_eval(&q2) {
        Ok(s) => s,
        Err(e) => {
            ctx.model_fail(e, &dummy, None);
            return;
        }
    };
    let mut off = 0;
    for (run, (cfg, c, enc_a, case)) in runs2.iter().zip(second_meta.iter()) {
        let want = format!("ok {}", scaled2[off..off + enc_a.len()].join(","));
        off += enc_a.len();
        let got = run.answers.last().unwrap().line();
        if got != want {
            ctx.oracle_fail(format!("enc(c.a) != c.enc(a) for c = {} and {}", c, cfg.tag()), case, None);
        }
    }
}
