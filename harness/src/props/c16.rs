//! C16: independent codec objects can be used concurrently from any threads.
//!
//! * dependency graph of the lazily initialised tables, observed from the running code in fresh
//!   processes with `LazyLock::get` (which tables are initialised after forcing exactly one), emitted
//!   as lean/RSVerif/Gen/LazyDeps.lean; the deadlock-freedom theorems are instantiated on it;
//! * schedule sampling (supporting evidence, not proof): fresh processes in which threads released
//!   by a barrier construct different engines / codecs (different first-touch subsets) and run rounds,
//!   objects moved between threads mid-round; results must equal sequential recomputation; a timeout
//!   is a deadlock.

use std::process::{Command, Stdio};
use std::sync::{mpsc, Arc, Barrier, LazyLock};
use std::time::{Duration, Instant};

use reed_solomon_simd::engine::{tables, Avx2, DefaultEngine, Engine, Naive, NoSimd, Ssse3};
use reed_solomon_simd::rate::{DefaultRateDecoder, DefaultRateEncoder, HighRateDecoder, HighRateEncoder, LowRateDecoder, LowRateEncoder, RateDecoder, RateEncoder};
use reed_solomon_simd::{ReedSolomonDecoder, ReedSolomonEncoder};

use crate::ctx::{Case, Ctx};
use crate::prng::Prng;

pub const TABLES: [&str; 5] = ["EXP_LOG", "LOG_WALSH", "MUL16", "MUL128", "SKEW"];

fn initialised() -> Vec<bool> {
    vec![
        LazyLock::get(&tables::EXP_LOG).is_some(),
        LazyLock::get(&tables::LOG_WALSH).is_some(),
        LazyLock::get(&tables::MUL16).is_some(),
        LazyLock::get(&tables::MUL128).is_some(),
        LazyLock::get(&tables::SKEW).is_some(),
    ]
}

/// child: force one thing in a cold process, print the initialised set
pub fn child_deps(what: &str) {
    match what {
        "EXP_LOG" => { let _ = &*tables::EXP_LOG; }
        "LOG_WALSH" => { let _ = &*tables::LOG_WALSH; }
        "MUL16" => { let _ = &*tables::MUL16; }
        "MUL128" => { let _ = &*tables::MUL128; }
        "SKEW" => { let _ = &*tables::SKEW; }
        "Naive::new" => { let _ = Naive::new(); }
        "NoSimd::new" => { let _ = NoSimd::new(); }
        "Ssse3::new" => { let _ = Ssse3::new(); }
        "Avx2::new" => { let _ = Avx2::new(); }
        "DefaultEngine::new" => { let _ = DefaultEngine::new(); }
        "eval_poly" => { let mut e = Box::new([0u16; 65536]); NoSimd::eval_poly(&mut e, 16); }
        _ => {}
    }
    let v = initialised();
    println!("{}", v.iter().map(|b| if *b { "1" } else { "0" }).collect::<String>());
}

fn job(kind: usize, seed: u64) -> Vec<u8> {
    // one complete encode + decode round with a given engine / codec flavour; returns a digest input
    let mut rng = Prng::new(seed);
    let (k, r, sb) = ([3usize, 5, 17, 2, 9][kind % 5], [2usize, 7, 4, 30, 9][kind % 5], [64usize, 2, 66, 4, 130][kind % 5]);
    let originals: Vec<Vec<u8>> = (0..k).map(|_| rng.bytes(sb)).collect();
    let mut out = vec![];
    macro_rules! round {
        ($enc:expr, $dec:expr) => {{
            let mut e = $enc;
            for o in &originals { e.add_original_shard(o).unwrap(); }
            let rec: Vec<Vec<u8>> = e.encode().unwrap().recovery_iter().map(|s| s.to_vec()).collect();
            let mut d = $dec;
            let miss = k.min(r);
            for i in miss..k { d.add_original_shard(i, &originals[i]).unwrap(); }
            for j in 0..miss { d.add_recovery_shard(j, &rec[j]).unwrap(); }
            let res = d.decode().unwrap();
            for (i, s) in res.restored_original_iter() { assert_eq!(s, &originals[i][..], "restored differs"); out.extend_from_slice(s); }
            for s in &rec { out.extend_from_slice(s); }
        }};
    }
    match kind % 6 {
        0 => round!(ReedSolomonEncoder::new(k, r, sb).unwrap(), ReedSolomonDecoder::new(k, r, sb).unwrap()),
        1 => round!(DefaultRateEncoder::new(k, r, sb, Naive::new(), None).unwrap(), DefaultRateDecoder::new(k, r, sb, Naive::new(), None).unwrap()),
        2 => round!(DefaultRateEncoder::new(k, r, sb, NoSimd::new(), None).unwrap(), DefaultRateDecoder::new(k, r, sb, NoSimd::new(), None).unwrap()),
        3 => round!(DefaultRateEncoder::new(k, r, sb, Ssse3::new(), None).unwrap(), DefaultRateDecoder::new(k, r, sb, Ssse3::new(), None).unwrap()),
        4 => round!(DefaultRateEncoder::new(k, r, sb, Avx2::new(), None).unwrap(), DefaultRateDecoder::new(k, r, sb, Avx2::new(), None).unwrap()),
        _ => {
            // decoder-first touch (LOG_WALSH before anything else on this thread)
            let mut e = Box::new([0u16; 65536]);
            e[3] = 1;
            DefaultEngine::eval_poly(&mut e, 8);
            out.extend_from_slice(&e[0].to_le_bytes());
            round!(ReedSolomonEncoder::new(k, r, sb).unwrap(), ReedSolomonDecoder::new(k, r, sb).unwrap())
        }
    }
    out
}

/// child: `threads` threads released together, each a different first-touch; then an object moved
/// between threads mid-round; everything compared with sequential recomputation
pub fn child_race(seed: u64, threads: usize) {
    let mut rng = Prng::new(seed);
    let barrier = Arc::new(Barrier::new(threads));
    let kinds: Vec<usize> = (0..threads).map(|_| rng.below(6)).collect();
    let seeds: Vec<u64> = (0..threads).map(|_| rng.next_u64()).collect();
    let skews: Vec<u64> = (0..threads).map(|_| rng.below(200) as u64).collect();
    let mut hs = vec![];
    for t in 0..threads {
        let b = barrier.clone();
        let (kind, sd, skew) = (kinds[t], seeds[t], skews[t]);
        hs.push(std::thread::spawn(move || {
            b.wait();
            // randomised start skew in microseconds
            let st = Instant::now();
            while st.elapsed() < Duration::from_micros(skew) { std::hint::spin_loop(); }
            job(kind, sd)
        }));
    }
    let mut results = vec![];
    for h in hs {
        match h.join() {
            Ok(r) => results.push(r),
            Err(_) => { println!("FAIL a thread panicked"); std::process::exit(1); }
        }
    }
    // move an encoder and a decoder between threads in the middle of a round
    let (k, r, sb) = (5usize, 3usize, 66usize);
    let originals: Vec<Vec<u8>> = (0..k).map(|_| rng.bytes(sb)).collect();
    let o2 = originals.clone();
    let (tx, rx) = mpsc::channel::<ReedSolomonEncoder>();
    let (tx2, rx2) = mpsc::channel::<(ReedSolomonDecoder, Vec<Vec<u8>>)>();
    let a = std::thread::spawn(move || {
        let mut e = ReedSolomonEncoder::new(k, r, sb).unwrap();
        e.add_original_shard(&o2[0]).unwrap();
        e.add_original_shard(&o2[1]).unwrap();
        tx.send(e).unwrap();
    });
    let o3 = originals.clone();
    let bthread = std::thread::spawn(move || {
        let mut e = rx.recv().unwrap();
        for i in 2..k { e.add_original_shard(&o3[i]).unwrap(); }
        let rec: Vec<Vec<u8>> = e.encode().unwrap().recovery_iter().map(|s| s.to_vec()).collect();
        let mut d = ReedSolomonDecoder::new(k, r, sb).unwrap();
        d.add_recovery_shard(0, &rec[0]).unwrap();
        d.add_original_shard(1, &o3[1]).unwrap();
        tx2.send((d, rec)).unwrap();
    });
    let o4 = originals.clone();
    let c = std::thread::spawn(move || {
        let (mut d, rec) = rx2.recv().unwrap();
        d.add_recovery_shard(2, &rec[2]).unwrap();
        d.add_original_shard(3, &o4[3]).unwrap();
        d.add_recovery_shard(1, &rec[1]).unwrap();
        let res = d.decode().unwrap();
        let restored: Vec<(usize, Vec<u8>)> = res.restored_original_iter().map(|(i, s)| (i, s.to_vec())).collect();
        (restored, rec)
    });
    a.join().unwrap();
    bthread.join().unwrap();
    let (restored, rec) = match c.join() { Ok(x) => x, Err(_) => { println!("FAIL moved object panicked"); std::process::exit(1); } };
    let seq_rec = reed_solomon_simd::encode(k, r, &originals).unwrap();
    if rec != seq_rec { println!("FAIL moved encoder result differs from sequential"); std::process::exit(1); }
    let want: Vec<(usize, Vec<u8>)> = vec![(0, originals[0].clone()), (2, originals[2].clone()), (4, originals[4].clone())];
    if restored != want { println!("FAIL moved decoder result differs"); std::process::exit(1); }
    // ping-pong: one decoder (and one encoder) bounce between three long-lived worker threads over many
    // rounds, with loss patterns drawn from a pool of two so that patterns repeat across threads
    // (per-thread state keyed on "what this object did last" shows up as a wrong result)
    {
        type Job = Box<dyn FnOnce() + Send>;
        let workers: Vec<mpsc::Sender<Job>> = (0..3).map(|_| {
            let (tx, rx) = mpsc::channel::<Job>();
            std::thread::spawn(move || { while let Ok(j) = rx.recv() { j(); } });
            tx
        }).collect();
        for (k, r, sb) in [(5usize, 3usize, 66usize), (3, 5, 64), (6, 6, 2)] {
            let mut dec = Some(ReedSolomonDecoder::new(k, r, sb).unwrap());
            let mut enc = Some(ReedSolomonEncoder::new(k, r, sb).unwrap());
            // two loss patterns (sets of missing originals, each replaced by a recovery shard)
            let m = r.min(k);
            let pats: Vec<Vec<usize>> = (0..2).map(|_| { let n = rng.range(1, m); rng.subset(k, n) }).collect();
            for round in 0..10 {
                let originals: Vec<Vec<u8>> = (0..k).map(|_| rng.bytes(sb)).collect();
                let (w_enc, w_dec) = (rng.below(3), rng.below(3));
                // encode on one worker
                let (etx, erx) = mpsc::channel();
                let mut e = enc.take().unwrap();
                let o = originals.clone();
                workers[w_enc].send(Box::new(move || {
                    for x in &o { e.add_original_shard(x).unwrap(); }
                    let rec: Vec<Vec<u8>> = e.encode().unwrap().recovery_iter().map(|s| s.to_vec()).collect();
                    etx.send((e, rec)).unwrap();
                })).unwrap();
                let (e, rec) = match erx.recv_timeout(Duration::from_secs(20)) { Ok(x) => x, Err(_) => { println!("FAIL ping-pong encoder worker died"); std::process::exit(1); } };
                enc = Some(e);
                if rec != reed_solomon_simd::encode(k, r, &originals).unwrap() {
                    println!("FAIL ping-pong encoder (round {}) differs from sequential", round);
                    std::process::exit(1);
                }
                // decode on another worker, pattern from the pool
                let missing = pats[rng.below(2)].clone();
                let (dtx, drx) = mpsc::channel();
                let mut d = dec.take().unwrap();
                let (o, rc, miss) = (originals.clone(), rec.clone(), missing.clone());
                workers[w_dec].send(Box::new(move || {
                    for i in 0..o.len() { if !miss.contains(&i) { d.add_original_shard(i, &o[i]).unwrap(); } }
                    for j in 0..miss.len() { d.add_recovery_shard(j, &rc[j]).unwrap(); }
                    let restored: Vec<(usize, Vec<u8>)> = d.decode().unwrap().restored_original_iter().map(|(i, s)| (i, s.to_vec())).collect();
                    dtx.send((d, restored)).unwrap();
                })).unwrap();
                let (d, restored) = match drx.recv_timeout(Duration::from_secs(20)) { Ok(x) => x, Err(_) => { println!("FAIL ping-pong decoder worker died"); std::process::exit(1); } };
                dec = Some(d);
                let mut want: Vec<(usize, Vec<u8>)> = missing.iter().map(|i| (*i, originals[*i].clone())).collect();
                want.sort();
                if restored != want {
                    println!("FAIL ping-pong decoder {}:{} round {} on worker {} (missing {:?}) differs from the encoded originals", k, r, round, w_dec, missing);
                    std::process::exit(1);
                }
            }
        }
    }
    // sequential recomputation (tables warm now)
    for t in 0..threads {
        if job(kinds[t], seeds[t]) != results[t] {
            println!("FAIL thread {} (job kind {}) differs from sequential recomputation", t, kinds[t]);
            std::process::exit(1);
        }
    }
    println!("OK {:?}", kinds);
}

/// child: many threads (more than any small fixed pool), each creating, using and dropping its OWN codecs with
/// large work buffers (1 - 4 MiB, three configurations in rotation) in a loop; every few iterations a full round
/// is compared with a reference computed sequentially at the start.  Anything shared between independent objects
/// behind the scenes (buffer pools, caches keyed on size) is exercised at its contention points here.
pub fn child_churn(seed: u64, threads: usize) {
    let cfgs: [(usize, usize, usize); 3] = [(300, 200, 4096), (100, 150, 8192), (500, 500, 2048)];
    let mut rng = Prng::new(seed);
    let mut refs = vec![];
    for (k, r, sb) in cfgs {
        let originals: Vec<Vec<u8>> = (0..k).map(|_| rng.bytes(sb)).collect();
        let mut e = ReedSolomonEncoder::new(k, r, sb).unwrap();
        for o in &originals { e.add_original_shard(o).unwrap(); }
        let rec: Vec<Vec<u8>> = e.encode().unwrap().recovery_iter().map(|s| s.to_vec()).collect();
        refs.push((originals, rec));
    }
    let refs = Arc::new(refs);
    let barrier = Arc::new(Barrier::new(threads));
    let deadline = Instant::now() + Duration::from_millis(1500);
    let mut hs = vec![];
    for t in 0..threads {
        let refs = refs.clone();
        let barrier = barrier.clone();
        hs.push(std::thread::spawn(move || -> Result<(), String> {
            barrier.wait();
            let mut it = 0usize;
            while Instant::now() < deadline {
                it += 1;
                // two thirds of the threads stay with one configuration, the others rotate
                let c = if t % 3 == 2 { (t + it) % 3 } else { t % 3 };
                let (k, r, sb) = cfgs[c];
                let (originals, rec) = &refs[c];
                let mut e = ReedSolomonEncoder::new(k, r, sb).map_err(|e| format!("{:?}", e))?;
                let mut d = ReedSolomonDecoder::new(k, r, sb).map_err(|e| format!("{:?}", e))?;
                if it % 512 == 1 + t {
                    for o in originals { e.add_original_shard(o).map_err(|e| format!("{:?}", e))?; }
                    let got: Vec<Vec<u8>> = e.encode().map_err(|e| format!("{:?}", e))?.recovery_iter().map(|s| s.to_vec()).collect();
                    if &got != rec { return Err(format!("thread {} iteration {}: recovery shards of {}:{} differ from the sequential reference", t, it, k, r)); }
                    let miss = k.min(r).min(40);
                    for i in miss..k { d.add_original_shard(i, &originals[i]).map_err(|e| format!("{:?}", e))?; }
                    for j in 0..miss { d.add_recovery_shard(j, &rec[j]).map_err(|e| format!("{:?}", e))?; }
                    let res = d.decode().map_err(|e| format!("{:?}", e))?;
                    for (i, s) in res.restored_original_iter() {
                        if s != &originals[i][..] { return Err(format!("thread {} iteration {}: restored original {} of {}:{} differs", t, it, i, k, r)); }
                    }
                } else if it % 16 == 0 {
                    // reconfigure instead of dropping: another size class on the same object
                    let (k2, r2, sb2) = cfgs[(c + 1) % 3];
                    e.reset(k2, r2, sb2).map_err(|e| format!("{:?}", e))?;
                    d.reset(k2, r2, sb2).map_err(|e| format!("{:?}", e))?;
                }
            }
            Ok(())
        }));
    }
    let mut bad = vec![];
    for (t, h) in hs.into_iter().enumerate() {
        match h.join() {
            Ok(Ok(())) => {}
            Ok(Err(e)) => bad.push(e),
            Err(_) => bad.push(format!("thread {} panicked", t)),
        }
    }
    if bad.is_empty() { println!("OK churn {}", threads); } else { println!("FAIL {} of {} churning threads failed: {}", bad.len(), threads, bad[0]); std::process::exit(1); }
}

/// one thread's work in `child_engines`: its own engine, its own dedicated-rate encoder and decoder, whole rounds on
/// shards of several KiB for about a second, every result compared with the sequential reference
fn engine_rounds<E: Engine + 'static>(mk: fn() -> E, high: bool, k: usize, r: usize, sb: usize, originals: &[Vec<u8>], rec: &[Vec<u8>], deadline: Instant, t: usize) -> Result<usize, String> {
    let mut n = 0usize;
    while Instant::now() < deadline {
        n += 1;
        let got: Vec<Vec<u8>> = if high {
            let mut e = HighRateEncoder::new(k, r, sb, mk(), None).map_err(|e| format!("{:?}", e))?;
            for o in originals { e.add_original_shard(o).map_err(|e| format!("{:?}", e))?; }
            let x = e.encode().map_err(|e| format!("{:?}", e))?.recovery_iter().map(|s| s.to_vec()).collect(); x
        } else {
            let mut e = LowRateEncoder::new(k, r, sb, mk(), None).map_err(|e| format!("{:?}", e))?;
            for o in originals { e.add_original_shard(o).map_err(|e| format!("{:?}", e))?; }
            let x = e.encode().map_err(|e| format!("{:?}", e))?.recovery_iter().map(|s| s.to_vec()).collect(); x
        };
        if got != rec { return Err(format!("thread {} round {}: recovery shards of {}:{} ({} bytes, {}) differ from the sequential reference", t, n, k, r, sb, std::any::type_name::<E>())); }
        let miss = k.min(r);
        let restored: Vec<(usize, Vec<u8>)> = if high {
            let mut d = HighRateDecoder::new(k, r, sb, mk(), None).map_err(|e| format!("{:?}", e))?;
            for i in miss..k { d.add_original_shard(i, &originals[i]).map_err(|e| format!("{:?}", e))?; }
            for j in 0..miss { d.add_recovery_shard(j, &rec[j]).map_err(|e| format!("{:?}", e))?; }
            let x = d.decode().map_err(|e| format!("{:?}", e))?.restored_original_iter().map(|(i, s)| (i, s.to_vec())).collect(); x
        } else {
            let mut d = LowRateDecoder::new(k, r, sb, mk(), None).map_err(|e| format!("{:?}", e))?;
            for i in miss..k { d.add_original_shard(i, &originals[i]).map_err(|e| format!("{:?}", e))?; }
            for j in 0..miss { d.add_recovery_shard(j, &rec[j]).map_err(|e| format!("{:?}", e))?; }
            let x = d.decode().map_err(|e| format!("{:?}", e))?.restored_original_iter().map(|(i, s)| (i, s.to_vec())).collect(); x
        };
        if restored.len() != miss || restored.iter().any(|(i, s)| *s != originals[*i]) {
            return Err(format!("thread {} round {}: restored originals of {}:{} ({} bytes, {}) differ", t, n, k, r, sb, std::any::type_name::<E>()));
        }
    }
    Ok(n)
}

/// child: `threads` threads, each with ITS OWN engine of one of the four x86 families (chosen by thread number) and its
/// own dedicated-rate codecs, running whole rounds on shards of 2 .. 8 KiB at the same time (what an engine keeps
/// outside its own object would be shared here)
pub fn child_engines(seed: u64, threads: usize) {
    let mut rng = Prng::new(seed);
    let cfgs: Vec<(bool, usize, usize, usize)> = vec![(true, 12, 6, 4096), (false, 5, 12, 2048 + 64 * rng.range(0, 40)), (true, 20, 9, 8192), (false, 3, 20, 6144)];
    let avx2 = std::arch::is_x86_feature_detected!("avx2");
    let ssse3 = std::arch::is_x86_feature_detected!("ssse3");
    let mut refs = vec![];
    for (high, k, r, sb) in cfgs.iter().cloned() {
        let originals: Vec<Vec<u8>> = (0..k).map(|_| rng.bytes(sb)).collect();
        let rec: Vec<Vec<u8>> = if high {
            let mut e = HighRateEncoder::new(k, r, sb, Naive::new(), None).unwrap();
            for o in &originals { e.add_original_shard(o).unwrap(); }
            let x = e.encode().unwrap().recovery_iter().map(|s| s.to_vec()).collect(); x
        } else {
            let mut e = LowRateEncoder::new(k, r, sb, Naive::new(), None).unwrap();
            for o in &originals { e.add_original_shard(o).unwrap(); }
            let x = e.encode().unwrap().recovery_iter().map(|s| s.to_vec()).collect(); x
        };
        refs.push((originals, rec));
    }
    let refs = Arc::new(refs);
    let cfgs = Arc::new(cfgs);
    let barrier = Arc::new(Barrier::new(threads));
    let deadline = Instant::now() + Duration::from_millis(1200);
    let mut hs = vec![];
    for t in 0..threads {
        let (refs, cfgs, barrier) = (refs.clone(), cfgs.clone(), barrier.clone());
        hs.push(std::thread::spawn(move || -> Result<usize, String> {
            barrier.wait();
            let (high, k, r, sb) = cfgs[(t / 4) % cfgs.len()];
            let (originals, rec) = &refs[(t / 4) % cfgs.len()];
            // half of the threads run NoSimd (the engine every machine can fall back to), the others rotate
            match t % 4 {
                0 | 2 => engine_rounds(NoSimd::new, high, k, r, sb, originals, rec, deadline, t),
                1 => if avx2 { engine_rounds(Avx2::new, high, k, r, sb, originals, rec, deadline, t) } else { engine_rounds(NoSimd::new, high, k, r, sb, originals, rec, deadline, t) },
                _ => if ssse3 { engine_rounds(Ssse3::new, high, k, r, sb, originals, rec, deadline, t) } else { engine_rounds(Naive::new, high, k, r, sb, originals, rec, deadline, t) },
            }
        }));
    }
    let mut bad = vec![];
    let mut rounds = 0;
    for (t, h) in hs.into_iter().enumerate() {
        match h.join() {
            Ok(Ok(n)) => rounds += n,
            Ok(Err(e)) => bad.push(e),
            Err(_) => bad.push(format!("thread {} panicked", t)),
        }
    }
    if bad.is_empty() { println!("OK engines {} threads {} rounds", threads, rounds); } else { println!("FAIL {} of {} threads: {}", bad.len(), threads, bad[0]); std::process::exit(1); }
}

/// a shard whose bytes are produced by a complete, independent coding round at the moment the library asks for them
struct NestedShard(Vec<u8>);
impl AsRef<[u8]> for NestedShard {
    fn as_ref(&self) -> &[u8] {
        // an independent one-shot call and an independent streaming object, inside the callee's `as_ref()` call
        let o = vec![self.0.clone(), self.0.clone()];
        let rec = reed_solomon_simd::encode(2, 2, &o).expect("nested encode");
        let got = reed_solomon_simd::decode(2, 2, [(1usize, &o[1])], [(0usize, &rec[0])]).expect("nested decode");
        assert_eq!(got.get(&0), Some(&o[0]));
        let mut e = ReedSolomonEncoder::new(2, 1, self.0.len()).expect("nested encoder");
        e.add_original_shard(&o[0]).unwrap();
        e.add_original_shard(&o[1]).unwrap();
        let _ = e.encode().expect("nested round");
        &self.0
    }
}

/// child: independent codec uses that are NESTED or PIPELINED — the input of one call is produced, while that call is
/// running, by another independent call (on another thread, or inside `Iterator::next` / `AsRef::as_ref` of the caller's
/// own input). Independent objects and one-shot calls share no lock a caller could observe, so all of it terminates
/// (the parent enforces a timeout) with the sequential results.
pub fn child_pipe(seed: u64) {
    let mut rng = Prng::new(seed);
    let sb = *rng.pick(&[2usize, 64, 130]);
    let inner: Vec<Vec<u8>> = (0..2).map(|_| rng.bytes(sb)).collect();
    let first = rng.bytes(sb);
    // sequential reference
    let inner_rec = reed_solomon_simd::encode(2, 2, &inner).unwrap();
    let outer_orig = vec![first.clone(), inner_rec[0].clone(), inner_rec[1].clone()];
    let want = reed_solomon_simd::encode(3, 2, &outer_orig).unwrap();

    // (1) pipelined one-shot encodes on two threads: A's iterator blocks until B's encode has finished
    for variant in 0..2 {
        let (go_tx, go_rx) = mpsc::channel::<()>();
        let (sh_tx, sh_rx) = mpsc::channel::<Vec<u8>>();
        let inner2 = inner.clone();
        let b = std::thread::spawn(move || {
            go_rx.recv().unwrap();
            let rec = reed_solomon_simd::encode(2, 2, &inner2).unwrap();
            for r in rec { sh_tx.send(r).unwrap(); }
        });
        let mut sent = false;
        let mut n = 0;
        let first2 = first.clone();
        let it = std::iter::from_fn(move || {
            n += 1;
            match n {
                1 => Some(first2.clone()),
                2 | 3 => {
                    if !sent { go_tx.send(()).unwrap(); sent = true; }
                    Some(sh_rx.recv().unwrap())
                }
                _ => None,
            }
        });
        let got = if variant == 0 {
            reed_solomon_simd::encode(3, 2, it).unwrap()
        } else {
            // the same through the decode side: originals arrive from the blocking iterator
            let all: Vec<Vec<u8>> = it.collect();
            let rec = reed_solomon_simd::encode(3, 2, &all).unwrap();
            let (tx, rx) = mpsc::channel::<(usize, Vec<u8>)>();
            let all2 = all.clone();
            let rec2 = rec.clone();
            let feeder = std::thread::spawn(move || {
                // the feeder itself decodes something before it hands over the shards
                let g = reed_solomon_simd::decode(3, 2, [(0usize, &all2[0]), (2usize, &all2[2])], [(1usize, &rec2[1])]).unwrap();
                assert_eq!(g.get(&1), Some(&all2[1]));
                tx.send((0, all2[0].clone())).unwrap();
                tx.send((2, all2[2].clone())).unwrap();
            });
            let originals = std::iter::from_fn(|| rx.recv().ok());
            let g = reed_solomon_simd::decode(3, 2, originals, [(0usize, &rec[0])]).unwrap();
            feeder.join().unwrap();
            if g.get(&1) != Some(&all[1]) { println!("FAIL pipelined decode restored a wrong original"); std::process::exit(1); }
            rec
        };
        b.join().unwrap();
        if got != want { println!("FAIL pipelined one-shot encode differs from the sequential result (variant {})", variant); std::process::exit(1); }
    }
    // (2) nested on ONE thread: the outer call's iterator runs a complete inner call inside `next`
    {
        let inner3 = inner.clone();
        let first3 = first.clone();
        let mut cache: Option<Vec<Vec<u8>>> = None;
        let mut n = 0;
        let it = std::iter::from_fn(move || {
            n += 1;
            match n {
                1 => Some(first3.clone()),
                2 | 3 => {
                    if cache.is_none() { cache = Some(reed_solomon_simd::encode(2, 2, &inner3).unwrap()); }
                    Some(cache.as_ref().unwrap()[n - 2].clone())
                }
                _ => None,
            }
        });
        let got = reed_solomon_simd::encode(3, 2, it).unwrap();
        if got != want { println!("FAIL nested one-shot encode differs from the sequential result"); std::process::exit(1); }
    }
    // (3) nested through `AsRef`: the shard handed to a streaming object / a one-shot call runs independent rounds
    //     when the library asks for its bytes
    {
        let shards: Vec<NestedShard> = outer_orig.iter().map(|v| NestedShard(v.clone())).collect();
        let mut e = ReedSolomonEncoder::new(3, 2, sb).unwrap();
        for s in &shards { e.add_original_shard(s).unwrap(); }
        let got: Vec<Vec<u8>> = e.encode().unwrap().recovery_iter().map(|s| s.to_vec()).collect();
        if got != want { println!("FAIL streaming encoder fed with nesting shards differs from the sequential result"); std::process::exit(1); }
        let got = reed_solomon_simd::encode(3, 2, &shards).unwrap();
        if got != want { println!("FAIL one-shot encode fed with nesting shards differs from the sequential result"); std::process::exit(1); }
        let mut d = ReedSolomonDecoder::new(3, 2, sb).unwrap();
        d.add_original_shard(0, &shards[0]).unwrap();
        d.add_recovery_shard(0, NestedShard(want[0].clone())).unwrap();
        d.add_recovery_shard(1, NestedShard(want[1].clone())).unwrap();
        let res = d.decode().unwrap();
        if res.restored_original(1) != Some(&outer_orig[1][..]) || res.restored_original(2) != Some(&outer_orig[2][..]) {
            println!("FAIL streaming decoder fed with nesting shards restored wrong originals"); std::process::exit(1);
        }
        drop(res);
        let g = reed_solomon_simd::decode(3, 2, [(2usize, &shards[2])], [(0usize, NestedShard(want[0].clone())), (1usize, NestedShard(want[1].clone()))]).unwrap();
        if g.get(&0) != Some(&outer_orig[0]) || g.get(&1) != Some(&outer_orig[1]) {
            println!("FAIL one-shot decode fed with nesting shards restored wrong originals"); std::process::exit(1);
        }
    }
    println!("OK pipe");
}

pub fn run_child(args: &[String], timeout: Duration) -> Result<String, String> {
    let exe = std::env::current_exe().map_err(|e| e.to_string())?;
    let mut child = Command::new(exe).args(args).stdout(Stdio::piped()).stderr(Stdio::piped()).spawn().map_err(|e| e.to_string())?;
    let st = Instant::now();
    loop {
        match child.try_wait() {
            Ok(Some(_)) => break,
            Ok(None) => {
                if st.elapsed() > timeout {
                    let _ = child.kill();
                    return Err(format!("timeout after {:?} (deadlock?)", timeout));
                }
                std::thread::sleep(Duration::from_millis(5));
            }
            Err(e) => return Err(e.to_string()),
        }
    }
    let out = child.wait_with_output().map_err(|e| e.to_string())?;
    let text = String::from_utf8_lossy(&out.stdout).trim().to_string();
    if !out.status.success() {
        return Err(format!("exit {:?}: {} {}", out.status.code(), text, String::from_utf8_lossy(&out.stderr)));
    }
    Ok(text)
}

/// observed closure: for each table, the set of tables initialised after forcing only it
pub fn observe_deps() -> Result<Vec<Vec<usize>>, String> {
    let mut tbl = vec![];
    for (i, t) in TABLES.iter().enumerate() {
        let s = run_child(&["c16-deps".into(), t.to_string()], Duration::from_secs(60))?;
        let bits: Vec<bool> = s.chars().map(|c| c == '1').collect();
        if bits.len() != 5 || !bits[i] {
            return Err(format!("probe of {} answered `{}`", t, s));
        }
        tbl.push((0..5).filter(|j| *j != i && bits[*j]).collect());
    }
    Ok(tbl)
}

pub fn lean_file(tbl: &[Vec<usize>]) -> String {
    // rank = longest chain; a cycle leaves ranks that the Lean `decide` will reject
    let n = tbl.len();
    let mut rank = vec![0usize; n];
    for _ in 0..n {
        for c in 0..n {
            for &u in &tbl[c] {
                if rank[c] < rank[u] + 1 && rank[u] + 1 <= n { rank[c] = rank[u] + 1; }
            }
        }
    }
    let show = |v: &Vec<usize>| format!("[{}]", v.iter().map(|x| x.to_string()).collect::<Vec<_>>().join(", "));
    format!(
        "/-\n  GENERATED on every run of the C16 check by `rsharness c16-gen` from the running code:\n  for each lazily initialised table (0 = EXP_LOG, 1 = LOG_WALSH, 2 = MUL16, 3 = MUL128, 4 = SKEW)\n  the other tables that are initialised after forcing only that table in a fresh process\n  (observed with `LazyLock::get`).  Do not edit.\n-/\nimport RSVerif.Proofs.LazyProofs\n\nnamespace RS.Gen\n\ndef observedDeps : List (List Nat) := [{}]\n\ndef observedRank : List Nat := {}\n\ntheorem observed_rank_ok : rankOk observedDeps observedRank = true := by decide\n\nend RS.Gen\n",
        tbl.iter().map(show).collect::<Vec<_>>().join(", "),
        show(&rank)
    )
}

pub fn run(ctx: &mut Ctx) {
    let dummy = Case::new("lazy-deps");
    match observe_deps() {
        Ok(tbl) => {
            ctx.notes.push(format!("observed table dependency closures: {:?}", tbl));
            let want: Vec<Vec<usize>> = vec![vec![], vec![0], vec![0], vec![0], vec![0]];
            if tbl != want {
                ctx.notes.push("dependency graph differs from the pinned tree's ([[],[0],[0],[0],[0]]); the theorem is instantiated on the observed graph".into());
            }
            // what each constructor touches first (recorded as evidence; the theorems hold for any wants)
            for what in ["Naive::new", "NoSimd::new", "Ssse3::new", "Avx2::new", "DefaultEngine::new", "eval_poly"] {
                if let Ok(s) = run_child(&["c16-deps".into(), what.to_string()], Duration::from_secs(60)) {
                    ctx.count("first_touch", &format!("{} -> {}", what, s));
                }
            }
        }
        Err(e) => ctx.oracle_fail(format!("single-threaded probe of the lazy tables failed (cycle / panic?): {}", e), &dummy, None),
    }
    let n = if ctx.thorough() { 1500 } else { 48 };
    let threads = if ctx.thorough() { 16 } else { 8 };
    // children in parallel batches
    let mut seeds: Vec<u64> = (0..n).map(|_| ctx.rng.next_u64()).collect();
    let par = 8;
    while !seeds.is_empty() {
        let batch: Vec<u64> = seeds.drain(..par.min(seeds.len())).collect();
        let hs: Vec<_> = batch.iter().map(|sd| { let sd = *sd; std::thread::spawn(move || (sd, run_child(&["c16-race".into(), sd.to_string(), threads.to_string()], Duration::from_secs(60)))) }).collect();
        for h in hs {
            let (sd, r) = h.join().unwrap();
            ctx.evaluations += 1;
            ctx.distinct.insert(sd);
            let case = Case { name: format!("race seed={} threads={}", sd, threads), lines: vec![format!("rsharness c16-race {} {}", sd, threads)], with_model: false };
            if ctx.samples.len() < 3 {
                let mut j = crate::json::J::obj();
                j.set("child_process", crate::json::J::s(&format!("rsharness c16-race {} {}", sd, threads)));
                j.set("what", crate::json::J::s("threads released together on different first touches of the lazy tables, then one encoder and one decoder bounced between three worker threads for 10 rounds x 3 configurations; every result compared with sequential recomputation"));
                j.set("answer", crate::json::J::s(&match &r { Ok(s) => crate::ctx::short(s), Err(e) => crate::ctx::short(e) }));
                ctx.sample(j);
            }
            match r {
                Ok(s) if s.starts_with("OK") => { ctx.count("jobs", &s); }
                Ok(s) => ctx.oracle_fail(format!("concurrent use differs from sequential use: {}", s), &case, None),
                Err(e) => ctx.oracle_fail(format!("concurrent run failed: {}", e), &case, None),
            }
        }
    }
    // churn: 24 threads creating / resetting / dropping their own large codecs
    let n_churn = if ctx.thorough() { 60 } else { 6 };
    let churn_seeds: Vec<u64> = (0..n_churn).map(|_| ctx.rng.next_u64()).collect();
    for pair in churn_seeds.chunks(2) {
        let hs: Vec<_> = pair.iter().map(|sd| { let sd = *sd; std::thread::spawn(move || (sd, run_child(&["c16-churn".into(), sd.to_string(), "24".into()], Duration::from_secs(120)))) }).collect();
        for h in hs {
            let (sd, r) = h.join().unwrap();
            ctx.evaluations += 1;
            ctx.distinct.insert(sd);
            let case = Case { name: format!("churn seed={} threads=24", sd), lines: vec![format!("rsharness c16-churn {} 24", sd)], with_model: false };
            match r {
                Ok(s) if s.starts_with("OK") => { ctx.count("churn", "processes_ok"); }
                Ok(s) => ctx.oracle_fail(format!("independent codecs created / dropped concurrently misbehave: {}", s), &case, None),
                Err(e) => ctx.oracle_fail(format!("concurrent churn run failed: {}", e), &case, None),
            }
        }
    }
    // every engine family at once, each thread with its own engine and dedicated-rate codecs, shards of several KiB
    let n_eng = if ctx.thorough() { 12 } else { 3 };
    for _ in 0..n_eng {
        let sd = ctx.rng.next_u64();
        ctx.evaluations += 1;
        ctx.distinct.insert(sd);
        let case = Case { name: format!("engines seed={} threads=16", sd), lines: vec![format!("rsharness c16-engines {} 16", sd)], with_model: false };
        match run_child(&["c16-engines".into(), sd.to_string(), "16".into()], Duration::from_secs(120)) {
            Ok(s) if s.starts_with("OK") => { ctx.count("engines", "processes_ok"); }
            Ok(s) => ctx.oracle_fail(format!("independent engines / codecs used concurrently differ from sequential use: {}", s), &case, None),
            Err(e) => ctx.oracle_fail(format!("concurrent engines run failed: {}", e.chars().take(300).collect::<String>()), &case, None),
        }
    }
    // nested / pipelined independent uses (a lock held across the caller's iterator or `as_ref` deadlocks here)
    let n_pipe = if ctx.thorough() { 12 } else { 3 };
    for _ in 0..n_pipe {
        let sd = ctx.rng.next_u64();
        ctx.evaluations += 1;
        ctx.distinct.insert(sd);
        let case = Case { name: format!("pipe seed={}", sd), lines: vec![format!("rsharness c16-pipe {}", sd)], with_model: false };
        match run_child(&["c16-pipe".into(), sd.to_string()], Duration::from_secs(20)) {
            Ok(s) if s.starts_with("OK") => { ctx.count("pipe", "processes_ok"); }
            Ok(s) => ctx.oracle_fail(format!("nested / pipelined independent uses misbehave: {}", s), &case, None),
            Err(e) => ctx.oracle_fail(format!("nested / pipelined independent uses: {}", e.chars().take(300).collect::<String>()), &case, None),
        }
    }
    // keep the distribution small
    if let Some(m) = ctx.hist.get_mut("jobs") { let total: usize = m.values().sum(); m.clear(); m.insert("processes_ok".into(), total); }
    ctx.notes.push("schedule sampling is supporting evidence only; the real scheduler and memory model are not enumerated".into());
}
