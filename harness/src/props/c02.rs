//! C02: recovery shards are one fixed scaled-Cauchy Reed-Solomon code over GF(2^16).
//!
//! Direct oracle: recovery bytes of the implementation (every engine, dedicated rates and the
//! default rule) == closed-form generator matrix applied by `rsmodel` (`C cauchy`: own field
//! arithmetic from the field polynomial and the Cantor basis, direct products, no FFT, no tables);
//! == ancestor release reed-solomon-16 0.1.0 for shard sizes that are multiples of 64;
//! published constants == pinned literals.  Correspondence: algorithmic model == implementation.

use crate::ctx::{Case, Ctx};
use crate::gen::*;
use crate::json::J;
use crate::objs::{show_shards, to_hex, ENGINES};

const PINNED_POLY: usize = 0x1002D;
const PINNED_BASIS: [u16; 16] = [
    0x0001, 0xACCA, 0x3C0E, 0x163E, 0xC582, 0xED2E, 0x914C, 0x4012, 0x6C98, 0x10D8, 0x6A72, 0xB900,
    0xFDB8, 0xFB34, 0xFF38, 0x991E,
];

/// Validation of the third translator: the codec bodies as translated from today's source
/// (`Gen/SrcCodec.lean`: operation programs) are interpreted by `srccodec` with the model's primitives on one
/// symbol lane and must produce the implementation's recovery symbols (encoders) and the original symbols
/// (decoders) for random configurations, data and loss patterns.
pub fn src_codec_tie(ctx: &mut Ctx) {
    let exe = std::path::Path::new(&ctx.model_path).with_file_name("srccodec");
    if !exe.exists() {
        ctx.unavailable.push("srccodec not built: the translated codec bodies were not run against the implementation".into());
        return;
    }
    let sym = |b: &[u8]| (b[0] as usize) | ((b[1] as usize) << 8);
    let n = if ctx.thorough() { 1200 } else { 160 };
    let mut q: Vec<String> = vec![];
    let mut want: Vec<(String, Vec<(usize, usize)>)> = vec![]; // (description, (index in answer, expected symbol))
    for i in 0..n {
        let kind = if i % 2 == 0 { "high" } else { "low" };
        let (_, k, r) = gen_counts(&mut ctx.rng, 64, &[kind]);
        let engine = *ctx.rng.pick(&["naive", "nosimd"]);
        let sched = if engine == "naive" { "naive" } else { "two" };
        let cfg = Cfg { kind: kind.into(), engine: engine.into(), k, r, sb: 2 };
        let originals: Vec<Vec<u8>> = (0..k).map(|_| ctx.rng.bytes(2)).collect();
        let Some(rec) = encode_impl(&cfg, &originals) else { continue };
        let high = kind == "high";
        let (kp, rp) = (npow2(k), npow2(r));
        // encoder
        let wc = if high { k.next_multiple_of(rp) } else { r.next_multiple_of(kp) };
        let mut mem = vec![0usize; wc];
        for (j, o) in originals.iter().enumerate() { mem[j] = sym(o); }
        q.push(format!("K enc {} {} {} {} {}", kind, sched, k, r, mem.iter().map(|x| x.to_string()).collect::<Vec<_>>().join(",")));
        want.push((format!("encode {} {}:{} ({})", kind, k, r, engine), rec.iter().enumerate().map(|(j, x)| (j, sym(x))).collect()));
        // decoder
        let (go, gr, _) = gen_received(&mut ctx.rng, k, r);
        if go.len() == k { continue; }
        let (ob, rb, dwc) = if high { (rp, 0, npow2(rp + k)) } else { (0, kp, npow2(kp + r)) };
        let mut dm = vec![0usize; dwc];
        let mut bits = vec!['0'; dwc];
        for j in &go { dm[ob + j] = sym(&originals[*j]); bits[ob + j] = '1'; }
        for j in &gr { dm[rb + j] = sym(&rec[*j]); bits[rb + j] = '1'; }
        // stale garbage where nothing was received
        for (p, b) in bits.iter().enumerate() { if *b == '0' { dm[p] = ctx.rng.below(65536); } }
        q.push(format!("K dec {} {} {} {} {} {}", kind, sched, k, r, bits.iter().collect::<String>(), dm.iter().map(|x| x.to_string()).collect::<Vec<_>>().join(",")));
        want.push((format!("decode {} {}:{} ({}) given originals {:?} recovery {:?}", kind, k, r, engine, go, gr),
                   (0..k).filter(|j| !go.contains(j)).map(|j| (ob + j, sym(&originals[j]))).collect()));
        ctx.count("src_codec_tie", kind);
    }
    let path = exe.to_string_lossy().to_string();
    let chunks: Vec<Vec<String>> = q.chunks((q.len() + 13) / 14).map(|c| c.to_vec()).collect();
    let handles: Vec<_> = chunks.into_iter().map(|c| { let p = path.clone(); std::thread::spawn(move || crate::ctx::model_eval_at(&p, &c)) }).collect();
    let mut ans = vec![];
    for h in handles {
        match h.join().unwrap() {
            Ok(a) => ans.extend(a),
            Err(e) => { ctx.model_fail(format!("srccodec could not be run: {}", e), &Case::new("src-codec-tie"), None); return; }
        }
    }
    let mut bad = 0;
    for ((l, a), (desc, exp)) in q.iter().zip(ans.iter()).zip(want.iter()) {
        let got: Vec<usize> = a.trim_start_matches("ok ").split(',').filter_map(|x| x.parse().ok()).collect();
        let ok = a.starts_with("ok ") && exp.iter().all(|(idx, v)| got.get(*idx) == Some(v));
        if !ok {
            bad += 1;
            if bad <= 5 {
                let c = Case { name: "src-codec-tie".into(), lines: vec![l.clone()], with_model: false };
                ctx.model_fail(format!("translated codec body disagrees with the implementation: {} -> `{}`", desc, crate::ctx::short(a)), &c, None);
            }
        }
    }
    ctx.bump("translated_codec_bodies_vs_implementation", q.len());
    ctx.model_lines += q.len();
}

pub fn run(ctx: &mut Ctx) {
    src_codec_tie(ctx);
    // (iv) published constants
    let dummy = Case::new("constants");
    if reed_solomon_simd::engine::GF_POLYNOMIAL != PINNED_POLY
        || reed_solomon_simd::engine::CANTOR_BASIS != PINNED_BASIS
        || reed_solomon_simd::engine::GF_ORDER != 65536
    {
        ctx.oracle_fail("GF_POLYNOMIAL / CANTOR_BASIS / GF_ORDER differ from the published constants".into(), &dummy, None);
    }
    match ctx.model_eval(&["T consts".to_string()]) {
        Ok(a) => {
            let want = format!("{} {}", PINNED_POLY, PINNED_BASIS.iter().map(|x| x.to_string()).collect::<Vec<_>>().join(","));
            if a[0] != want {
                ctx.model_fail(format!("model constants `{}` differ from the pinned literals", a[0]), &dummy, None);
            }
        }
        Err(e) => ctx.model_fail(e, &dummy, None),
    }

    let n = if ctx.thorough() { 2500 } else { 260 };
    let mut cases = vec![];
    let mut queries = vec![];
    let mut metas = vec![];
    // configurations whose last chunk ends at the top of the field (positions 65534 / 65535 in use):
    // the only ones that read the last entries of the twiddle table
    let n_limit = if ctx.thorough() { 8 } else { 2 };
    for i in 0..n + n_limit {
        let limit = i >= n;
        let big = i % 20 == 19 || limit;
        // every 7th case: few shards of 5 .. 18 blocks each (block loops of the kernels with every remainder)
        let multi = !limit && !big && i % 7 == 5;
        let max_work = if big { 1024 } else if multi { *ctx.rng.pick(&[8usize, 16]) } else { *ctx.rng.pick(&[8usize, 16, 32, 64, 128]) };
        let sizes: &[usize] = if multi { &MULTI_BLOCK_SIZES } else if max_work > 64 { &[2, 4, 64] } else { &SMALL_SIZES };
        let cfg = if limit {
            let small = *ctx.rng.pick(&[1usize, 2, 3, 4, 5, 7, 8]);
            let large = 65536 - npow2(small) - ctx.rng.below(2);
            let high = (i - n) % 2 == 0;
            ctx.count("limit", if high { "high" } else { "low" });
            ctx.count("limit_cfg", &format!("{}:{}", if high { large } else { small }, if high { small } else { large }));
            Cfg {
                kind: (*ctx.rng.pick(&[if high { "high" } else { "low" }, "default"])).to_string(),
                engine: (*ctx.rng.pick(&ENGINES)).to_string(),
                k: if high { large } else { small },
                r: if high { small } else { large },
                sb: 2,
            }
        } else {
            gen_cfg(&mut ctx.rng, max_work, &["high", "low", "default", "rs"], &ENGINES, sizes)
        };
        let originals = if limit {
            (0..cfg.k).map(|_| ctx.rng.bytes(cfg.sb)).collect()
        } else if i % 4 == 0 {
            // unit vectors at one slot: decides the whole linear map of this configuration
            let u = ctx.rng.below(cfg.k);
            (0..cfg.k).map(|j| { let mut v = vec![0u8; cfg.sb]; if j == u { v[0] = 1; } v }).collect()
        } else {
            gen_originals(&mut ctx.rng, cfg.k, cfg.sb)
        };
        let high = match cfg.kind.as_str() { "high" => true, "low" => false, _ => rule_is_high(cfg.k, cfg.r) };
        let mut c = Case::new(&format!("encode-{}", i));
        c.with_model = !big && !multi;
        // "pure function of (k, r, rate, data)": half of the encoders have a history — a round at
        // another configuration, then reset — with the poison hook scrambling the working memory
        if i % 2 == 1 && cfg.kind != "rs" {
            let pre = gen_cfg(&mut ctx.rng, 64, &[cfg.kind.as_str()], &[cfg.engine.as_str()], &[64, 130, 2]);
            c.push(pre.new_line("E"));
            for _ in 0..pre.k { c.push(format!("E add {}", to_hex(&ctx.rng.bytes(pre.sb)))); }
            c.push("E encode".into());
            c.push(format!("E reset {} {} {}", cfg.k, cfg.r, cfg.sb));
            ctx.count("history", "reused");
        } else {
            c.push(cfg.new_line("E"));
            ctx.count("history", "fresh");
        }
        for o in &originals {
            c.push(format!("E add {}", to_hex(o)));
        }
        c.push("E encode".into());
        queries.push(format!("C cauchy {} {} {} {} {}", if high { "high" } else { "low" }, cfg.k, cfg.r, cfg.sb, show_shards(&originals)));
        ctx.count("rate", if high { "high" } else { "low" });
        ctx.count("kind", &cfg.kind);
        ctx.count("engine", &cfg.engine);
        ctx.count("shard_bytes", &cfg.sb.to_string());
        ctx.count("chunks", &format!("{}", if high { (cfg.k + npow2(cfg.r) - 1) / npow2(cfg.r) } else { (cfg.r + npow2(cfg.k) - 1) / npow2(cfg.k) }.min(9)));
        if i < 3 {
            let mut j = J::obj();
            j.set("cfg", J::s(&cfg.tag()));
            j.set("closed_form_query", J::s(&crate::ctx::short(queries.last().unwrap())));
            ctx.sample(j);
        }
        cases.push(c);
        metas.push((cfg, originals));
    }
    reed_solomon_simd::verif_hooks::POISON_SEED.store(ctx.seed | 0x0200_0000_0000_0001, std::sync::atomic::Ordering::Relaxed);
    let runs = ctx.run_cases(&cases);
    reed_solomon_simd::verif_hooks::POISON_SEED.store(0, std::sync::atomic::Ordering::Relaxed);
    // closed form, spread over processes
    // round-robin over 14 processes, heaviest (last = limit configurations) first in their process
    const NP: usize = 14;
    let nq = queries.len();
    let chunks: Vec<Vec<String>> = (0..NP).map(|p| (0..nq).rev().filter(|i| i % NP == p).map(|i| queries[i].clone()).collect()).collect();
    let mp = ctx.model_path.clone();
    let handles: Vec<_> = chunks.into_iter().map(|q| { let mp = mp.clone(); std::thread::spawn(move || crate::ctx::model_eval_at(&mp, &q)) }).collect();
    let mut closed = vec![String::new(); nq];
    for (p, h) in handles.into_iter().enumerate() {
        match h.join().unwrap() {
            Ok(a) => {
                for (slot, ans) in (0..nq).rev().filter(|i| i % NP == p).zip(a.into_iter()) {
                    closed[slot] = ans;
                }
            }
            Err(e) => {
                ctx.model_fail(format!("closed-form oracle could not be evaluated: {}", e), &dummy, None);
                return;
            }
        }
    }
    let mut anc = 0usize;
    for (((case, run), want), (cfg, originals)) in cases.iter().zip(runs.iter()).zip(closed.iter()).zip(metas.iter()) {
        let got = run.answers.last().unwrap().line();
        if &got != want {
            ctx.oracle_fail(
                format!("recovery bytes differ from the closed-form scaled-Cauchy code for {}: got `{}`, closed form `{}`", cfg.tag(), crate::ctx::short(&got), crate::ctx::short(want)),
                case,
                None,
            );
        }
        // (iii) ancestor crate, multiples of 64 only, default rule
        if cfg.sb % 64 == 0 && (cfg.kind == "default" || cfg.kind == "rs") {
            if let Ok(a) = reed_solomon_16::encode(cfg.k, cfg.r, originals) {
                anc += 1;
                let line = format!("ok {}", show_shards(&a));
                if line != got {
                    ctx.oracle_fail(format!("recovery bytes differ from reed-solomon-16 0.1.0 for {}", cfg.tag()), case, None);
                }
            }
        }
    }
    ctx.bump("closed_form_comparisons", closed.len());
    ctx.bump("ancestor_comparisons", anc);
    large_working_space(ctx);
}

/// working spaces of 8 MiB and more (a thousand work positions of several KiB each, both rates, several chunks and a
/// partial last chunk): every byte against the ancestor crate `reed-solomon-16`, and the first symbol slot of every
/// recovery shard against the closed form evaluated by `rsmodel` on that slot alone
fn large_working_space(ctx: &mut Ctx) {
    let pool: [(usize, usize); 5] = [(64, 1000), (1000, 64), (300, 900), (900, 300), (40, 2000)];
    let n = if ctx.thorough() { pool.len() } else { 2 };
    let mut picks = pool.to_vec();
    ctx.rng.shuffle(&mut picks);
    let mut queries = vec![];
    let mut metas = vec![];
    for (k, r) in picks.into_iter().take(n) {
        let sb = 8192 + 64 * ctx.rng.range(0, 32);
        let engine = *ctx.rng.pick(&["nosimd", "ssse3", "avx2", "default"]);
        let cfg = Cfg { kind: "default".into(), engine: engine.into(), k, r, sb };
        let originals: Vec<Vec<u8>> = (0..k).map(|_| ctx.rng.bytes(sb)).collect();
        let case = Case { name: format!("large-working-space {}", cfg.tag()), lines: vec![format!("encode {} with random originals (seeded)", cfg.tag())], with_model: false };
        ctx.evaluations += 1;
        ctx.count("large_working_space", &format!("{}:{}", k, r));
        let Some(rec) = encode_impl(&cfg, &originals) else {
            ctx.oracle_fail(format!("encode failed for supported {}", cfg.tag()), &case, None);
            continue;
        };
        match reed_solomon_16::encode(k, r, &originals) {
            Ok(a) => {
                if let Some(j) = (0..r).find(|j| a[*j] != rec[*j]) {
                    ctx.oracle_fail(format!("recovery shard {} of {} differs from reed-solomon-16 0.1.0", j, cfg.tag()), &case, None);
                    continue;
                }
            }
            Err(e) => ctx.notes.push(format!("reed-solomon-16 rejected {}: {:?}", cfg.tag(), e)),
        }
        // slot 0 = bytes 0 and 32 of each shard
        let col: Vec<Vec<u8>> = originals.iter().map(|o| vec![o[0], o[32]]).collect();
        let high = rule_is_high(k, r);
        queries.push(format!("C cauchy {} {} {} 2 {}", if high { "high" } else { "low" }, k, r, show_shards(&col)));
        metas.push((cfg, case, rec));
    }
    if queries.is_empty() { return; }
    match ctx.model_eval(&queries) {
        Ok(ans) => {
            for (a, (cfg, case, rec)) in ans.iter().zip(metas.iter()) {
                let got = format!("ok {}", show_shards(&rec.iter().map(|x| vec![x[0], x[32]]).collect::<Vec<_>>()));
                if *a != got {
                    ctx.oracle_fail(format!("slot 0 of the recovery shards of {} differs from the closed-form scaled-Cauchy code", cfg.tag()), case, None);
                }
            }
        }
        Err(e) => ctx.model_fail(format!("closed-form oracle could not be evaluated: {}", e), &Case::new("large-working-space"), None),
    }
}
