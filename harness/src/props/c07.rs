//! C07: a failed call changes nothing and leaves the object usable.
//!
//! Direct oracle: a history with injected failing calls vs the same history without them, both on
//! the implementation: every other call must give the same answer (and nothing may panic).

use crate::ctx::{run_impl, Ctx};
use crate::props::c06::history_case;
use crate::seqgen::*;

pub fn run(ctx: &mut Ctx) {
    let n = if ctx.thorough() { 5000 } else { 450 };
    let mut cases = vec![];
    let mut hists = vec![];
    for i in 0..n {
        let o = HistOpts { p_fail: 450, rounds: 2 + ctx.rng.below(3), max_work: *ctx.rng.pick(&[16, 32, 64]), extreme_args: true, ..Default::default() };
        let h = if i % 2 == 0 { enc_history(&mut ctx.rng, &o) } else { dec_history(&mut ctx.rng, &o) };
        let flat = flatten(&h);
        cases.push(history_case(&format!("with-failures-{}", i), &flat));
        hists.push(flat);
    }
    let runs = ctx.run_cases(&cases);
    let mut injected = 0usize;
    for ((flat, case), run) in hists.iter().zip(cases.iter()).zip(runs.iter()) {
        // a failed constructor (`new`/`renew`) legitimately destroys the object; such histories are
        // compared only up to there: skip histories where a failing line is a constructor
        let clean: Vec<HLine> = flat.iter().filter(|l| !l.expect_fail).cloned().collect();
        let clean_case = history_case("without-failures", &clean);
        let clean_run = run_impl(&clean_case);
        ctx.evaluations += 1;
        let mut j = 0;
        for (n, l) in flat.iter().enumerate() {
            let a = run.answers[n].line();
            if l.expect_fail {
                injected += 1;
                if !a.starts_with("err ") {
                    // reported by the shadow oracle already when it is Ok; a panic is reported there too
                    continue;
                }
            } else {
                let b = clean_run.answers[j].line();
                if a != b {
                    ctx.oracle_fail(
                        format!(
                            "call `{}` answers `{}` after failed calls but `{}` when the failed calls are left out",
                            crate::ctx::short(&l.line),
                            crate::ctx::short(&a),
                            crate::ctx::short(&b)
                        ),
                        case,
                        Some(n),
                    );
                    break;
                }
                j += 1;
            }
        }
    }
    ctx.bump("injected_failing_calls", injected);
}
