//! Children that run with a restricted CPU affinity mask (so that `std::thread::available_parallelism()` — and anything
//! the crate derives from it while building its tables — reports 1, 3, 5, … CPUs instead of this machine's 16).
//!
//! `rsharness env-child <n>`: restrict this process to the first `n` CPUs of its current mask BEFORE any table of the
//! crate is touched, then (a) `Engine::mul` of every engine against Naive for EVERY `log_m` (0..=65535) on one block,
//! (b) round trips of a few configurations on every engine, recovery shards compared with Naive's.
//! Prints `OK env <n> cpus=<seen>` or `FAIL …` (exit 1).

use crate::objs::{parse_indexed, to_hex, Ans, Session, ENGINES};
use crate::prim::{engine, Prims};
use crate::prng::Prng;

extern "C" {
    fn sched_getaffinity(pid: i32, cpusetsize: usize, mask: *mut u64) -> i32;
    fn sched_setaffinity(pid: i32, cpusetsize: usize, mask: *const u64) -> i32;
}

const WORDS: usize = 16; // 1024 CPUs

/// the CPUs this process may run on (None if the call is not available)
pub fn allowed_cpus() -> Option<Vec<usize>> {
    let mut mask = [0u64; WORDS];
    let rc = unsafe { sched_getaffinity(0, WORDS * 8, mask.as_mut_ptr()) };
    if rc != 0 { return None; }
    Some((0..WORDS * 64).filter(|c| mask[c / 64] >> (c % 64) & 1 == 1).collect())
}

fn restrict(n: usize) -> Result<usize, String> {
    let cpus = allowed_cpus().ok_or("sched_getaffinity failed")?;
    if cpus.len() < n { return Err(format!("only {} CPUs allowed", cpus.len())); }
    let mut mask = [0u64; WORDS];
    for c in cpus.iter().take(n) { mask[c / 64] |= 1 << (c % 64); }
    let rc = unsafe { sched_setaffinity(0, WORDS * 8, mask.as_ptr()) };
    if rc != 0 { return Err("sched_setaffinity failed".into()); }
    Ok(std::thread::available_parallelism().map_or(0, usize::from))
}

pub fn child(n: usize) {
    // n = 0: no restriction (used for the build variants: the same checks in a binary compiled with other RUSTFLAGS)
    let seen = if n == 0 { std::thread::available_parallelism().map_or(0, usize::from) } else {
        match restrict(n) {
            Ok(s) => s,
            Err(e) => { println!("SKIP {}", e); return; }
        }
    };
    let engines: Vec<&str> = ENGINES.iter().cloned().filter(|e| *e != "neon" || crate::neon_port::AVAILABLE).collect();
    let prims: Vec<(String, Box<dyn Prims>)> = engines.iter().map(|e| (e.to_string(), engine(e))).collect();
    let mut rng = Prng::new(n as u64 * 7919 + 1);
    let mut block = [0u8; 64];
    block.copy_from_slice(&rng.bytes(64));
    for log_m in 0..=65535u16 {
        let outs: Vec<Vec<[u8; 64]>> = prims.iter().map(|(_, p)| { let mut y = vec![block, block]; p.mul(&mut y, log_m); y }).collect();
        for k in 1..outs.len() {
            if outs[k] != outs[0] {
                println!("FAIL with {} usable CPUs: engines {} and {} differ in mul with log_m={}", seen, prims[0].0, prims[k].0, log_m);
                std::process::exit(1);
            }
        }
    }
    // end to end on every engine
    for (k, r, sb) in [(1usize, 1usize, 64usize), (3, 2, 64), (5, 1, 64), (4, 1, 130), (5, 7, 130), (40, 20, 64), (200, 300, 66), (3000, 60, 64)] {
        let originals: Vec<Vec<u8>> = (0..k).map(|_| rng.bytes(sb)).collect();
        let mut reference: Option<Vec<Vec<u8>>> = None;
        for e in engines.iter() {
            let cfg = crate::gen::Cfg { kind: "default".into(), engine: e.to_string(), k, r, sb };
            let Some(rec) = crate::gen::encode_impl(&cfg, &originals) else {
                println!("FAIL with {} usable CPUs: encode {}:{} on {} failed", seen, k, r, e);
                std::process::exit(1);
            };
            if r == 1 {
                // closed form of the code for one recovery shard: the XOR of the originals
                let mut parity = vec![0u8; sb];
                for o in &originals { for (p, b) in parity.iter_mut().zip(o.iter()) { *p ^= b; } }
                if rec[0] != parity {
                    println!("FAIL with {} usable CPUs: the single recovery shard of {}:1 ({} bytes) on {} is not the XOR of the originals", seen, k, sb, e);
                    std::process::exit(1);
                }
            }
            match &reference {
                None => reference = Some(rec.clone()),
                Some(x) => if *x != rec {
                    println!("FAIL with {} usable CPUs: recovery shards of {}:{} ({} bytes) differ between {} and {}", seen, k, r, sb, engines[0], e);
                    std::process::exit(1);
                },
            }
            let miss = k.min(r);
            let go: Vec<usize> = (miss..k).collect();
            let gr: Vec<usize> = (0..miss).collect();
            let mut d = Session::new();
            let mut ok = matches!(d.exec(&cfg.new_line("D")).0, Ans::Ok(_));
            for i in go.iter() { ok &= matches!(d.exec(&format!("D addo {} {}", i, to_hex(&originals[*i]))).0, Ans::Ok(_)); }
            for j in gr.iter() { ok &= matches!(d.exec(&format!("D addr {} {}", j, to_hex(&rec[*j]))).0, Ans::Ok(_)); }
            let restored = match d.exec("D decode").0 { Ans::Ok(p) => parse_indexed(&p), _ => None };
            match restored {
                Some(restored) if ok && restored.iter().all(|(i, s)| *s == originals[*i]) && restored.len() == miss => {}
                _ => {
                    println!("FAIL with {} usable CPUs: decode {}:{} ({} bytes) on {} does not restore the originals", seen, k, r, sb, e);
                    std::process::exit(1);
                }
            }
        }
    }
    println!("OK env {} cpus={}", n, seen);
}

/// parent side: the CPU counts to try (non-powers of two and 1), bounded by what this process may use
pub fn counts(thorough: bool) -> Vec<usize> {
    let have = allowed_cpus().map_or(0, |c| c.len());
    let want: &[usize] = if thorough { &[1, 3, 5, 6, 7, 9, 11, 12, 13, 15] } else { &[1, 3, 7] };
    want.iter().cloned().filter(|n| *n <= have).collect()
}
