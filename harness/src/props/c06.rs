//! C06: invalid use yields a truthful documented Error; valid use never fails; no panics.
//!
//! Direct oracle: the harness's own bookkeeping (`Shadow`, `envelope`) says which preconditions a
//! call violates; the implementation must return Ok iff none, an Err describing one of them
//! otherwise, and must never unwind.  Run in the release profile and in a profile with overflow
//! checks and debug assertions.  Correspondence: same sequences on the Lean state machine.

use crate::ctx::{Case, Ctx};
use crate::objs::{to_hex, KINDS};
use crate::seqgen::*;

pub fn history_case(name: &str, lines: &[HLine]) -> Case {
    let mut c = Case::new(name);
    for l in lines {
        c.push(l.line.clone());
    }
    c
}

pub fn run(ctx: &mut Ctx) {
    let n = if ctx.thorough() { 6000 } else { 500 };
    let mut cases = vec![];
    for i in 0..n {
        let o = HistOpts { p_fail: 400, rounds: 1 + ctx.rng.below(3), max_work: *ctx.rng.pick(&[16, 32, 64]), ..Default::default() };
        let h = if i % 2 == 0 { enc_history(&mut ctx.rng, &o) } else { dec_history(&mut ctx.rng, &o) };
        cases.push(history_case(&format!("hist-{}", i), &flatten(&h)));
    }
    // stateless: supports / validate / constructors at extremes
    let mut st = Case::new("stateless-extremes");
    let pool: Vec<usize> = vec![0, 1, 2, 3, 255, 256, 257, 32767, 32768, 32769, 61440, 61441, 65535, 65536, 65537]
        .into_iter()
        .chain(EXTREME.iter().cloned())
        .collect();
    let m = if ctx.thorough() { 6000 } else { 900 };
    for _ in 0..m {
        let kind = *ctx.rng.pick(&KINDS);
        let k = *ctx.rng.pick(&pool);
        let r = *ctx.rng.pick(&pool);
        let sb = *ctx.rng.pick(&[0usize, 1, 2, 3, 63, 64, 65, 1 << 20, usize::MAX - 1, usize::MAX]);
        st.push(format!("S supports {} {} {}", kind, k, r));
        st.push(format!("S validate {} {} {} {}", kind, k, r, sb));
        // constructors only with allocatable sizes
        let sb_small = *ctx.rng.pick(&[0usize, 1, 2, 3, 63, 64, 65]);
        if ctx.rng.chance(1, 3) {
            let engine = *ctx.rng.pick(&["nosimd", "naive", "default"]);
            let small_k = if k > 65537 || ctx.rng.chance(1, 2) { k } else { k.min(300) };
            let small_r = if r > 65537 || ctx.rng.chance(1, 2) { r } else { r.min(300) };
            // keep supported configurations small so that construction is cheap
            let (kk, rr) = if crate::objs::envelope(kind, small_k, small_r) && small_k * small_r > 1 << 16 { (3, 2) } else { (small_k, small_r) };
            st.push(format!("E new {} {} {} {} {}", kind, engine, kk, rr, sb_small));
            st.push(format!("D new {} {} {} {} {}", kind, engine, kk, rr, sb_small));
        }
    }
    cases.push(st);
    // one-shot functions with invalid inputs
    let mut x = Case::new("oneshot-invalid");
    let mx = if ctx.thorough() { 4000 } else { 500 };
    for _ in 0..mx {
        let (k, r) = (ctx.rng.range(0, 5), ctx.rng.range(0, 5));
        let sb = *ctx.rng.pick(&[0usize, 1, 2, 4, 6, 7]);
        let n_o = ctx.rng.below(k + 3);
        let shards: Vec<String> = (0..n_o)
            .map(|_| {
                let l = if ctx.rng.chance(1, 5) { *ctx.rng.pick(&[0usize, 1, 2, 4, 6]) } else { sb };
                to_hex(&ctx.rng.bytes(l))
            })
            .collect();
        x.push(format!("X encode {} {} {}", k, r, if shards.is_empty() { "-".into() } else { shards.join(",") }));
        let mk = |rng: &mut crate::prng::Prng, n: usize, bound: usize| -> String {
            if n == 0 {
                return "-".into();
            }
            (0..n)
                .map(|_| {
                    let idx = if rng.chance(1, 6) { *rng.pick(&EXTREME) } else { rng.below(bound + 2) };
                    let l = if rng.chance(1, 6) { *rng.pick(&[0usize, 1, 2, 4, 6]) } else { sb };
                    format!("{}:{}", idx, to_hex(&rng.bytes(l)))
                })
                .collect::<Vec<_>>()
                .join(",")
        };
        let no = ctx.rng.below(k + 2);
        let nr = ctx.rng.below(r + 2);
        let o = mk(&mut ctx.rng, no, k);
        let rc = mk(&mut ctx.rng, nr, r);
        x.push(format!("X decode {} {} {} {}", k, r, o, rc));
    }
    cases.push(x);
    ctx.run_cases(&cases);
    ctx.notes.push(format!("profile: {}", if cfg!(debug_assertions) { "dev (overflow checks, debug assertions)" } else { "release" }));
}
