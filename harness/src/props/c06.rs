//! C06: invalid use yields a truthful documented Error; valid use never fails; no panics.
//!
//! Direct oracle: the harness's own bookkeeping (`Shadow`, `envelope`) says which preconditions a
//! call violates; the implementation must return Ok iff none, an Err describing one of them
//! otherwise, and must never unwind.  Run in the release profile and in a profile with overflow
//! checks and debug assertions.  Correspondence: same sequences on the Lean state machine.

use crate::ctx::{Case, Ctx};
use crate::objs::{to_hex, KINDS};
use crate::seqgen::*;

pub fn history_case(name: &str, lines: &[HLine]) -> Case {
    let mut c = Case::new(name);
    for l in lines {
        c.push(l.line.clone());
    }
    c
}

/// Validation of the second translator: the bookkeeping methods of `EncoderWork` / `DecoderWork` as
/// translated from today's source (`srcwork`) are run on the same call histories as the implementation
/// (all flavours; the rate and the layout come from the harness's own rule) and must give the same
/// verdict and the same error value at every add / encode / decode call.
pub fn src_work_tie(ctx: &mut Ctx) {
    let exe = std::path::Path::new(&ctx.model_path).with_file_name("srcwork");
    if !exe.exists() {
        ctx.unavailable.push("srcwork not built: the translated work-object methods were not run against the implementation".into());
        return;
    }
    let n = if ctx.thorough() { 3000 } else { 300 };
    let mut all_lines: Vec<String> = vec![];
    let mut expect: Vec<Option<(String, String)>> = vec![]; // (implementation line, implementation answer) for compared lines
    for i in 0..n {
        let o = HistOpts { p_fail: 350, rounds: 1 + ctx.rng.below(3), max_work: *ctx.rng.pick(&[16usize, 32, 64]), sizes: vec![2, 4, 6, 64, 66], engines: vec!["nosimd"], ..Default::default() };
        let enc = i % 2 == 0;
        let h = if enc { enc_history(&mut ctx.rng, &o) } else { dec_history(&mut ctx.rng, &o) };
        let mut s = crate::objs::Session::new();
        all_lines.push("Z".into());
        expect.push(None);
        let mut kind = String::new();
        for hl in flatten(&h) {
            let l = hl.line.clone();
            let a = s.exec(&l).0.line();
            let t: Vec<&str> = l.split(' ').collect();
            let ok = a == "ok" || a.starts_with("ok ");
            let mut push = |w: String, cmp: bool| {
                all_lines.push(w);
                expect.push(if cmp { Some((l.clone(), a.clone())) } else { None });
            };
            match (t[0], t[1]) {
                (_, "new") | (_, "renew") | (_, "reset") => {
                    if !ok { continue; }
                    let (kd, k, r, sb): (String, usize, usize, usize) = if t[1] == "reset" {
                        (kind.clone(), t[2].parse().unwrap(), t[3].parse().unwrap(), t[4].parse().unwrap())
                    } else {
                        (t[2].to_string(), t[4].parse().unwrap(), t[5].parse().unwrap(), t[6].parse().unwrap())
                    };
                    kind = kd.clone();
                    let high = match kd.as_str() { "high" => true, "low" => false, _ => crate::gen::rule_is_high(k, r) };
                    let (kp, rp) = (crate::gen::npow2(k), crate::gen::npow2(r));
                    if t[0] == "E" {
                        let wc = if high { k.next_multiple_of(rp) } else { r.next_multiple_of(kp) };
                        push(format!("W enew {} {} {} {}", k, r, sb, wc), false);
                    } else {
                        let (ob, rb, wc) = if high { (rp, 0, crate::gen::npow2(rp + k)) } else { (0, kp, crate::gen::npow2(kp + r)) };
                        push(format!("W dnew {} {} {} {} {} {}", k, r, sb, ob, rb, wc), false);
                    }
                }
                ("E", "add") => push(format!("W eadd {}", if t[2] == "_" { 0 } else { t[2].len() / 2 }), true),
                ("E", "encode") => {
                    push("W ebegin".into(), true);
                    if ok { push("W eclear".into(), false); }
                }
                ("D", "addo") => push(format!("W daddo {} {}", t[2], if t[3] == "_" { 0 } else { t[3].len() / 2 }), true),
                ("D", "addr") => push(format!("W daddr {} {}", t[2], if t[3] == "_" { 0 } else { t[3].len() / 2 }), true),
                ("D", "decode") => {
                    push("W dbegin".into(), true);
                    if ok { push("W dclear".into(), false); }
                }
                _ => {}
            }
        }
    }
    let answers = {
        // histories are independent (each starts with Z): split at Z boundaries over processes
        let np = 14usize;
        let mut groups: Vec<Vec<String>> = vec![vec![]; np];
        let mut gi = 0usize;
        let mut which: Vec<usize> = vec![];
        for l in &all_lines {
            if l == "Z" { gi = (gi + 1) % np; }
            groups[gi].push(l.clone());
            which.push(gi);
        }
        let path = exe.to_string_lossy().to_string();
        let handles: Vec<_> = groups.into_iter().map(|g| { let p = path.clone(); std::thread::spawn(move || if g.is_empty() { Ok(vec![]) } else { crate::ctx::model_eval_at(&p, &g) }) }).collect();
        let mut outs: Vec<std::collections::VecDeque<String>> = vec![];
        for h in handles {
            match h.join().unwrap() {
                Ok(a) => outs.push(a.into()),
                Err(e) => { ctx.model_fail(format!("srcwork could not be run: {}", e), &Case::new("src-work-tie"), None); return; }
            }
        }
        which.iter().map(|g| outs[*g].pop_front().unwrap_or_default()).collect::<Vec<String>>()
    };
    let mut bad = 0;
    let mut compared = 0;
    for ((w, a), e) in all_lines.iter().zip(answers.iter()).zip(expect.iter()) {
        if let Some((il, ia)) = e {
            compared += 1;
            // verdict and error value; payloads (shards) are not part of the bookkeeping
            let same = if ia == "ok" || ia.starts_with("ok ") { a == "ok" || a.starts_with("ok ") } else { ia == a };
            if !same {
                bad += 1;
                if bad <= 5 {
                    let c = Case { name: "src-work-tie".into(), lines: vec![il.clone()], with_model: false };
                    ctx.model_fail(format!("translated source answers `{}` to `{}` but the implementation answers `{}` to `{}`", a, w, crate::ctx::short(ia), crate::ctx::short(il)), &c, None);
                }
            }
        }
    }
    ctx.bump("translated_work_methods_vs_implementation_calls", compared);
    ctx.model_lines += compared;
}

pub fn run(ctx: &mut Ctx) {
    src_work_tie(ctx);
    let n = if ctx.thorough() { 6000 } else { 500 };
    let mut cases = vec![];
    for i in 0..n {
        let o = HistOpts { p_fail: 400, rounds: 1 + ctx.rng.below(3), max_work: *ctx.rng.pick(&[16, 32, 64]), ..Default::default() };
        let h = if i % 2 == 0 { enc_history(&mut ctx.rng, &o) } else { dec_history(&mut ctx.rng, &o) };
        cases.push(history_case(&format!("hist-{}", i), &flatten(&h)));
    }
    // stateless: supports / validate / constructors at extremes
    let mut st = Case::new("stateless-extremes");
    let pool: Vec<usize> = vec![0, 1, 2, 3, 255, 256, 257, 32767, 32768, 32769, 61440, 61441, 65535, 65536, 65537]
        .into_iter()
        .chain(EXTREME.iter().cloned())
        .collect();
    let m = if ctx.thorough() { 6000 } else { 900 };
    for _ in 0..m {
        let kind = *ctx.rng.pick(&KINDS);
        let k = *ctx.rng.pick(&pool);
        let r = *ctx.rng.pick(&pool);
        let sb = *ctx.rng.pick(&[0usize, 1, 2, 3, 63, 64, 65, 1 << 20, usize::MAX - 1, usize::MAX]);
        st.push(format!("S supports {} {} {}", kind, k, r));
        st.push(format!("S validate {} {} {} {}", kind, k, r, sb));
        // constructors only with allocatable sizes
        let sb_small = *ctx.rng.pick(&[0usize, 1, 2, 3, 63, 64, 65]);
        if ctx.rng.chance(1, 3) {
            let engine = *ctx.rng.pick(&["nosimd", "naive", "default"]);
            let small_k = if k > 65537 || ctx.rng.chance(1, 2) { k } else { k.min(300) };
            let small_r = if r > 65537 || ctx.rng.chance(1, 2) { r } else { r.min(300) };
            // keep supported configurations small so that construction is cheap
            let (kk, rr) = if crate::objs::envelope(kind, small_k, small_r) && small_k * small_r > 1 << 16 { (3, 2) } else { (small_k, small_r) };
            st.push(format!("E new {} {} {} {} {}", kind, engine, kk, rr, sb_small));
            st.push(format!("D new {} {} {} {} {}", kind, engine, kk, rr, sb_small));
        }
    }
    cases.push(st);
    // one-shot functions with invalid inputs
    let mut x = Case::new("oneshot-invalid");
    let mx = if ctx.thorough() { 4000 } else { 500 };
    for _ in 0..mx {
        let (mut k, mut r) = (ctx.rng.range(0, 5), ctx.rng.range(0, 5));
        // one call in eight: a count far outside the envelope, up to usize::MAX (both of them half of those times)
        if ctx.rng.chance(1, 8) {
            let big: [usize; 6] = [usize::MAX, usize::MAX - 1, usize::MAX / 2 + 1, 1 << 60, 1 << 59, 65537];
            match ctx.rng.below(4) { 0 => k = *ctx.rng.pick(&big), 1 => r = *ctx.rng.pick(&big), _ => { k = *ctx.rng.pick(&big); r = *ctx.rng.pick(&big); } }
        }
        let sb = *ctx.rng.pick(&[0usize, 1, 2, 4, 6, 7]);
        let n_o = ctx.rng.below(k.min(5) + 3);
        let shards: Vec<String> = (0..n_o)
            .map(|_| {
                let l = if ctx.rng.chance(1, 5) { *ctx.rng.pick(&[0usize, 1, 2, 4, 6]) } else { sb };
                to_hex(&ctx.rng.bytes(l))
            })
            .collect();
        x.push(format!("X encode {} {} {}", k, r, if shards.is_empty() { "-".into() } else { shards.join(",") }));
        let mk = |rng: &mut crate::prng::Prng, n: usize, bound: usize| -> String {
            if n == 0 {
                return "-".into();
            }
            (0..n)
                .map(|_| {
                    let idx = if rng.chance(1, 6) { *rng.pick(&EXTREME) } else { rng.below(bound + 2) };
                    let l = if rng.chance(1, 6) { *rng.pick(&[0usize, 1, 2, 4, 6]) } else { sb };
                    format!("{}:{}", idx, to_hex(&rng.bytes(l)))
                })
                .collect::<Vec<_>>()
                .join(",")
        };
        let no = ctx.rng.below(k.min(5) + 2);
        let nr = ctx.rng.below(r.min(5) + 2);
        let o = mk(&mut ctx.rng, no, k.min(70000));
        let rc = mk(&mut ctx.rng, nr, r.min(70000));
        x.push(format!("X decode {} {} {} {}", k, r, o, rc));
    }
    cases.push(x);
    ctx.run_cases(&cases);
    ctx.notes.push(format!("profile: {}", if cfg!(debug_assertions) { "dev (overflow checks, debug assertions)" } else { "release" }));
}
