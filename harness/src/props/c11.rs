//! C11: decoding is independent of arrival order and of surplus shards.
//!
//! Direct oracle (implementation vs implementation): the restored map is identical across random
//! permutations / interleavings of the same add calls and across supersets of a sufficient set;
//! given originals are never reported; all originals given => empty result.

use crate::ctx::{Case, Ctx};
use crate::gen::*;
use crate::objs::{to_hex, ENGINES};

pub fn run(ctx: &mut Ctx) {
    let n = if ctx.thorough() { 2500 } else { 200 };
    let variants = if ctx.thorough() { 10 } else { 6 };
    let mut cases = vec![];
    let mut metas = vec![];
    for i in 0..n {
        let big = i % 12 == 11;
        // one group in five: mid-sized work spaces (128..512 positions) with an exact set whose top
        // recovery shard sits on a power-of-two position (transform-size / truncation arithmetic)
        let edge = i % 5 == 4;
        let max_work = if big { 4096 } else if edge { *ctx.rng.pick(&[128usize, 256, 512]) } else { *ctx.rng.pick(&[16usize, 32, 64, 128]) };
        let cfg = gen_cfg(&mut ctx.rng, max_work, &["high", "low", "default", "rs"], &ENGINES, if big || max_work > 64 { &[2, 4] } else { &SMALL_SIZES });
        let originals = gen_originals(&mut ctx.rng, cfg.k, cfg.sb);
        let Some(recovery) = encode_impl(&cfg, &originals) else { continue };
        // a sufficient base set that misses at least one original when possible
        let miss = ctx.rng.range(1, cfg.r.min(cfg.k));
        let missing = ctx.rng.subset(cfg.k, miss);
        let mut base_o: Vec<usize> = (0..cfg.k).filter(|i| !missing.contains(i)).collect();
        let mut base_r = ctx.rng.subset(cfg.r, miss);
        // every other group takes its base set from the shared loss-pattern generator (boundary-hugging
        // windows, lowest-numbered recovery shards, top shard on a power-of-two position, …)
        if i % 2 == 0 || edge {
            let (go, gr, pat) = if edge { gen_received_pat(&mut ctx.rng, cfg.k, cfg.r, 12) } else { gen_received(&mut ctx.rng, cfg.k, cfg.r) };
            if go.len() < cfg.k && !gr.is_empty() {
                base_o = go;
                base_r = gr;
                ctx.count("base_pattern", pat);
            }
        }
        for v in 0..variants {
            // supersets add recovery shards only (adding originals changes what must be restored)
            let extra = match v % 3 { 0 => 0, 1 => 1.min(cfg.r - base_r.len()), _ => cfg.r - base_r.len() };
            let mut rec = base_r.clone();
            let others: Vec<usize> = (0..cfg.r).filter(|j| !base_r.contains(j)).collect();
            let mut o2 = others.clone();
            ctx.rng.shuffle(&mut o2);
            rec.extend(o2.into_iter().take(extra));
            let mut order: Vec<(bool, usize)> = base_o.iter().map(|i| (true, *i)).chain(rec.iter().map(|j| (false, *j))).collect();
            if v > 0 {
                ctx.rng.shuffle(&mut order);
            }
            let mut c = Case::new(&format!("order-{}-{}", i, v));
            c.with_model = !big && v < 2;
            c.push(cfg.new_line("D"));
            for (is_o, idx) in &order {
                if *is_o { c.push(format!("D addo {} {}", idx, to_hex(&originals[*idx]))); } else { c.push(format!("D addr {} {}", idx, to_hex(&recovery[*idx]))); }
            }
            c.push("D decode".into());
            ctx.count("surplus", &format!("+{}", extra.min(3)));
            cases.push(c);
            metas.push((i, originals.clone(), base_o.clone()));
        }
        // all originals given + random recovery => empty
        let mut c = Case::new(&format!("all-given-{}", i));
        c.with_model = !big;
        c.push(cfg.new_line("D"));
        let nrec = ctx.rng.below(cfg.r + 1);
        let mut order: Vec<(bool, usize)> = (0..cfg.k).map(|i| (true, i)).chain(ctx.rng.subset(cfg.r, nrec).into_iter().map(|j| (false, j))).collect();
        ctx.rng.shuffle(&mut order);
        for (is_o, idx) in &order {
            if *is_o { c.push(format!("D addo {} {}", idx, to_hex(&originals[*idx]))); } else { c.push(format!("D addr {} {}", idx, to_hex(&recovery[*idx]))); }
        }
        c.push("D decode".into());
        cases.push(c);
        metas.push((usize::MAX, originals.clone(), (0..cfg.k).collect()));
    }
    let runs = ctx.run_cases(&cases);
    let mut first: std::collections::BTreeMap<usize, String> = Default::default();
    for ((case, run), (group, originals, given)) in cases.iter().zip(runs.iter()).zip(metas.iter()) {
        let a = run.answers.last().unwrap();
        crate::props::c01::check_restored(ctx, case, a, originals, given);
        if *group == usize::MAX {
            if a.line() != "ok -" {
                ctx.oracle_fail(format!("all originals were given but decode answered `{}`", crate::ctx::short(&a.line())), case, None);
            }
            continue;
        }
        let l = a.line();
        match first.get(group) {
            None => { first.insert(*group, l); }
            Some(f) => {
                if f != &l {
                    ctx.oracle_fail("restored originals differ between two orders / supersets of the same shard set".into(), case, None);
                }
            }
        }
    }
}
