//! C09: the default codec is the rate fixed by the selection rule; API layers agree.
//!
//! Direct oracle (implementation vs implementation): bytes of the default-rate encoder == bytes
//! of the dedicated encoder that the rule (written here independently) selects; the default decoder
//! decodes shards produced by that dedicated encoder; ReedSolomonEncoder/Decoder and the one-shot
//! functions == default-rate codec with any engine; all of it also after resets that cross rates.
//! Where both dedicated codecs give identical bytes the tie-break is unobservable and not judged.

use crate::ctx::{Case, Ctx};
use crate::gen::*;
use crate::objs::{show_shards, to_hex, ENGINES};

pub fn run(ctx: &mut Ctx) {
    let n = if ctx.thorough() { 4000 } else { 300 };
    let mut cases = vec![];
    let mut metas = vec![];
    // boundary of the rule: npow2 ties, +-1 around powers of two
    let mut pool: Vec<(usize, usize)> = vec![];
    for e in 0..7 {
        let p = 1usize << e;
        for dk in [p.saturating_sub(1).max(1), p, p + 1] {
            for dr in [p.saturating_sub(1).max(1), p, p + 1, 2 * p, 2 * p + 1] {
                pool.push((dk, dr));
                pool.push((dr, dk));
            }
        }
    }
    for i in 0..n {
        let (k, r) = if i < pool.len() { pool[i] } else {
            let mw = *ctx.rng.pick(&[16usize, 64, 256]);
            let (_, k, r) = gen_counts(&mut ctx.rng, mw, &["default"]);
            (k, r)
        };
        if !crate::objs::envelope("default", k, r) {
            continue;
        }
        let sb = *ctx.rng.pick(&[2usize, 4, 64, 66]);
        let engine = ctx.rng.pick(&ENGINES).to_string();
        let high = rule_is_high(k, r);
        let rate = if high { "high" } else { "low" };
        let originals = gen_originals(&mut ctx.rng, k, sb);
        let mut c = Case::new(&format!("rule-{}", i));
        c.with_model = dec_work("default", k, r) <= 128;
        // optional history: first a round at a configuration of the other rate, then reset across
        let crossing = ctx.rng.chance(1, 2);
        let (pk, pr) = if high { (2usize, 5usize) } else { (5usize, 2usize) };
        let pre = Cfg { kind: "default".into(), engine: engine.clone(), k: pk, r: pr, sb: 4 };
        // line indexes whose answers are compared
        let mut marks = vec![];
        if crossing {
            c.push(pre.new_line("E"));
            for _ in 0..pk { c.push(format!("E add {}", to_hex(&ctx.rng.bytes(4)))); }
            c.push("E encode".into());
            if ctx.rng.chance(1, 2) {
                // on the way: a configuration where both counts round up to the same power of two (both rates give
                // the same bytes there) - whatever the object remembers about its rate must still be right afterwards
                let (tk, tr) = *ctx.rng.pick(&[(4usize, 3usize), (3, 4), (3, 3), (7, 5), (5, 7), (6, 8), (2, 2)]);
                let ts = *ctx.rng.pick(&[2usize, 64]);
                c.push(format!("E reset {} {} {}", tk, tr, ts));
                if ctx.rng.chance(1, 2) {
                    for _ in 0..tk { c.push(format!("E add {}", to_hex(&ctx.rng.bytes(ts)))); }
                }
                ctx.count("history", "via-tie-configuration");
            }
            if ctx.rng.chance(1, 2) {
                // a rejected attempt first (odd / zero shard size), then the corrected retry
                c.push(format!("E reset {} {} {}", k, r, *ctx.rng.pick(&[0usize, 1, 3, 65])));
                ctx.count("history", "rejected-reset-then-retry");
            }
            c.push(format!("E reset {} {} {}", k, r, sb));
        } else {
            c.push(Cfg { kind: "default".into(), engine: engine.clone(), k, r, sb }.new_line("E"));
        }
        for o in &originals { c.push(format!("E add {}", to_hex(o))); }
        c.push("E encode".into());
        marks.push(c.lines.len() - 1);
        for kind in [rate, "rs"] {
            c.push(Cfg { kind: kind.into(), engine: engine.clone(), k, r, sb }.new_line("E"));
            for o in &originals { c.push(format!("E add {}", to_hex(o))); }
            c.push("E encode".into());
            marks.push(c.lines.len() - 1);
        }
        c.push(format!("X encode {} {} {}", k, r, show_shards(&originals)));
        marks.push(c.lines.len() - 1);
        ctx.count("rule", rate);
        ctx.count("npow2_relation", if npow2(k) == npow2(r) { "tie" } else if npow2(k) > npow2(r) { "k>r" } else { "k<r" });
        ctx.count("history", if crossing { "reset-across-rates" } else { "fresh" });
        cases.push(c);
        metas.push((k, r, sb, engine, high, originals, marks));
    }
    // large configurations reachable by only one of the two rates (one count above 32768), reached by RESET from a small
    // configuration of either rate: what `new` accepts `reset` accepts, on encoders and decoders alike (no data: the
    // answers of the calls are what is compared)
    let mut big_cases = vec![];
    for (bk, br) in [(100usize, 40000usize), (40000, 100), (1, 65535), (65535, 1), (3, 32769), (32769, 3), (20000, 17000)] {
        for (sk, sr) in [(3usize, 2usize), (2, 3)] {
            for obj in ["E", "D"] {
                for kind in ["default", "rs"] {
                    let mut c = Case::new(&format!("reset-into-{}:{}", bk, br));
                    c.with_model = false;
                    c.push(format!("{} new {} default {} {} 2", obj, kind, bk, br));
                    c.push(format!("{} new {} default {} {} 2", obj, kind, sk, sr));
                    c.push(format!("{} reset {} {} 2", obj, bk, br));
                    big_cases.push(c);
                }
            }
        }
    }
    let big_runs = ctx.run_cases(&big_cases);
    for (c, run) in big_cases.iter().zip(big_runs.iter()) {
        ctx.count("history", "reset-into-one-rate-only-configuration");
        let fresh = run.answers[0].line();
        let reset = run.answers[2].line();
        if fresh != reset {
            ctx.oracle_fail(format!("`new` answers `{}` but `reset` into the same configuration answers `{}` ({})", crate::ctx::short(&fresh), crate::ctx::short(&reset), c.lines[2]), c, Some(2));
        }
    }
    let runs = ctx.run_cases(&cases);
    // decoding side: default decoder (fresh or after a crossing reset) on dedicated-encoded shards
    let mut dcases = vec![];
    let mut dmeta = vec![];
    for ((case, run), (k, r, sb, engine, high, originals, marks)) in cases.iter().zip(runs.iter()).zip(metas.iter()) {
        let lines: Vec<String> = marks.iter().map(|m| run.answers[*m].line()).collect();
        if lines.iter().any(|l| l != &lines[1]) {
            ctx.oracle_fail(
                format!("default / dedicated-{} / ReedSolomonEncoder / one-shot recovery bytes differ for {}:{} ({})", if *high { "high" } else { "low" }, k, r, engine),
                case,
                None,
            );
            continue;
        }
        let Some(recovery) = crate::objs::parse_shards(lines[1].trim_start_matches("ok ")) else { continue };
        let (go, gr, _) = gen_received(&mut ctx.rng, *k, *r);
        let mut d = Case::new("default-decodes-dedicated");
        d.with_model = case.with_model;
        let crossing = ctx.rng.chance(1, 2);
        if crossing {
            let (pk, pr) = if *high { (2usize, 5usize) } else { (5usize, 2usize) };
            d.push(format!("D new default {} {} {} 4", engine, pk, pr));
            if ctx.rng.chance(1, 2) {
                let (tk, tr) = *ctx.rng.pick(&[(4usize, 3usize), (3, 4), (3, 3), (7, 5), (5, 7), (6, 8), (2, 2)]);
                d.push(format!("D reset {} {} {}", tk, tr, *ctx.rng.pick(&[2usize, 64])));
            }
            if ctx.rng.chance(1, 2) {
                d.push(format!("D reset {} {} {}", k, r, *ctx.rng.pick(&[0usize, 1, 3, 65])));
            }
            d.push(format!("D reset {} {} {}", k, r, sb));
        } else {
            d.push(format!("D new {} {} {} {} {}", if ctx.rng.chance(1, 2) { "default" } else { "rs" }, engine, k, r, sb));
        }
        for i in &go { d.push(format!("D addo {} {}", i, to_hex(&originals[*i]))); }
        for j in &gr { d.push(format!("D addr {} {}", j, to_hex(&recovery[*j]))); }
        d.push("D decode".into());
        dcases.push(d);
        dmeta.push((originals.clone(), go.clone()));
        // the one-shot decode function is the same default codec: same shards, same result
        if !gr.is_empty() {
            let mut x = Case::new("oneshot-decodes-dedicated");
            x.with_model = case.with_model;
            let show = |idx: &Vec<usize>, src: &Vec<Vec<u8>>| if idx.is_empty() { "-".to_string() } else { idx.iter().map(|i| format!("{}:{}", i, to_hex(&src[*i]))).collect::<Vec<_>>().join(",") };
            x.push(format!("X decode {} {} {} {}", k, r, show(&go, originals), show(&gr, &recovery)));
            dcases.push(x);
            dmeta.push((originals.clone(), go));
        }
    }
    let druns = ctx.run_cases(&dcases);
    for ((case, run), (originals, go)) in dcases.iter().zip(druns.iter()).zip(dmeta.iter()) {
        crate::props::c01::check_restored(ctx, case, run.answers.last().unwrap(), originals, go);
    }
}
