//! C14: the default engine runs only SIMD code the CPU reports and picks the best.
//!
//! For every subset of {AVX2, SSSE3} (exhaustive: 4 masks; the hook can only remove features from
//! what the CPU really reports): set the mask, clear the ISA trace, construct default-engine codecs,
//! run encode + decode rounds and the associated function DefaultEngine::eval_poly, then compare the
//! set of ISAs whose #[target_feature] code ran with the decision model (`rsmodel select`), and the
//! results across masks.  The AArch64 selection code is compiled through a source port of
//! engine_default.rs with an emulated detection macro (2 masks).

use std::sync::atomic::Ordering;

use reed_solomon_simd::engine::{DefaultEngine, Engine};
use reed_solomon_simd::verif_hooks::{FEATURE_MASK, ISA_AVX2, ISA_NEON, ISA_SSSE3, ISA_TRACE};

use crate::ctx::{run_impl, Case, Ctx};
use crate::gen::*;
use crate::objs::to_hex;

/// an engine that counts the calls of its own `eval_poly` (and is `NoSimd` otherwise): the selection of the default
/// engine serves `eval_poly` only if the decoders evaluate the locator polynomial THROUGH their engine type
struct Probe(reed_solomon_simd::engine::NoSimd);
static PROBE_EVALS: std::sync::atomic::AtomicUsize = std::sync::atomic::AtomicUsize::new(0);
impl Engine for Probe {
    fn fft(&self, d: &mut reed_solomon_simd::engine::ShardsRefMut, pos: usize, size: usize, t: usize, sd: usize) { self.0.fft(d, pos, size, t, sd) }
    fn ifft(&self, d: &mut reed_solomon_simd::engine::ShardsRefMut, pos: usize, size: usize, t: usize, sd: usize) { self.0.ifft(d, pos, size, t, sd) }
    fn mul(&self, x: &mut [[u8; 64]], log_m: u16) { self.0.mul(x, log_m) }
    fn eval_poly(erasures: &mut [u16; 65536], truncated_size: usize) {
        PROBE_EVALS.fetch_add(1, Ordering::SeqCst);
        reed_solomon_simd::engine::NoSimd::eval_poly(erasures, truncated_size)
    }
}

fn probe_decoders(ctx: &mut Ctx) {
    use reed_solomon_simd::rate::{DefaultRateDecoder, DefaultRateEncoder, HighRateDecoder, HighRateEncoder, LowRateDecoder, LowRateEncoder, RateDecoder, RateEncoder};
    use reed_solomon_simd::engine::NoSimd;
    fn one<D: RateDecoder<Probe>, C: RateEncoder<NoSimd>>(ctx: &mut Ctx, what: &str, k: usize, r: usize, sb: usize) {
        let mut rng = crate::prng::Prng::new((k * 131 + r) as u64);
        let originals: Vec<Vec<u8>> = (0..k).map(|_| rng.bytes(sb)).collect();
        let recovery: Vec<Vec<u8>> = {
            let mut e = match C::new(k, r, sb, NoSimd::new(), None) { Ok(e) => e, Err(_) => return };
            for o in &originals { e.add_original_shard(o).unwrap(); }
            let res = e.encode().unwrap();
            res.recovery_iter().map(|s| s.to_vec()).collect()
        };
        let case = Case { name: format!("probe {} {}:{}", what, k, r), lines: vec![format!("{}<Probe> {}:{} size {} original 0 lost", what, k, r, sb)], with_model: false };
        let _ = NoSimd::new();
        let mut d = match D::new(k, r, sb, Probe(NoSimd::new()), None) { Ok(d) => d, Err(e) => { ctx.oracle_fail(format!("{}: {:?}", what, e), &case, None); return; } };
        for round in 0..2 {
            PROBE_EVALS.store(0, Ordering::SeqCst);
            for i in 1..k { d.add_original_shard(i, &originals[i]).unwrap(); }
            d.add_recovery_shard(r - 1, &recovery[r - 1]).unwrap();
            let ok = match d.decode() {
                Ok(res) => res.restored_original(0).map(|s| s == &originals[0][..]).unwrap_or(false),
                Err(_) => false,
            };
            let n = PROBE_EVALS.load(Ordering::SeqCst);
            ctx.evaluations += 1;
            ctx.count("probe", what);
            if !ok {
                ctx.oracle_fail(format!("{} with the probe engine does not restore the lost original ({}:{}, round {})", what, k, r, round), &case, None);
            }
            if n != 1 {
                ctx.oracle_fail(format!("{} called its engine's eval_poly {} times in one decode with a lost original ({}:{}, round {}): the engine selection does not serve the polynomial evaluation", what, n, k, r, round), &case, None);
            }
        }
    }
    // the rule picks low for (3, 5) and (5, 4) [same power of two, k > r], high for (5, 3) and (4, 5)
    one::<HighRateDecoder<Probe>, HighRateEncoder<NoSimd>>(ctx, "HighRateDecoder", 5, 3, 64);
    one::<HighRateDecoder<Probe>, HighRateEncoder<NoSimd>>(ctx, "HighRateDecoder", 3, 9, 66);
    one::<LowRateDecoder<Probe>, LowRateEncoder<NoSimd>>(ctx, "LowRateDecoder", 3, 5, 64);
    one::<LowRateDecoder<Probe>, LowRateEncoder<NoSimd>>(ctx, "LowRateDecoder", 9, 3, 2);
    one::<DefaultRateDecoder<Probe>, DefaultRateEncoder<NoSimd>>(ctx, "DefaultRateDecoder(high)", 5, 3, 130);
    one::<DefaultRateDecoder<Probe>, DefaultRateEncoder<NoSimd>>(ctx, "DefaultRateDecoder(high)", 4, 5, 64);
    one::<DefaultRateDecoder<Probe>, DefaultRateEncoder<NoSimd>>(ctx, "DefaultRateDecoder(low)", 3, 5, 64);
    one::<DefaultRateDecoder<Probe>, DefaultRateEncoder<NoSimd>>(ctx, "DefaultRateDecoder(low)", 5, 4, 6);
}

fn isa_names(bits: usize) -> Vec<&'static str> {
    let mut v = vec![];
    if bits & ISA_AVX2 != 0 { v.push("avx2"); }
    if bits & ISA_SSSE3 != 0 { v.push("ssse3"); }
    if bits & ISA_NEON != 0 { v.push("neon"); }
    v
}

fn workload(ctx: &mut Ctx, seed: u64) -> (Vec<Case>, Vec<(Vec<Vec<u8>>, Vec<usize>)>) {
    let mut rng = crate::prng::Prng::new(seed);
    let mut cases = vec![];
    let mut metas = vec![];
    for (i, kind) in ["rs", "default", "rs", "default", "rs"].iter().enumerate() {
        let (_, k, r) = gen_counts(&mut rng, [16usize, 64, 300, 32, 1024][i], &["default"]);
        let cfg = Cfg { kind: kind.to_string(), engine: "default".into(), k, r, sb: [64usize, 2, 66, 130, 64][i] };
        let originals = gen_originals(&mut rng, k, cfg.sb);
        let Some(recovery) = encode_impl(&cfg, &originals) else { continue };
        // force a real decode (at least one original missing)
        let miss = rng.range(1, k.min(r));
        let missing = rng.subset(k, miss);
        let go: Vec<usize> = (0..k).filter(|x| !missing.contains(x)).collect();
        let gr = rng.subset(r, miss);
        let order: Vec<(bool, usize)> = go.iter().map(|x| (true, *x)).chain(gr.iter().map(|x| (false, *x))).collect();
        let mut c = crate::props::c01::roundtrip_case(&format!("mask-workload-{}", i), &cfg, &cfg, &originals, &recovery, &order);
        c.with_model = false;
        cases.push(c);
        metas.push((originals, go));
    }
    let _ = ctx;
    (cases, metas)
}

pub fn run(ctx: &mut Ctx) {
    let dummy = Case::new("select");
    let real_avx2 = std::is_x86_feature_detected!("avx2");
    let real_ssse3 = std::is_x86_feature_detected!("ssse3");
    ctx.notes.push(format!("CPU reports avx2={} ssse3={}", real_avx2, real_ssse3));
    let mut reference: Option<Vec<String>> = None;
    let mut ep_reference: Option<Vec<u16>> = None;
    for mask_bits in 0..4usize {
        let (m_avx2, m_ssse3) = (mask_bits & 1 != 0, mask_bits & 2 != 0);
        let (avx2, ssse3) = (m_avx2 && real_avx2, m_ssse3 && real_ssse3);
        FEATURE_MASK.store((if m_avx2 { ISA_AVX2 } else { 0 }) | (if m_ssse3 { ISA_SSSE3 } else { 0 }), Ordering::SeqCst);
        ISA_TRACE.store(0, Ordering::SeqCst);
        // rounds on default-engine codecs
        let (cases, metas) = workload(ctx, ctx.seed ^ 0xC14);
        let mut answers = vec![];
        for (c, (originals, go)) in cases.iter().zip(metas.iter()) {
            let run = run_impl(c);
            ctx.evaluations += 1;
            crate::props::c01::check_restored(ctx, c, run.answers.last().unwrap(), originals, go);
            for (n, a) in run.answers.iter().enumerate() {
                if let crate::objs::Ans::Panic(p) = a {
                    ctx.oracle_fail(format!("panic under mask avx2={} ssse3={}: {}", avx2, ssse3, p), c, Some(n));
                }
            }
            answers.extend(run.answers.iter().map(|a| a.line()));
        }
        // primitives on an explicitly constructed DefaultEngine, each observed in isolation
        let trace_rounds = ISA_TRACE.swap(0, Ordering::SeqCst);
        {
            let mut j = crate::json::J::obj();
            j.set("feature_mask", crate::json::J::s(&format!("avx2={} ssse3={} (CPU: avx2={} ssse3={})", m_avx2, m_ssse3, real_avx2, real_ssse3)));
            j.set("isa_trace_of_the_rounds", crate::json::J::Num(trace_rounds as f64));
            j.set("first_case", crate::json::J::strs(&cases.first().map(|c| c.lines.iter().take(6).map(|l| crate::ctx::short(l)).collect::<Vec<_>>()).unwrap_or_default()));
            ctx.sample(j);
        }
        let e = DefaultEngine::new();
        let mut x = vec![[7u8; 64]; 3];
        e.mul(&mut x, 12345);
        answers.push(to_hex(&x.concat()));
        let trace_mul = ISA_TRACE.swap(0, Ordering::SeqCst);
        let mut data = vec![[3u8; 64]; 8];
        {
            let mut r = reed_solomon_simd::engine::ShardsRefMut::new(8, 1, &mut data);
            e.fft(&mut r, 0, 8, 8, 8);
        }
        let trace_fft = ISA_TRACE.swap(0, Ordering::SeqCst);
        {
            let mut r = reed_solomon_simd::engine::ShardsRefMut::new(8, 1, &mut data);
            e.ifft(&mut r, 0, 8, 8, 8);
        }
        let trace_ifft = ISA_TRACE.swap(0, Ordering::SeqCst);
        // the associated function eval_poly has its own, independent detection
        let mut er = Box::new([0u16; 65536]);
        for j in (0..3000).step_by(7) { er[j] = 1; }
        DefaultEngine::eval_poly(&mut er, 3000);
        let trace_eval = ISA_TRACE.swap(0, Ordering::SeqCst);
        // … and the way the decoders reach it: through the `Engine` trait with `E = DefaultEngine` (an inherent function
        // of the same name would shadow the path call above while the trait's provided default serves the decoders)
        fn through_trait<E: Engine>(er: &mut [u16; 65536], n: usize) { E::eval_poly(er, n) }
        let mut er2 = Box::new([0u16; 65536]);
        for j in (0..3000).step_by(7) { er2[j] = 1; }
        through_trait::<DefaultEngine>(&mut er2, 3000);
        let trace_eval_trait = ISA_TRACE.swap(0, Ordering::SeqCst);
        if er2[..] != er[..] {
            let case = Case { name: format!("mask avx2={} ssse3={}", avx2, ssse3), lines: vec![], with_model: false };
            ctx.oracle_fail("<DefaultEngine as Engine>::eval_poly and DefaultEngine::eval_poly give different results".into(), &case, None);
        }
        let trace = trace_rounds | trace_mul | trace_fft | trace_ifft | trace_eval | trace_eval_trait;
        let best0 = if avx2 { ISA_AVX2 } else if ssse3 { ISA_SSSE3 } else { 0 };
        for (name, t) in [("encode/decode rounds", trace_rounds), ("mul", trace_mul), ("fft", trace_fft), ("ifft", trace_ifft), ("eval_poly", trace_eval), ("<DefaultEngine as Engine>::eval_poly", trace_eval_trait)] {
            if t != best0 {
                let case = Case { name: format!("mask avx2={} ssse3={}", avx2, ssse3), lines: vec![], with_model: false };
                ctx.oracle_fail(format!("{} under the mask avx2={} ssse3={} executed ISAs {:?}; the most capable reported one is {:?} and must serve every primitive", name, avx2, ssse3, isa_names(t), isa_names(best0)), &case, None);
            }
        }
        // decision model
        let q = format!("L select x86 {} {}", avx2, ssse3);
        let expect = match ctx.model_eval(&[q.clone()]) {
            Ok(a) => a[0].clone(),
            Err(e) => { ctx.model_fail(e, &dummy, None); return; }
        };
        let got = { let v = isa_names(trace); if v.is_empty() { "-".to_string() } else { v.join(",") } };
        let case = Case { name: format!("mask avx2={} ssse3={}", avx2, ssse3), lines: vec![q], with_model: true };
        // direct oracle, independent of the model: only reported features, and the best one
        let best = if avx2 { ISA_AVX2 } else if ssse3 { ISA_SSSE3 } else { 0 };
        if trace & !((if avx2 { ISA_AVX2 } else { 0 }) | (if ssse3 { ISA_SSSE3 } else { 0 })) != 0 {
            ctx.oracle_fail(format!("code compiled for {:?} ran although the (masked) CPU reports avx2={} ssse3={}", isa_names(trace), avx2, ssse3), &case, None);
        } else if trace != best {
            ctx.oracle_fail(format!("ISAs executed {:?}, but the most capable reported one is {:?} and it must serve every primitive incl. eval_poly", isa_names(trace), isa_names(best)), &case, None);
        }
        if got != expect {
            ctx.model_fail(format!("executed ISA set `{}` differs from the decision model `{}`", got, expect), &case, None);
        }
        ctx.count("mask", &format!("avx2={} ssse3={}", avx2, ssse3));
        match &reference {
            None => reference = Some(answers),
            Some(r) => if r != &answers { ctx.oracle_fail(format!("results differ under feature mask avx2={} ssse3={}", avx2, ssse3), &case, None); }
        }
        match &ep_reference {
            None => ep_reference = Some(er.to_vec()),
            Some(r) => if r[..] != er[..] { ctx.oracle_fail(format!("DefaultEngine::eval_poly differs under feature mask avx2={} ssse3={}", avx2, ssse3), &case, None); }
        }
    }
    FEATURE_MASK.store(usize::MAX, Ordering::SeqCst);

    // every decoder evaluates the locator polynomial through its engine (so that the selection above applies to it)
    probe_decoders(ctx);

    // AArch64 selection logic through the source port
    #[cfg(feature = "neon-port")]
    {
        use crate::neon_port::default_arm::DefaultEngine as ArmDefault;
        for neon in [false, true] {
            crate::neon_emu::NEON_DETECTED.store(neon, Ordering::SeqCst);
            ISA_TRACE.store(0, Ordering::SeqCst);
            let e = ArmDefault::new();
            let mut x = vec![[7u8; 64]; 3];
            e.mul(&mut x, 12345);
            let mut data = vec![[3u8; 64]; 8];
            {
                let mut r = reed_solomon_simd::engine::ShardsRefMut::new(8, 1, &mut data);
                e.fft(&mut r, 0, 8, 8, 8);
                e.ifft(&mut r, 0, 8, 8, 8);
            }
            let mut er = Box::new([0u16; 65536]);
            for j in (0..3000).step_by(7) { er[j] = 1; }
            ArmDefault::eval_poly(&mut er, 3000);
            let trace = ISA_TRACE.load(Ordering::SeqCst);
            let q = format!("L select arm {}", neon);
            let expect = match ctx.model_eval(&[q.clone()]) { Ok(a) => a[0].clone(), Err(e) => { ctx.model_fail(e, &dummy, None); return; } };
            let got = { let v = isa_names(trace); if v.is_empty() { "-".to_string() } else { v.join(",") } };
            let case = Case { name: format!("arm mask neon={}", neon), lines: vec![q], with_model: true };
            let want = if neon { ISA_NEON } else { 0 };
            if trace != want {
                ctx.oracle_fail(format!("AArch64 selection (ported source): ISAs executed {:?} with neon={}", isa_names(trace), neon), &case, None);
            }
            if got != expect {
                ctx.model_fail(format!("AArch64: executed ISA set `{}` differs from the decision model `{}`", got, expect), &case, None);
            }
            if let Some(r) = &ep_reference { if r[..] != er[..] { ctx.oracle_fail(format!("AArch64 DefaultEngine::eval_poly result differs (neon={})", neon), &case, None); } }
            ctx.count("mask", &format!("arm neon={}", neon));
            ctx.evaluations += 1;
        }
        crate::neon_emu::NEON_DETECTED.store(true, Ordering::SeqCst);
    }
    #[cfg(not(feature = "neon-port"))]
    ctx.unavailable.push("aarch64 selection port".into());
}
