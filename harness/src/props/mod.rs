pub mod c01;
pub mod c05;
pub mod c06;
pub mod c07;
pub mod c10;
pub mod c12;
