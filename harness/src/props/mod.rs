pub mod c01;
