//! C15: engine primitives and tables implement their mathematical contracts.
//!
//! * tables: every entry of EXP, LOG, SKEW, LOG_WALSH, MUL16, MUL128 against the definitions
//!   evaluated by the Lean model (`rsmodel tables`; mul tables through the 16 x 65536 basis products);
//! * mul of every engine against x (*) g^log_m computed with the harness's own field arithmetic
//!   (tied to the Lean `gmul` / `gexp` by spot queries); thorough: all 2^32 pairs per engine;
//! * fft against direct evaluation in the LCH basis by the model (`T lcheval`, no FFT), ifft as inverse,
//!   truncation contracts;
//! * eval_poly against the direct product (model `T locator`) via exp, for every admissible
//!   truncated_size class, identical across truncated sizes.

use crate::ctx::{Case, Ctx};
use crate::objs::ENGINES;
use crate::prim::*;
use reed_solomon_simd::engine::tables;

fn read_nums(path: &str) -> Vec<u32> {
    std::fs::read_to_string(path).unwrap_or_default().lines().filter_map(|l| l.trim().parse().ok()).collect()
}

pub fn run(ctx: &mut Ctx) {
    let thorough = ctx.thorough();
    let dummy = Case::new("tables");
    // tables built in children that may use only 1, 3, 7, … CPUs: engines still multiply alike for every log_m
    crate::props::c03::env_children(ctx, thorough);
    // ------------------------------------------------------------ tables, exhaustively
    let dir = std::env::temp_dir().join(format!("rsmodel-tables-{}", std::process::id()));
    let _ = std::fs::create_dir_all(&dir);
    let d = dir.to_string_lossy().to_string();
    let st = std::process::Command::new(&ctx.model_path).args(["tables", &d]).status();
    if st.map(|s| !s.success()).unwrap_or(true) {
        ctx.model_fail("rsmodel tables failed".into(), &dummy, None);
        return;
    }
    let exp = read_nums(&format!("{}/exp.txt", d));
    let log = read_nums(&format!("{}/log.txt", d));
    let skew = read_nums(&format!("{}/skew.txt", d));
    let lw = read_nums(&format!("{}/logwalsh.txt", d));
    let mb = read_nums(&format!("{}/mulbasis.txt", d));
    // tables produced by the transliterated construction algorithms (Model/TableInit.lean)
    let iexp = read_nums(&format!("{}/init_exp.txt", d));
    let ilog = read_nums(&format!("{}/init_log.txt", d));
    let iskew = read_nums(&format!("{}/init_skew.txt", d));
    let _ = std::fs::remove_dir_all(&dir);
    if exp.len() != 65536 || log.len() != 65536 || skew.len() != 65535 || lw.len() != 65536 || mb.len() != 65536 * 16 {
        ctx.model_fail("rsmodel tables: wrong sizes".into(), &dummy, None);
        return;
    }
    if iexp != exp || ilog != log || iskew != skew {
        ctx.model_fail("the transliterated table construction (initExpLog / initSkew) and the specified tables differ inside the model".into(), &dummy, None);
    }
    let mut entries = 0usize;
    let mut bad = |ctx: &mut Ctx, what: String| {
        let c = Case::new("table-entry");
        ctx.oracle_fail(what, &c, None);
    };
    let el = &*tables::EXP_LOG;
    for i in 0..65536 {
        if el.exp[i] as u32 != exp[i] { bad(ctx, format!("EXP[{}] = {} but the definition gives {}", i, el.exp[i], exp[i])); break; }
    }
    for i in 0..65536 {
        if el.log[i] as u32 != log[i] { bad(ctx, format!("LOG[{}] = {} but the definition gives {}", i, el.log[i], log[i])); break; }
    }
    for i in 0..65535 {
        if tables::SKEW[i] as u32 != skew[i] { bad(ctx, format!("SKEW[{}] = {} but the definition gives {}", i, tables::SKEW[i], skew[i])); break; }
    }
    for i in 0..65536 {
        if tables::LOG_WALSH[i] as u32 != lw[i] { bad(ctx, format!("LOG_WALSH[{}] = {} but the definition gives {}", i, tables::LOG_WALSH[i], lw[i])); break; }
    }
    entries += 65536 * 3 + 65535;
    // multiplication tables: entry for nibble value v at nibble position k is the XOR of the basis
    // products of the set bits of (v << 4k)
    let prod = |m: usize, x: usize| -> u16 {
        let mut r = 0u16;
        for b in 0..16 { if x >> b & 1 == 1 { r ^= mb[m * 16 + b] as u16; } }
        r
    };
    'outer: for m in 0..65536usize {
        for k in 0..4 {
            let lo = tables::MUL128[m].lo[k].to_le_bytes();
            let hi = tables::MUL128[m].hi[k].to_le_bytes();
            for v in 0..16 {
                let want = prod(m, v << (4 * k));
                if tables::MUL16[m][k][v] != want {
                    bad(ctx, format!("MUL16[{}][{}][{}] = {} but the definition gives {}", m, k, v, tables::MUL16[m][k][v], want));
                    break 'outer;
                }
                if lo[v] != want as u8 || hi[v] != (want >> 8) as u8 {
                    bad(ctx, format!("MUL128[{}] nibble {} value {} = ({},{}) but the definition gives {}", m, k, v, lo[v], hi[v], want));
                    break 'outer;
                }
            }
        }
    }
    entries += 65536 * 64 * 2;
    ctx.bump("table_entries_compared", entries);
    ctx.evaluations += 6;

    // ------------------------------------------------------------ own arithmetic tied to the Lean definitions
    let f = Field::new();
    let gexp = f.gexp_table();
    let mut q = vec![];
    let mut want = vec![];
    for _ in 0..(if thorough { 2000 } else { 300 }) {
        let (a, b) = (ctx.rng.below(65536) as u16, ctx.rng.below(65536) as u16);
        q.push(format!("T gmul {} {}", a, b));
        want.push(f.gmul(a, b).to_string());
        let m = ctx.rng.below(65536);
        q.push(format!("T gexp {}", m));
        want.push(gexp[m].to_string());
    }
    match ctx.model_eval(&q) {
        Ok(a) => {
            for ((qq, x), w) in q.iter().zip(a.iter()).zip(want.iter()) {
                if x != w {
                    let c = Case { name: "field-arith".into(), lines: vec![qq.clone()], with_model: true };
                    ctx.model_fail(format!("harness arithmetic and Lean definition differ on `{}`: {} vs {}", qq, w, x), &c, None);
                    break;
                }
            }
        }
        Err(e) => ctx.model_fail(e, &dummy, None),
    }
    for i in 0..65536 {
        if gexp[i] as u32 != exp[i] { ctx.model_fail(format!("g^{} differs between harness arithmetic and rsmodel tables", i), &dummy, None); break; }
    }

    // ------------------------------------------------------------ mul against x (*) g^m
    let engines: Vec<&str> = ENGINES.iter().cloned().filter(|e| *e != "neon" || crate::neon_port::AVAILABLE).collect();
    let prims: Vec<(String, Box<dyn Prims>)> = engines.iter().map(|e| (e.to_string(), engine(e))).collect();
    let mut pairs = 0u64;
    if thorough {
        // all 2^32 pairs per engine: for every log_m a buffer holding all 65536 symbols
        let mut base = vec![[0u8; 64]; 2048];
        for s in 0..65536usize { set_sym(&mut base, s, s as u16); }
        for (name, p) in prims.iter() {
            if name == "neon" || name == "naive" {
                // emulated / table-free engines are slow: every 16th multiplier plus the edge values
            }
            for m in 0..65536usize {
                if (name == "neon" || name == "naive") && m % 16 != 0 && m < 65520 && m > 16 { continue; }
                let mut x = base.clone();
                p.mul(&mut x, m as u16);
                let gm = gexp[m];
                for s in 0..65536usize {
                    if get_sym(&x, s) != f.gmul(s as u16, gm) {
                        let c = Case::new("mul");
                        ctx.oracle_fail(format!("engine {}: mul({}, log_m={}) = {} but x*g^m = {}", name, s, m, get_sym(&x, s), f.gmul(s as u16, gm)), &c, None);
                        break;
                    }
                }
                pairs += 65536;
            }
        }
    } else {
        for (name, p) in prims.iter() {
            for i in 0..400usize {
                let m = match i { 0 => 0, 1 => 1, 2 => 65534, 3 => 65535, _ => ctx.rng.below(65536) };
                let mut x = vec![[0u8; 64]; 8];
                for b in x.iter_mut() { b.copy_from_slice(&ctx.rng.bytes(64)); }
                if i % 7 == 0 { set_sym(&mut x, 0, 0); set_sym(&mut x, 1, 1); set_sym(&mut x, 2, 65535); }
                // all-zero / half-zero 64-byte chunks in the middle of the buffer (data-dependent shortcuts)
                if i % 3 == 1 {
                    let z = ctx.rng.below(7);
                    x[z] = [0u8; 64];
                    if ctx.rng.chance(1, 2) { let h = ctx.rng.below(8); for t in 0..32 { x[(z + 3) % 8][(h % 2) * 32 + t] = 0; } }
                }
                let before = x.clone();
                p.mul(&mut x, m as u16);
                for s in 0..256 {
                    let want = f.gmul(get_sym(&before, s), gexp[m]);
                    if get_sym(&x, s) != want {
                        let c = Case::new("mul");
                        ctx.oracle_fail(format!("engine {}: mul({}, log_m={}) = {} but x*g^m = {}", name, get_sym(&before, s), m, get_sym(&x, s), want), &c, None);
                        break;
                    }
                }
                pairs += 256;
            }
        }
    }
    ctx.bump("mul_pairs_checked", pairs as usize);
    ctx.evaluations += prims.len();

    // ------------------------------------------------------------ fft vs direct LCH evaluation (model spec)
    let n_fft = if thorough { 2000 } else { 200 };
    let mut q = vec![];
    let mut expect: Vec<(String, u16)> = vec![];
    for _ in 0..n_fft {
        let n = ctx.rng.below(6);
        let size = 1usize << n;
        // coset offset: aligned to the size; 0 (the coset whose last-layer twiddle is the zero element)
        // one time in four.  The chunk sits anywhere in a larger buffer with guard shards around it.
        let delta = if ctx.rng.chance(1, 4) { 0 } else { size * ctx.rng.below(65536 / size) };
        let pos = *ctx.rng.pick(&[0usize, 0, 1, size, 3 * size + 2]);
        let count = pos + size + ctx.rng.below(3);
        let mut coeffs: Vec<u16> = (0..size).map(|_| ctx.rng.below(65536) as u16).collect();
        let eng = ctx.rng.below(prims.len());
        let mut data = vec![[0u8; 64]; count];
        for b in data.iter_mut() { b.copy_from_slice(&ctx.rng.bytes(64)); }
        // one time in three a sparse polynomial: whole coefficient SHARDS are zero (all lanes) - the upper coefficients,
        // or a random subset - next to non-zero ones: what zero padding and constant data look like to the transform
        let sparse = ctx.rng.below(3);
        let zero_at: Vec<bool> = (0..size).map(|t| match sparse { 0 => t >= (size / 2).max(1) && size > 1, 1 => ctx.rng.chance(1, 2), _ => false }).collect();
        for (t, z) in zero_at.iter().enumerate() { if *z { coeffs[t] = 0; data[pos + t] = [0u8; 64]; } }
        ctx.count("fft_polynomial", match sparse { 0 => "upper coefficient shards zero", 1 => "random coefficient shards zero", _ => "dense" });
        for (t, c) in coeffs.iter().enumerate() { set_sym(&mut data[pos + t..pos + t + 1], 0, *c); }
        let orig = data.clone();
        prims[eng].1.fft(&mut data, count, 1, pos, size, size, delta);
        for i in 0..size {
            if ctx.rng.chance(1, 2) || size <= 4 {
                q.push(format!("T lcheval {} {}", delta + i, coeffs.iter().map(|c| c.to_string()).collect::<Vec<_>>().join(",")));
                expect.push((format!("fft({}) pos={} size={} delta={} output {}", prims[eng].0, pos, size, delta, i), get_sym(&data[pos + i..pos + i + 1], 0)));
            }
        }
        if ctx.samples.len() < 3 {
            let mut j = crate::json::J::obj();
            j.set("primitive", crate::json::J::s(&format!("fft then ifft, engine {} pos={} size={} delta={} in a buffer of {} shards", prims[eng].0, pos, size, delta, count)));
            j.set("spec_query", crate::json::J::s(&crate::ctx::short(q.last().map(|x| x.as_str()).unwrap_or(""))));
            ctx.sample(j);
        }
        ctx.count("fft_pos", if pos == 0 { "0" } else { "nonzero" });
        ctx.count("fft_delta", if delta == 0 { "0" } else { "aligned" });
        // ifft is the exact inverse, and neither touches the guard shards
        prims[eng].1.ifft(&mut data, count, 1, pos, size, size, delta);
        if data != orig {
            let c = Case::new("ifft-inverse");
            ctx.oracle_fail(format!("ifft(fft(x)) != x (or a guard shard changed) for engine {} pos={} size={} delta={}", prims[eng].0, pos, size, delta), &c, None);
        }
        ctx.evaluations += 1;
        ctx.count("fft_log2_size", &n.to_string());
    }
    match ctx.model_eval(&q) {
        Ok(a) => {
            for ((qq, x), (desc, got)) in q.iter().zip(a.iter()).zip(expect.iter()) {
                if x.parse::<u16>().ok() != Some(*got) {
                    let c = Case { name: "fft-eval".into(), lines: vec![qq.clone()], with_model: true };
                    ctx.oracle_fail(format!("{} = {} but the polynomial's value at that point is {}", desc, got, x), &c, None);
                    break;
                }
            }
        }
        Err(e) => ctx.model_fail(e, &dummy, None),
    }

    // ------------------------------------------------------------ eval_poly vs direct product
    let n_ep = if thorough { 60 } else { 10 };
    let mut q = vec![];
    let mut expect: Vec<(String, u16)> = vec![];
    for i in 0..n_ep {
        let hi = *ctx.rng.pick(&[8usize, 64, 1000, 4096, 65536]);
        let nm = match i % 5 { 0 => 0, 1 => 1, 2 => hi.min(300), _ => ctx.rng.range(1, hi.min(300)) };
        let marks = if i % 5 == 2 && hi <= 300 { (0..hi).collect() } else { ctx.rng.subset(hi, nm) };
        let mut e0 = Box::new([0u16; 65536]);
        for m in &marks { e0[*m] = 1; }
        let eng = ctx.rng.below(prims.len());
        let mut full = e0.clone();
        prims[eng].1.eval_poly(&mut full, 65536);
        // identical for every truncated size covering the marks
        let cover = marks.iter().max().map(|m| m + 1).unwrap_or(0);
        for t in [cover, (cover + 3) / 4 * 4, ctx.rng.range(cover, 65536)] {
            let mut e = e0.clone();
            prims[eng].1.eval_poly(&mut e, t);
            if e[..] != full[..] {
                let c = Case::new("eval_poly-trunc");
                ctx.oracle_fail(format!("eval_poly({}) differs between truncated_size {} and 65536 ({} marks below {})", prims[eng].0, t, marks.len(), cover), &c, None);
            }
        }
        let mtxt = if marks.is_empty() { "-".to_string() } else { marks.iter().map(|m| m.to_string()).collect::<Vec<_>>().join(",") };
        let mut xs: Vec<usize> = vec![0, 1, 65535, ctx.rng.below(65536), ctx.rng.below(65536)];
        if let Some(m) = marks.first() { xs.push(*m); }
        for x in xs {
            q.push(format!("T locator {} {}", x, mtxt));
            // exp of the log the engine computed (65535 and 0 both mean log 0 = g^0)
            expect.push((format!("eval_poly({}) at x={} with {} marks", prims[eng].0, x, marks.len()), gexp[full[x] as usize]));
        }
        ctx.evaluations += 1;
        ctx.count("eval_poly_marks", &format!("<={}", marks.len().next_power_of_two()));
    }
    match ctx.model_eval(&q) {
        Ok(a) => {
            for ((qq, x), (desc, got)) in q.iter().zip(a.iter()).zip(expect.iter()) {
                if x.parse::<u16>().ok() != Some(*got) {
                    let c = Case { name: "eval-poly".into(), lines: vec![crate::ctx::short(qq)], with_model: true };
                    ctx.oracle_fail(format!("{}: g^result = {} but the locator product is {}", desc, got, x), &c, None);
                    break;
                }
            }
        }
        Err(e) => ctx.model_fail(e, &dummy, None),
    }
    // few marks, EVERY field point: log of the locator product by definition (harness arithmetic, no transform):
    // result[x] = sum over marks j != x of log(x ^ j)  (mod 65535) — a shortcut for sparse indicator vectors that is
    // wrong at a handful of points only (a lost end-around carry, say) is invisible to sampled points
    {
        let mut glog = vec![0u32; 65536];
        for i in 0..65535usize { glog[gexp[i] as usize] = i as u32; }
        for i in 0..(if thorough { 48 } else { 8 }) {
            let nm = if i % 8 == 7 { ctx.rng.range(9, 24) } else { 1 + (i % 8) };
            let hi = *ctx.rng.pick(&[16usize, 300, 65536]);
            let mut marks = ctx.rng.subset(hi, nm.min(hi));
            if i % 3 == 0 && !marks.contains(&65535) && hi == 65536 { marks.pop(); marks.push(65535); }
            let cover = marks.iter().max().map(|m| m + 1).unwrap_or(0);
            let trunc = if i % 2 == 0 { 65536 } else { ctx.rng.range(cover, 65536) };
            for (name, p) in prims.iter() {
                let mut e = Box::new([0u16; 65536]);
                for m in &marks { e[*m] = 1; }
                p.eval_poly(&mut e, trunc);
                ctx.evaluations += 1;
                let bad = (0..65536usize).find(|&x| {
                    let want: u64 = marks.iter().filter(|&&j| j != x).map(|&j| glog[x ^ j] as u64).sum::<u64>() % 65535;
                    (e[x] as u64) % 65535 != want
                });
                if let Some(x) = bad {
                    let c = Case { name: "eval_poly-all-points".into(), lines: vec![format!("marks {:?} truncated_size {}", marks, trunc)], with_model: false };
                    ctx.oracle_fail(format!("eval_poly({}) at x={} is not the log of the locator product ({} marks {:?}, truncated_size {})", name, x, marks.len(), marks, trunc), &c, None);
                    break;
                }
            }
            ctx.count("eval_poly_all_points_marks", &marks.len().to_string());
        }
    }
    // model's algorithmic eval_poly == implementation (all 65536 outputs), a few vectors
    for _ in 0..(if thorough { 12 } else { 3 }) {
        let hi = *ctx.rng.pick(&[64usize, 4096, 65536]);
        let nmk = ctx.rng.range(1, hi.min(200));
        let marks = ctx.rng.subset(hi, nmk);
        let trunc = ctx.rng.range(marks.iter().max().unwrap() + 1, 65536);
        let mut e = Box::new([0u16; 65536]);
        for m in &marks { e[*m] = 1; }
        prims[1].1.eval_poly(&mut e, trunc);
        let line = format!("T evalpoly {} {}", trunc, marks.iter().map(|m| m.to_string()).collect::<Vec<_>>().join(","));
        match ctx.model_eval(&[line.clone()]) {
            Ok(a) => {
                let m: Vec<u16> = a[0].split(',').filter_map(|x| x.parse().ok()).collect();
                if m.len() != 65536 || (0..65536).any(|i| m[i] % 65535 != e[i] % 65535) {
                    let c = Case { name: "evalpoly-model".into(), lines: vec![crate::ctx::short(&line)], with_model: true };
                    ctx.model_fail("model eval_poly and implementation differ modulo 65535".into(), &c, None);
                }
            }
            Err(er) => ctx.model_fail(er, &dummy, None),
        }
    }
    // truncated transforms: contract outputs vs the full transform (implementation), reuse C03 generator
    for i in 0..(if thorough { 5000 } else { 500 }) {
        let c = crate::props::c03::gen_fft_case(ctx, if i % 40 == 0 { 11 } else { 7 });
        let p = &prims[ctx.rng.below(prims.len())];
        let out = crate::props::c03::run_fft(p.1.as_ref(), &c);
        let fullc = crate::props::c03::FftCase { trunc: c.size, data: c.data.clone(), ..c };
        let full = crate::props::c03::run_fft(p.1.as_ref(), &fullc);
        let hi = if fullc.inverse { fullc.size } else { c.trunc };
        ctx.evaluations += 1;
        for s in fullc.pos..fullc.pos + hi {
            if out[s * fullc.len64..(s + 1) * fullc.len64] != full[s * fullc.len64..(s + 1) * fullc.len64] {
                let cs = Case::new("truncation");
                ctx.oracle_fail(format!("engine {}: truncated transform differs from the full one on a contract-valid output: {} (trunc {})", p.0, crate::props::c03::describe(&fullc), c.trunc), &cs, None);
                break;
            }
        }
    }
}
