//! C05: results never depend on what the codec object did before.
//!
//! Direct oracle: every round of a history on a reused object - with the poison hook filling the
//! working memory with pseudo-random bytes at every (re)size - vs a freshly constructed object
//! (no poison) given the same configuration and the same successful calls.

use std::sync::atomic::Ordering;

use crate::ctx::{run_impl, Case, Ctx};
use crate::props::c06::history_case;
use crate::seqgen::*;

pub fn run(ctx: &mut Ctx) {
    let n = if ctx.thorough() { 4000 } else { 350 };
    let mut all = vec![];
    for i in 0..n {
        let o = HistOpts { p_fail: 150, rounds: 2 + ctx.rng.below(5), max_work: *ctx.rng.pick(&[16, 32, 64, 128]), extreme_args: false, ..Default::default() };
        let h = if i % 2 == 0 { enc_history(&mut ctx.rng, &o) } else { dec_history(&mut ctx.rng, &o) };
        all.push(h);
    }
    // reused objects under poison
    reed_solomon_simd::verif_hooks::POISON_SEED.store(ctx.seed | 0x5eed_0000_0000_0001, Ordering::Relaxed);
    let cases: Vec<Case> = all.iter().enumerate().map(|(i, h)| history_case(&format!("reused-{}", i), &flatten(h))).collect();
    let runs = ctx.run_cases(&cases);
    reed_solomon_simd::verif_hooks::POISON_SEED.store(0, Ordering::Relaxed);
    let mut rounds_cmp = 0usize;
    for ((h, case), run) in all.iter().zip(cases.iter()).zip(runs.iter()) {
        let mut pos = 0usize;
        for round in h {
            pos += round.setup.len();
            let body_answers = &run.answers[pos..pos + round.body.len()];
            pos += round.body.len();
            if round.abandoned {
                continue;
            }
            // fresh object: same configuration, only the calls that succeeded
            let obj = if round.body.last().unwrap().line.starts_with("E") { "E" } else { "D" };
            let mut fresh = Case::new("fresh");
            fresh.push(round.cfg.new_line(obj));
            for l in round.body.iter().filter(|l| !l.expect_fail) {
                fresh.push(l.line.clone());
            }
            let fr = run_impl(&fresh);
            ctx.evaluations += 1;
            rounds_cmp += 1;
            let a = body_answers.last().unwrap().line();
            let b = fr.answers.last().unwrap().line();
            if a != b {
                ctx.oracle_fail(
                    format!(
                        "round on a reused object ({}) answers `{}` but a fresh object answers `{}`",
                        round.cfg.tag(),
                        crate::ctx::short(&a),
                        crate::ctx::short(&b)
                    ),
                    case,
                    Some(pos - 1),
                );
                break;
            }
        }
    }
    ctx.bump("rounds_compared_with_fresh", rounds_cmp);
    ctx.notes.push("poison hook on for the reused objects, off for the fresh ones".into());
}
