//! C04: every even shard size works and symbol slots never interact.
//!
//! Direct oracle (implementation vs implementation): coding shards of size sb gives, slot by slot
//! (documented byte placement), the same symbols as coding every slot on its own as 2-byte shards;
//! every output has exactly sb bytes.  With the poison hook on so that the unused lanes of the
//! final block hold garbage.

use std::sync::atomic::Ordering;

use crate::ctx::{Case, Ctx};
use crate::gen::*;
use crate::objs::{parse_indexed, parse_shards, to_hex, Ans, Session, ENGINES};

/// byte indexes (lo, hi) of slot `l` in a shard of `sb` bytes, per src/algorithm.md
pub fn slot_bytes(sb: usize, l: usize) -> (usize, usize) {
    let q = l / 32;
    let j = l % 32;
    if q < sb / 64 { (64 * q + j, 64 * q + 32 + j) } else { (64 * q + j, 64 * q + (sb % 64) / 2 + j) }
}

fn slot_of(shard: &[u8], sb: usize, l: usize) -> Vec<u8> {
    let (a, b) = slot_bytes(sb, l);
    vec![shard[a], shard[b]]
}

pub fn run(ctx: &mut Ctx) {
    let max_sb = if ctx.thorough() { 1100 } else { 200 };
    let cfgs_per_size = if ctx.thorough() { 3 } else { 1 };
    reed_solomon_simd::verif_hooks::POISON_SEED.store(ctx.seed | 0x0400_0000_0000_0001, Ordering::Relaxed);
    let mut cases = vec![];
    let mut metas = vec![];
    // every even size up to max_sb, then (quick tier) a sample of larger ones: 5 .. 18 blocks per shard
    let mut all_sizes: Vec<usize> = (1..=max_sb / 2).map(|h| 2 * h).collect();
    {
        for _ in 0..3 { all_sizes.extend_from_slice(&MULTI_BLOCK_SIZES); }
        all_sizes.extend_from_slice(&[256 + 64, 512 + 2, 640, 832 + 30]);
        // block counts around and ON multiples of 64 (4 KiB), with and without a partial last block
        all_sizes.extend_from_slice(&LONG_SIZES);
        all_sizes.extend_from_slice(&LONG_SIZES);
        if ctx.thorough() {
            for m in [1usize, 2, 3, 4] { for d in [62usize, 34, 2] { all_sizes.push(4096 * m - d); } }
        }
    }
    for sb in all_sizes {
        for _ in 0..cfgs_per_size {
            let mw = *ctx.rng.pick(&[8usize, 16, 32]);
            let cfg = gen_cfg(&mut ctx.rng, mw, &["high", "low", "default", "rs"], &ENGINES, &[sb]);
            let originals: Vec<Vec<u8>> = gen_originals(&mut ctx.rng, cfg.k, sb);
            let Some(recovery) = encode_impl(&cfg, &originals) else { continue };
            let (go, gr, _) = gen_received(&mut ctx.rng, cfg.k, cfg.r);
            // a few slots: first, last, around the block boundary / tail split, random
            let nslots = sb / 2;
            let mut slots = vec![0, nslots - 1, nslots / 2, ctx.rng.below(nslots)];
            if nslots > 32 { slots.push(31); slots.push(32); slots.push(32 * (nslots / 32) - 1); slots.push((32 * (nslots / 32)).min(nslots - 1)); }
            slots.sort_unstable();
            slots.dedup();
            let mut c = Case::new(&format!("size-{}", sb));
            c.with_model = sb <= 140;
            // full-size encode and decode; half of the time on objects that were first configured for
            // another shard size with the SAME number of 64-byte blocks (only the tail split differs) and
            // then reset - anything cached about the tail must follow the reset
            let blocks = (sb + 63) / 64;
            let others: Vec<usize> = ((blocks - 1) * 64 + 2..=blocks * 64).step_by(2).filter(|x| *x != sb).collect();
            let reuse = !others.is_empty() && cfg.kind != "rs" && ctx.rng.chance(1, 2);
            if reuse {
                let prev = Cfg { sb: *ctx.rng.pick(&others), ..cfg.clone() };
                c.push(prev.new_line("E"));
                c.push(format!("E reset {} {} {}", cfg.k, cfg.r, sb));
                ctx.count("object", "reset-from-same-block-count");
            } else {
                c.push(cfg.new_line("E"));
                ctx.count("object", "fresh");
            }
            for o in &originals { c.push(format!("E add {}", to_hex(o))); }
            c.push("E encode".into());
            let enc_idx = c.lines.len() - 1;
            if reuse {
                // the decoder held the same number of blocks per shard before — and, half of the time, a LARGER
                // configuration (more work positions, a longer received-bitmap) than the one it is reset to
                let mut prev = Cfg { sb: *ctx.rng.pick(&others), ..cfg.clone() };
                if ctx.rng.chance(1, 2) {
                    let big = gen_cfg(&mut ctx.rng, mw * 4, &[cfg.kind.as_str()], &[cfg.engine.as_str()], &[prev.sb]);
                    if dec_work(&big.kind, big.k, big.r) > dec_work(&cfg.kind, cfg.k, cfg.r) { prev = big; ctx.count("object", "decoder-reset-from-larger"); }
                }
                c.push(prev.new_line("D"));
                c.push(format!("D reset {} {} {}", cfg.k, cfg.r, sb));
            } else {
                c.push(cfg.new_line("D"));
            }
            for i in &go { c.push(format!("D addo {} {}", i, to_hex(&originals[*i]))); }
            for j in &gr { c.push(format!("D addr {} {}", j, to_hex(&recovery[*j]))); }
            c.push("D decode".into());
            let dec_idx = c.lines.len() - 1;
            // per-slot runs as 2-byte shards
            let c2 = Cfg { sb: 2, ..cfg.clone() };
            for l in &slots {
                c.push(c2.new_line("E"));
                for o in &originals { c.push(format!("E add {}", to_hex(&slot_of(o, sb, *l)))); }
                c.push("E encode".into());
                c.push(c2.new_line("D"));
                for i in &go { c.push(format!("D addo {} {}", i, to_hex(&slot_of(&originals[*i], sb, *l)))); }
                for j in &gr { c.push(format!("D addr {} {}", j, to_hex(&slot_of(&recovery[*j], sb, *l)))); }
                c.push("D decode".into());
            }
            ctx.count("tail_bytes", &format!("{}", sb % 64));
            ctx.count("blocks", &format!("{}", (sb + 63) / 64));
            cases.push(c);
            metas.push((cfg, slots, originals.len(), go.len(), gr.len(), enc_idx, dec_idx));
        }
    }
    let runs = ctx.run_cases(&cases);
    huge_shards(ctx);
    reed_solomon_simd::verif_hooks::POISON_SEED.store(0, Ordering::Relaxed);
    for ((case, run), (cfg, slots, k, ngo, ngr, enc_idx, dec_idx)) in cases.iter().zip(runs.iter()).zip(metas.iter()) {
        let sb = cfg.sb;
        let (enc_idx, dec_idx) = (*enc_idx, *dec_idx);
        let (Ans::Ok(encp), Ans::Ok(decp)) = (&run.answers[enc_idx], &run.answers[dec_idx]) else {
            ctx.oracle_fail(format!("encode/decode failed at shard size {}", sb), case, None);
            continue;
        };
        let Some(rec) = parse_shards(encp) else { continue };
        let Some(rest) = parse_indexed(decp) else { continue };
        if rec.iter().any(|s| s.len() != sb) || rest.iter().any(|(_, s)| s.len() != sb) {
            ctx.oracle_fail(format!("an output shard does not have exactly {} bytes", sb), case, None);
            continue;
        }
        let per_slot = 1 + k + 1 + 1 + ngo + ngr + 1;
        for (n, l) in slots.iter().enumerate() {
            let base = dec_idx + 1 + n * per_slot;
            let (Ans::Ok(e2), Ans::Ok(d2)) = (&run.answers[base + k + 1], &run.answers[base + per_slot - 1]) else {
                ctx.oracle_fail(format!("2-byte run of slot {} failed", l), case, None);
                break;
            };
            let rec2 = parse_shards(e2).unwrap_or_default();
            let rest2 = parse_indexed(d2).unwrap_or_default();
            let ok_e = rec.len() == rec2.len() && rec.iter().zip(rec2.iter()).all(|(a, b)| slot_of(a, sb, *l) == *b);
            let ok_d = rest.len() == rest2.len() && rest.iter().zip(rest2.iter()).all(|((i, a), (j, b))| i == j && slot_of(a, sb, *l) == *b);
            if !ok_e || !ok_d {
                ctx.oracle_fail(
                    format!("slot {} of the size-{} result differs from coding that slot alone as 2-byte shards ({})", l, sb, if ok_e { "decode" } else { "encode" }),
                    case,
                    None,
                );
                break;
            }
        }
    }
}

/// shards of hundreds of kilobytes (a working set of tens of megabytes: beyond every cache, beyond any "small input"
/// threshold an engine might switch algorithms at): selected slots against the same slots coded alone as 2-byte shards,
/// exact lengths, and a decode of the full-size shards.  Run directly (the hex lines of a case would be tens of MB).
fn huge_shards(ctx: &mut Ctx) {
    // (release profile only: the dev profile runs the same code paths on the ordinary sizes, with debug assertions on)
    if cfg!(debug_assertions) { return; }
    let thorough = ctx.thorough();
    let mut engines: Vec<&str> = vec!["nosimd"];
    if thorough { engines = ENGINES.iter().cloned().filter(|e| *e != "neon" || crate::neon_port::AVAILABLE).collect(); } else { engines.push(*ctx.rng.pick(&["naive", "ssse3", "avx2", "default"])); }
    for (n, engine) in engines.iter().enumerate() {
        let (kind, k, r) = if n % 2 == 0 { ("high", 20usize, 16usize) } else { ("low", 6usize, 20usize) };
        let sb = 524_288 + 64 * ctx.rng.range(100, 2000) + 2 * ctx.rng.range(1, 31);
        let cfg = Cfg { kind: kind.into(), engine: engine.to_string(), k, r, sb };
        let descr = format!("huge shards: {} (encode, slots vs 2-byte coding, decode)", cfg.tag());
        let case = Case { name: format!("huge-{}", engine), lines: vec![descr.clone()], with_model: false };
        ctx.evaluations += 1;
        ctx.count("huge_shards", engine);
        let originals: Vec<Vec<u8>> = (0..k).map(|_| ctx.rng.bytes(sb)).collect();
        let Some(rec) = encode_impl(&cfg, &originals) else {
            ctx.oracle_fail(format!("{}: encode failed", descr), &case, None);
            continue;
        };
        if rec.len() != r || rec.iter().any(|x| x.len() != sb) {
            ctx.oracle_fail(format!("{}: a recovery shard does not have exactly {} bytes", descr, sb), &case, None);
            continue;
        }
        let nslots = sb / 2;
        let mut slots = vec![0, 1, 31, 32, nslots / 2, 32 * (nslots / 32) - 1, (32 * (nslots / 32)).min(nslots - 1), nslots - 1, ctx.rng.below(nslots)];
        slots.sort_unstable();
        slots.dedup();
        let c2 = Cfg { sb: 2, ..cfg.clone() };
        let mut bad = None;
        for l in &slots {
            let small: Vec<Vec<u8>> = originals.iter().map(|o| slot_of(o, sb, *l)).collect();
            let Some(rec2) = encode_impl(&c2, &small) else { bad = Some(format!("2-byte run of slot {} failed", l)); break };
            if let Some(j) = (0..r).find(|j| slot_of(&rec[*j], sb, *l) != rec2[*j]) {
                bad = Some(format!("slot {} of recovery shard {} differs from coding that slot alone as 2-byte shards", l, j));
                break;
            }
        }
        if let Some(b) = bad {
            ctx.oracle_fail(format!("{}: {}", descr, b), &case, None);
            continue;
        }
        // decode: lose min(k, r, 5) originals
        let miss = k.min(r).min(5);
        let mut d = Session::new();
        let mut ok = matches!(d.exec(&cfg.new_line("D")).0, Ans::Ok(_));
        for i in miss..k { ok &= matches!(d.exec(&format!("D addo {} {}", i, to_hex(&originals[i]))).0, Ans::Ok(_)); }
        for j in 0..miss { ok &= matches!(d.exec(&format!("D addr {} {}", r - 1 - j, to_hex(&rec[r - 1 - j]))).0, Ans::Ok(_)); }
        let restored = match d.exec("D decode").0 { Ans::Ok(p) => parse_indexed(&p), _ => None };
        match restored {
            Some(x) if ok && x.len() == miss && x.iter().all(|(i, s)| *s == originals[*i]) => {}
            _ => ctx.oracle_fail(format!("{}: decode does not restore the originals", descr), &case, None),
        }
    }
}
