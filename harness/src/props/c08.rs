//! C08: supports() is exactly the documented envelope and constructors agree with it.
//!
//! * `supports` of every flavour against the envelope predicate (README form, written in the
//!   harness) AND against the staircase `cap` printed by the Lean model (`rsmodel cap`):
//!   thorough = all 65538^2 pairs x 4 flavours; quick = the band around every boundary and power of
//!   two + random pairs; plus values up to usize::MAX;
//! * new / reset / validate succeed iff supports && shard size even and non-zero;
//! * every staircase corner and its inside neighbours really encode and decode (round trip at
//!   maximum loss).

use crate::ctx::{Case, Ctx};
use crate::gen::*;
use crate::objs::{envelope, supports, to_hex};
use crate::seqgen::EXTREME;

/// Validation of the translator: the functions rs2lean.py translated from today's source, run by
/// `srcmodel`, against the implementation they were translated from, on the boundary grid, random pairs
/// and `usize` extremes (the Lean theorems relate the translation to the model for ALL pairs).
pub fn src_tie(ctx: &mut Ctx) {
    let src_model = std::path::Path::new(&ctx.model_path).with_file_name("srcmodel");
    if !src_model.exists() {
        ctx.unavailable.push("srcmodel not built: the translated source was not run against the implementation".into());
        return;
    }
    let mut vals: Vec<usize> = vec![0, 1, 2, 3];
    for e in 1..=16 {
        let p = 1usize << e;
        for d in 0..2 { vals.push(p - d); vals.push(p + d); vals.push((65536 - p).saturating_sub(d)); vals.push(65536 - p + d); }
    }
    for _ in 0..40 { vals.push(ctx.rng.below(65538)); }
    vals.extend(EXTREME.iter().cloned());
    vals.sort_unstable(); vals.dedup();
    let mut lines = vec![];
    for kind in ["high", "low", "default"] {
        for &k in &vals {
            for &r in &vals {
                lines.push(format!("S supports {} {} {}", kind, k, r));
            }
        }
        for _ in 0..3000 {
            let (k, r) = (*ctx.rng.pick(&vals), *ctx.rng.pick(&vals));
            let sb = *ctx.rng.pick(&[0usize, 1, 2, 3, 64, 65, 1 << 20, usize::MAX - 1, usize::MAX]);
            lines.push(format!("S validate {} {} {} {}", kind, k, r, sb));
        }
    }
    let answers = {
        // spread over processes
        let np = 14usize;
        let chunks: Vec<Vec<String>> = lines.chunks((lines.len() + np - 1) / np).map(|c| c.to_vec()).collect();
        let path = src_model.to_string_lossy().to_string();
        let handles: Vec<_> = chunks.into_iter().map(|q| { let p = path.clone(); std::thread::spawn(move || crate::ctx::model_eval_at(&p, &q)) }).collect();
        let mut all = vec![];
        for h in handles {
            match h.join().unwrap() {
                Ok(a) => all.extend(a),
                Err(e) => {
                    ctx.model_fail(format!("srcmodel could not be run: {}", e), &Case::new("src-tie"), None);
                    return;
                }
            }
        }
        all
    };
    let mut sess = crate::objs::Session::new();
    let mut bad = 0;
    for (l, a) in lines.iter().zip(answers.iter()) {
        let got = sess.exec(l).0.line();
        if &got != a {
            bad += 1;
            if bad <= 5 {
                let c = Case { name: "src-tie".into(), lines: vec![l.clone()], with_model: false };
                ctx.model_fail(format!("translated source answers `{}` but the implementation answers `{}` to `{}` (translator or source semantics mismatch)", a, got, l), &c, None);
            }
        }
    }
    ctx.bump("translated_source_vs_implementation_lines", lines.len());
    ctx.model_lines += lines.len();
}

pub fn run(ctx: &mut Ctx) {
    let thorough = ctx.thorough();
    src_tie(ctx);
    let dummy = Case::new("cap");
    // staircase from the model
    let out = std::process::Command::new(&ctx.model_path).arg("cap").output();
    let text = match out {
        Ok(o) if o.status.success() => String::from_utf8_lossy(&o.stdout).to_string(),
        _ => {
            ctx.model_fail("rsmodel cap failed".into(), &dummy, None);
            return;
        }
    };
    let caps: Vec<Vec<usize>> = text.lines().map(|l| l.split_whitespace().filter_map(|x| x.parse().ok()).collect()).collect();
    if caps.len() != 3 || caps.iter().any(|c| c.len() != 65538) {
        ctx.model_fail("rsmodel cap: unexpected shape".into(), &dummy, None);
        return;
    }
    let kinds = [("default", 0usize), ("high", 1), ("low", 2), ("rs", 0)];
    // model staircase vs README envelope (exhaustive over k, boundary in r)
    for (kind, ci) in kinds.iter().take(3) {
        for k in 0..65538usize {
            let cap = caps[*ci][k];
            let ok = (cap == 0 || envelope(kind, k, cap)) && !envelope(kind, k, cap + 1) && (cap == 0 || envelope(kind, k, 1));
            if !ok {
                ctx.findings.push(crate::ctx::Finding { class: "spec".into(), what: format!("model cap[{}][{}] = {} disagrees with the README envelope", kind, k, cap), case: dummy.clone(), line_no: None });
                break;
            }
        }
    }
    let check = |ctx: &mut Ctx, kind: &str, ci: usize, k: usize, r: usize| -> bool {
        let s = supports(kind, k, r);
        let want_env = envelope(if kind == "rs" { "default" } else { kind }, k, r);
        let want_cap = k < 65538 && r >= 1 && r <= caps[ci][k];
        if s != want_env {
            let c = Case { name: "supports".into(), lines: vec![format!("S supports {} {} {}", kind, k, r)], with_model: true };
            ctx.oracle_fail(format!("supports({}, {}) of {} is {} but the documented envelope says {}", k, r, kind, s, want_env), &c, None);
            return false;
        }
        if r < 65538 && k < 65538 && s != want_cap {
            let c = Case { name: "supports".into(), lines: vec![format!("S supports {} {} {}", kind, k, r)], with_model: true };
            ctx.model_fail(format!("supports({}, {}) of {} is {} but the model's staircase says {}", k, r, kind, s, want_cap), &c, None);
            return false;
        }
        true
    };
    let mut n_pairs = 0u64;
    if thorough {
        // exhaustive, parallel over k; findings collected afterwards
        let caps2 = std::sync::Arc::new(caps.clone());
        let mut handles = vec![];
        for t in 0..16usize {
            let caps = caps2.clone();
            handles.push(std::thread::spawn(move || {
                let mut bad: Vec<(String, usize, usize)> = vec![];
                for k in (t..65538).step_by(16) {
                    for (kind, ci) in [("default", 0usize), ("high", 1), ("low", 2), ("rs", 0)] {
                        let cap = caps[ci][k];
                        for r in 0..65538usize {
                            let s = supports(kind, k, r);
                            if s != (r >= 1 && r <= cap) && bad.len() < 5 {
                                bad.push((kind.to_string(), k, r));
                            }
                        }
                    }
                }
                bad
            }));
        }
        for h in handles {
            for (kind, k, r) in h.join().unwrap() {
                let ci = if kind == "high" { 1 } else if kind == "low" { 2 } else { 0 };
                check(ctx, &kind, ci, k, r);
            }
        }
        n_pairs = 4 * 65538u64 * 65538u64;
    } else {
        // band around the staircase: for every k near a power of two / corner, all r near cap[k] and near powers of two
        let mut ks: Vec<usize> = vec![];
        for e in 0..=16 {
            let p = 1usize << e;
            for d in 0..3 { ks.push(p.saturating_sub(d)); ks.push(p + d); ks.push((65536 - p).saturating_sub(d)); ks.push(65536 - p + d); }
        }
        for _ in 0..300 { ks.push(ctx.rng.below(65538)); }
        ks.sort_unstable(); ks.dedup(); ks.retain(|k| *k < 65538);
        for (kind, ci) in kinds.iter() {
            for &k in &ks {
                let cap = caps[*ci][k];
                let mut rs: Vec<usize> = vec![0, 1, 2, cap.saturating_sub(2), cap.saturating_sub(1), cap, cap + 1, cap + 2, 65535, 65536, 65537];
                for e in 0..=16 { let p = 1usize << e; rs.push(p - 1); rs.push(p); rs.push(p + 1); rs.push(65536 - p); rs.push(65537 - p); }
                rs.sort_unstable(); rs.dedup();
                for r in rs { if r < 65538 { n_pairs += 1; if !check(ctx, kind, *ci, k, r) { break; } } }
            }
            for _ in 0..2_000_000 {
                let (k, r) = (ctx.rng.below(65538), ctx.rng.below(65538));
                n_pairs += 1;
                if !check(ctx, kind, *ci, k, r) { break; }
            }
        }
    }
    // beyond 65537 and up to usize::MAX
    for (kind, ci) in kinds.iter() {
        for &a in EXTREME.iter() {
            for &b in [0usize, 1, 2, 4096, 65535, 65536].iter().chain(EXTREME.iter()) {
                n_pairs += 2;
                check(ctx, kind, *ci, a, b);
                check(ctx, kind, *ci, b, a);
            }
        }
    }
    ctx.bump("supports_pairs_checked", n_pairs as usize);
    ctx.evaluations += n_pairs as usize;

    // constructors / reset / validate agree with supports x shard size (through the protocol + model)
    let mut c = Case::new("constructors-on-the-boundary");
    let corners: Vec<(usize, usize)> = (0..=16).flat_map(|e| { let p = 1usize << e; vec![(p, 65536 - p), (65536 - p, p), (p + 1, 65536 - p), (p, 65537 - p), (65536 - p, p + 1), (65537 - p, p)] }).filter(|(k, r)| *k > 0 && *r > 0 && *k < 65538 && *r < 65538).collect();
    for &(k, r) in &corners {
        for kind in ["default", "high", "low"] {
            for sb in [0usize, 1, 2, 63, 64] {
                c.push(format!("S validate {} {} {} {}", kind, k, r, sb));
                if sb <= 2 {
                    c.push(format!("E new {} nosimd {} {} {}", kind, k, r, sb));
                    c.push(format!("D new {} nosimd {} {} {}", kind, k, r, sb));
                }
            }
            c.push(format!("S validate {} {} {} {}", kind, k, r, usize::MAX));
            c.push(format!("S validate {} {} {} {}", kind, k, r, usize::MAX - 1));
        }
    }
    // reset from a live object
    c.push("E new default nosimd 2 3 2".into());
    c.push("D new default nosimd 2 3 2".into());
    for &(k, r) in corners.iter().take(if thorough { 200 } else { 40 }) {
        for sb in [2usize, 3, 0] {
            c.push(format!("E reset {} {} {}", k, r, sb));
            c.push(format!("D reset {} {} {}", k, r, sb));
        }
    }
    c.with_model = true;
    ctx.run_cases(&[c]);

    // every corner (and inside neighbours) really works: round trip at maximum loss, implementation only
    let mut cases = vec![];
    let mut metas = vec![];
    let mut todo: Vec<(String, usize, usize)> = vec![];
    for e in 0..=15 {
        let p = 1usize << e;
        for (kind, k, r) in [("high", 65536 - p, p), ("low", p, 65536 - p), ("default", 65536 - p, p), ("default", p, 65536 - p), ("high", 65536 - p - 1, p), ("low", p, 65536 - p - 1), ("high", 65536 - p, p.saturating_sub(1).max(1)), ("low", p.saturating_sub(1).max(1), 65536 - p)] {
            if k >= 1 && r >= 1 && envelope(kind, k, r) { todo.push((kind.to_string(), k, r)); }
        }
    }
    todo.sort(); todo.dedup();
    if !thorough { let mut t2 = vec![]; for (i, t) in todo.iter().enumerate() { if i % 3 == (ctx.seed % 3) as usize || t.1.min(t.2) <= 2 { t2.push(t.clone()); } } todo = t2; }
    for (kind, k, r) in todo {
        let cfg = Cfg { kind: kind.clone(), engine: "default".into(), k, r, sb: 2 };
        let originals: Vec<Vec<u8>> = (0..k).map(|_| ctx.rng.bytes(2)).collect();
        let Some(recovery) = encode_impl(&cfg, &originals) else {
            let cs = Case::new("corner-encode");
            ctx.oracle_fail(format!("supported corner {} {}:{} does not encode", kind, k, r), &cs, None);
            continue;
        };
        let nr = r.min(k);
        let rec = ctx.rng.subset(r, nr);
        let orig = ctx.rng.subset(k, k - nr);
        let mut cs = Case::new(&format!("corner-{}-{}-{}", kind, k, r));
        cs.with_model = false;
        cs.push(cfg.new_line("D"));
        for i in &orig { cs.push(format!("D addo {} {}", i, to_hex(&originals[*i]))); }
        for j in &rec { cs.push(format!("D addr {} {}", j, to_hex(&recovery[*j]))); }
        cs.push("D decode".into());
        ctx.count("corner_kind", &kind);
        cases.push(cs);
        metas.push((originals.clone(), orig));
        // … and with EVERY shard of the code given (all 65536 of them on a corner): nothing is missing, nothing is restored
        if k + r >= 65535 && (k * 7 + r) % 3 == (ctx.seed % 3) as usize || k.min(r) == 1 {
            let mut cs = Case::new(&format!("corner-all-shards-{}-{}-{}", kind, k, r));
            cs.with_model = false;
            cs.push(cfg.new_line("D"));
            for j in 0..r { cs.push(format!("D addr {} {}", j, to_hex(&recovery[j]))); }
            for i in 0..k { cs.push(format!("D addo {} {}", i, to_hex(&originals[i]))); }
            cs.push("D decode".into());
            ctx.count("corner_kind", "all-shards-given");
            cases.push(cs);
            metas.push((originals, (0..k).collect()));
        }
    }
    let runs = ctx.run_cases(&cases);
    for ((case, run), (originals, given)) in cases.iter().zip(runs.iter()).zip(metas.iter()) {
        crate::props::c01::check_restored(ctx, case, run.answers.last().unwrap(), originals, given);
    }
    ctx.bump("corner_roundtrips", cases.len());
}
