//! C03: all engines are bit-identical, end to end and primitive by primitive.
//!
//! Direct oracle: engine vs engine on the implementation (Naive, NoSimd, Ssse3, Avx2, DefaultEngine,
//! Neon source on emulated intrinsics), restricted to contract-valid outputs (fft: the first
//! truncated_size outputs; ifft: inputs beyond truncated_size zero), plus the frame condition
//! (guard shards outside [pos, pos+size) unchanged).  Correspondence: lane 0 against the model's
//! naive / two-layer schedules.  End to end: C01-style round trips with mixed engines.

use crate::ctx::{Case, Ctx};
use crate::objs::ENGINES;
use crate::prim::*;

pub struct FftCase {
    pub inverse: bool,
    pub count: usize,
    pub len64: usize,
    pub pos: usize,
    pub size: usize,
    pub trunc: usize,
    pub delta: usize,
    pub data: Vec<[u8; 64]>,
}

pub fn gen_fft_case(ctx: &mut Ctx, max_log: usize) -> FftCase {
    let n = ctx.rng.below(max_log + 1);
    let size = 1usize << n;
    let inverse = ctx.rng.chance(1, 2);
    let pos = if ctx.rng.chance(1, 2) { 0 } else { ctx.rng.below(3) * size + if ctx.rng.chance(1, 4) { ctx.rng.below(5) } else { 0 } };
    let tail = ctx.rng.below(3);
    let count = pos + size + tail;
    let len64 = ctx.rng.range(1, 3);
    let trunc = match ctx.rng.below(5) {
        0 => size,
        1 => 1.min(size),
        2 => (size / 2 + 1).min(size),
        _ => ctx.rng.range(if inverse { 1 } else { 1 }, size),
    };
    // skew offset: aligned to the size (as the codecs use it), anything inside the table, or one
    // that makes a twiddle of some processed block the zero element (skew[i] = 65535 iff i+1 = 2^e):
    // index = r + c*dist + delta - 1 with c in {1,2,3}
    let delta = match ctx.rng.below(6) {
        0 => 0,
        1 => size * ctx.rng.range(0, (65536 / size) - 1),
        2 => 65536 - size,
        3 | 4 => {
            let l = ctx.rng.below(n.max(1));
            let dist = 1usize << l;
            let r = if size > 2 * dist { (ctx.rng.below(size / (2 * dist))) * 2 * dist } else { 0 };
            let c = ctx.rng.range(1, 3);
            let e = ctx.rng.range(0, 16);
            let target = 1usize << e;
            let want = target as isize - (r + c * dist) as isize;
            if want >= 0 && (want as usize) + size <= 65536 { want as usize } else { ctx.rng.range(0, 65536 - size) }
        }
        _ => ctx.rng.range(0, 65536 - size),
    };
    let mut data = vec![[0u8; 64]; count * len64];
    let content = ctx.rng.below(4);
    for b in data.iter_mut() {
        // content classes: random; block-sparse (zero blocks next to non-zero ones); few distinct blocks
        match content {
            1 => { if ctx.rng.chance(1, 2) { b.copy_from_slice(&ctx.rng.bytes(64)); } }
            2 => { let v = ctx.rng.below(3) as u8; *b = [v; 64]; }
            _ => b.copy_from_slice(&ctx.rng.bytes(64)),
        }
    }
    if inverse {
        for p in pos + trunc..pos + size {
            for b in 0..len64 {
                data[p * len64 + b] = [0u8; 64];
            }
        }
    }
    FftCase { inverse, count, len64, pos, size, trunc, delta, data }
}

pub fn run_fft(e: &dyn Prims, c: &FftCase) -> Vec<[u8; 64]> {
    let mut d = c.data.clone();
    if c.inverse {
        e.ifft(&mut d, c.count, c.len64, c.pos, c.size, c.trunc, c.delta);
    } else {
        e.fft(&mut d, c.count, c.len64, c.pos, c.size, c.trunc, c.delta);
    }
    d
}

pub fn describe(c: &FftCase) -> String {
    format!(
        "{} count={} len64={} pos={} size={} trunc={} delta={}",
        if c.inverse { "ifft" } else { "fft" }, c.count, c.len64, c.pos, c.size, c.trunc, c.delta
    )
}

pub fn run(ctx: &mut Ctx) {
    let thorough = ctx.thorough();
    let engines: Vec<&str> = ENGINES.iter().cloned().filter(|e| *e != "neon" || crate::neon_port::AVAILABLE).collect();
    let prims: Vec<(String, Box<dyn Prims>)> = engines.iter().map(|e| (e.to_string(), engine(e))).collect();
    let n_fft = if thorough { 40000 } else { 2500 };
    let mut model_q: Vec<String> = vec![];
    let mut model_expect: Vec<(String, Vec<u16>, Vec<bool>)> = vec![];
    for i in 0..n_fft {
        let c = gen_fft_case(ctx, if i % 50 == 0 { 12 } else { 8 });
        let outs: Vec<Vec<[u8; 64]>> = prims.iter().map(|(_, p)| run_fft(p.as_ref(), &c)).collect();
        ctx.evaluations += 1;
        ctx.distinct.insert(ctx.rng.0 ^ i as u64);
        ctx.count("primitive", if c.inverse { "ifft" } else { "fft" });
        ctx.count("log2_size", &c.size.trailing_zeros().to_string());
        ctx.count("trunc_class", if c.trunc == c.size { "full" } else if c.trunc * 2 <= c.size { "<=half" } else { ">half" });
        ctx.count("delta_class", if c.delta == 0 { "0" } else if c.delta % c.size == 0 { "aligned" } else { "unaligned" });
        let valid_hi = if c.inverse { c.size } else { c.trunc };
        let case = Case { name: format!("prim: {}", describe(&c)), lines: vec![], with_model: false };
        for (k, o) in outs.iter().enumerate() {
            // frame
            for p in (0..c.pos).chain(c.pos + c.size..c.count) {
                if o[p * c.len64..(p + 1) * c.len64] != c.data[p * c.len64..(p + 1) * c.len64] {
                    ctx.oracle_fail(format!("engine {} changed shard {} outside the transformed range: {}", prims[k].0, p, describe(&c)), &case, None);
                    break;
                }
            }
            // agreement on contract-valid outputs
            if k > 0 {
                for p in c.pos..c.pos + valid_hi {
                    if o[p * c.len64..(p + 1) * c.len64] != outs[0][p * c.len64..(p + 1) * c.len64] {
                        ctx.oracle_fail(format!("engines {} and {} differ at shard {}: {}", prims[0].0, prims[k].0, p, describe(&c)), &case, None);
                        break;
                    }
                }
            }
        }
        // correspondence on lane 0 for small cases
        if c.count <= 40 && model_q.len() < if thorough { 6000 } else { 600 } {
            let syms: Vec<String> = (0..c.count).map(|p| get_sym(&c.data[p * c.len64..(p + 1) * c.len64], 0).to_string()).collect();
            // pointwise model and transliterated sequential loops, both schedules
            for (sched, k, seq) in [("naive", 0usize, ""), ("two", 1usize, ""), ("naive", 0usize, "seq"), ("two", 1usize, "seq")] {
                model_q.push(format!("T {}{} {} {} {} {} {} {}", if c.inverse { "ifft" } else { "fft" }, seq, sched, c.pos, c.size, c.trunc, c.delta, syms.join(",")));
                let got: Vec<u16> = (0..c.count).map(|p| get_sym(&outs[k][p * c.len64..(p + 1) * c.len64], 0)).collect();
                let valid: Vec<bool> = (0..c.count).map(|p| p < c.pos || p >= c.pos + c.size || p < c.pos + valid_hi).collect();
                model_expect.push((describe(&c), got, valid));
            }
        }
    }
    // mul across engines
    let n_mul = if thorough { 20000 } else { 2000 };
    for i in 0..n_mul {
        let log_m: u16 = match i % 8 { 0 => 0, 1 => 1, 2 => 65534, 3 => 65535, _ => ctx.rng.below(65536) as u16 };
        let len = ctx.rng.range(1, 5);
        let mut x = vec![[0u8; 64]; len];
        for b in x.iter_mut() { b.copy_from_slice(&ctx.rng.bytes(64)); }
        let outs: Vec<Vec<[u8; 64]>> = prims.iter().map(|(_, p)| { let mut y = x.clone(); p.mul(&mut y, log_m); y }).collect();
        ctx.evaluations += 1;
        for k in 1..outs.len() {
            if outs[k] != outs[0] {
                let case = Case { name: format!("mul log_m={}", log_m), lines: vec![], with_model: false };
                ctx.oracle_fail(format!("engines {} and {} differ in mul with log_m={}", prims[0].0, prims[k].0, log_m), &case, None);
            }
        }
    }
    // eval_poly across engines
    let n_ep = if thorough { 400 } else { 40 };
    for i in 0..n_ep {
        let mut e = Box::new([0u16; 65536]);
        let hi = match i % 4 { 0 => 64, 1 => 4096, 2 => 65536, _ => ctx.rng.range(1, 65536) };
        let density = ctx.rng.range(1, 4);
        for j in 0..hi { if ctx.rng.below(4) < density { e[j] = 1; } }
        let trunc = match i % 3 { 0 => hi, 1 => 65536, _ => ctx.rng.range(hi, 65536) };
        let outs: Vec<Box<[u16; 65536]>> = prims.iter().map(|(_, p)| { let mut y = e.clone(); p.eval_poly(&mut y, trunc); y }).collect();
        ctx.evaluations += 1;
        ctx.count("primitive", "eval_poly");
        for k in 1..outs.len() {
            if outs[k][..] != outs[0][..] {
                let case = Case { name: format!("eval_poly hi={} trunc={}", hi, trunc), lines: vec![], with_model: false };
                ctx.oracle_fail(format!("engines {} and {} differ in eval_poly (marks below {}, truncated_size {})", prims[0].0, prims[k].0, hi, trunc), &case, None);
            }
        }
    }
    // model correspondence of the primitives (lane 0)
    match ctx.model_eval(&model_q) {
        Ok(ans) => {
            let mut garbage_equal = 0usize;
            let mut garbage_total = 0usize;
            for ((q, a), (desc, got, valid)) in model_q.iter().zip(ans.iter()).zip(model_expect.iter()) {
                let m: Vec<u16> = a.split(',').filter_map(|x| x.parse().ok()).collect();
                let case = Case { name: format!("prim-model: {}", desc), lines: vec![q.clone()], with_model: true };
                if m.len() != got.len() {
                    ctx.model_fail(format!("model answered {} symbols for {}", m.len(), desc), &case, None);
                    continue;
                }
                for p in 0..m.len() {
                    if valid[p] {
                        if m[p] != got[p] {
                            ctx.model_fail(format!("lane 0 of shard {} differs between model and implementation: {}", p, desc), &case, None);
                            break;
                        }
                    } else {
                        garbage_total += 1;
                        if m[p] == got[p] { garbage_equal += 1; }
                    }
                }
            }
            ctx.notes.push(format!("garbage-region symbols (not judged): {} of {} equal between model schedule and implementation", garbage_equal, garbage_total));
        }
        Err(e) => { let c = Case::new("prim-model"); ctx.model_fail(e, &c, None); }
    }
    // end to end with mixed engines: reuse the C01 generator at a smaller scale
    let save = ctx.tier.clone();
    ctx.tier = if thorough { "quick".into() } else { "mini".into() };
    crate::props::c01::run_scaled(ctx, if thorough { 600 } else { 120 }, if thorough { 40 } else { 10 }, false);
    ctx.tier = save;
}
