//! C03: all engines are bit-identical, end to end and primitive by primitive.
//!
//! Direct oracle: engine vs engine on the implementation (Naive, NoSimd, Ssse3, Avx2, DefaultEngine,
//! Neon source on emulated intrinsics), restricted to contract-valid outputs (fft: the first
//! truncated_size outputs; ifft: inputs beyond truncated_size zero), plus the frame condition
//! (guard shards outside [pos, pos+size) unchanged).  Correspondence: lane 0 against the model's
//! naive / two-layer schedules.  End to end: C01-style round trips with mixed engines.

use crate::ctx::{Case, Ctx};
use crate::objs::ENGINES;
use crate::prim::*;

pub struct FftCase {
    pub inverse: bool,
    pub count: usize,
    pub len64: usize,
    pub pos: usize,
    pub size: usize,
    pub trunc: usize,
    pub delta: usize,
    pub data: Vec<[u8; 64]>,
}

pub fn gen_fft_case(ctx: &mut Ctx, max_log: usize) -> FftCase {
    gen_fft_case_len(ctx, max_log, false)
}

/// `wide`: shards of 4 .. 9 blocks (block loops of the kernels with every remainder) on smaller transforms
pub fn gen_fft_case_len(ctx: &mut Ctx, max_log: usize, wide: bool) -> FftCase {
    let max_log = if wide { max_log.min(6) } else { max_log };
    let n = ctx.rng.below(max_log + 1);
    let size = 1usize << n;
    let inverse = ctx.rng.chance(1, 2);
    let pos = if ctx.rng.chance(1, 2) { 0 } else { ctx.rng.below(3) * size + if ctx.rng.chance(1, 4) { ctx.rng.below(5) } else { 0 } };
    let tail = ctx.rng.below(3);
    let count = pos + size + tail;
    // wide: 4 .. 9 blocks, one time in six 64 .. 66 blocks (4 KiB and more per shard)
    let len64 = if wide { if ctx.rng.chance(1, 6) { ctx.rng.range(64, 66) } else { ctx.rng.range(4, 9) } } else { ctx.rng.range(1, 3) };
    let trunc = match ctx.rng.below(5) {
        0 => size,
        1 => 1.min(size),
        2 => (size / 2 + 1).min(size),
        _ => ctx.rng.range(if inverse { 1 } else { 1 }, size),
    };
    // skew offset: aligned to the size (as the codecs use it), anything inside the table, or one
    // that makes a twiddle of some processed block the zero element (skew[i] = 65535 iff i+1 = 2^e):
    // index = r + c*dist + delta - 1 with c in {1,2,3}
    let delta = match ctx.rng.below(6) {
        0 => 0,
        1 => size * ctx.rng.range(0, (65536 / size) - 1),
        2 => 65536 - size,
        3 | 4 => {
            let l = ctx.rng.below(n.max(1));
            let dist = 1usize << l;
            let r = if size > 2 * dist { (ctx.rng.below(size / (2 * dist))) * 2 * dist } else { 0 };
            let c = ctx.rng.range(1, 3);
            let e = ctx.rng.range(0, 16);
            let target = 1usize << e;
            let want = target as isize - (r + c * dist) as isize;
            if want >= 0 && (want as usize) + size <= 65536 { want as usize } else { ctx.rng.range(0, 65536 - size) }
        }
        _ => ctx.rng.range(0, 65536 - size),
    };
    let mut data = vec![[0u8; 64]; count * len64];
    let content = ctx.rng.below(4);
    for b in data.iter_mut() {
        // content classes: random; block-sparse (zero blocks next to non-zero ones); few distinct blocks
        match content {
            1 => { if ctx.rng.chance(1, 2) { b.copy_from_slice(&ctx.rng.bytes(64)); } }
            2 => { let v = ctx.rng.below(3) as u8; *b = [v; 64]; }
            _ => b.copy_from_slice(&ctx.rng.bytes(64)),
        }
    }
    if inverse {
        for p in pos + trunc..pos + size {
            for b in 0..len64 {
                data[p * len64 + b] = [0u8; 64];
            }
        }
    }
    FftCase { inverse, count, len64, pos, size, trunc, delta, data }
}

thread_local! {
    /// descriptions of transform calls that panicked inside the crate (reported by the callers' checks)
    pub static PANICS: std::cell::RefCell<Vec<String>> = const { std::cell::RefCell::new(Vec::new()) };
}

/// runs one transform; a panic inside the crate is recorded and the input is returned unchanged with
/// its first byte flipped (so that every comparison that follows fails and names the case)
pub fn run_fft(e: &dyn Prims, c: &FftCase) -> Vec<[u8; 64]> {
    let mut d = c.data.clone();
    let r = std::panic::catch_unwind(std::panic::AssertUnwindSafe(|| {
        if c.inverse {
            e.ifft(&mut d, c.count, c.len64, c.pos, c.size, c.trunc, c.delta);
        } else {
            e.fft(&mut d, c.count, c.len64, c.pos, c.size, c.trunc, c.delta);
        }
    }));
    if r.is_err() {
        PANICS.with(|p| p.borrow_mut().push(describe(c)));
        let mut x = c.data.clone();
        if let Some(b) = x.get_mut(c.pos * c.len64) { b[0] ^= 0xff; }
        return x;
    }
    d
}

pub fn describe(c: &FftCase) -> String {
    format!(
        "{} count={} len64={} pos={} size={} trunc={} delta={}",
        if c.inverse { "ifft" } else { "fft" }, c.count, c.len64, c.pos, c.size, c.trunc, c.delta
    )
}

pub fn run(ctx: &mut Ctx) {
    let thorough = ctx.thorough();
    let engines: Vec<&str> = ENGINES.iter().cloned().filter(|e| *e != "neon" || crate::neon_port::AVAILABLE).collect();
    let prims: Vec<(String, Box<dyn Prims>)> = engines.iter().map(|e| (e.to_string(), engine(e))).collect();
    let n_fft = if thorough { 40000 } else { 2500 };
    let mut model_q: Vec<String> = vec![];
    let mut model_expect: Vec<(String, Vec<u16>, Vec<bool>)> = vec![];
    let mut src_q: Vec<String> = vec![];
    let mut src_expect: Vec<(String, Vec<u16>, Vec<bool>)> = vec![];
    for i in 0..n_fft {
        let c = gen_fft_case_len(ctx, if i % 50 == 0 { 12 } else { 8 }, i % 50 != 0 && i % 5 == 3);
        ctx.count("blocks_per_shard", &c.len64.to_string());
        let outs: Vec<Vec<[u8; 64]>> = prims.iter().map(|(_, p)| run_fft(p.as_ref(), &c)).collect();
        ctx.evaluations += 1;
        ctx.distinct.insert(ctx.rng.0 ^ i as u64);
        ctx.count("primitive", if c.inverse { "ifft" } else { "fft" });
        ctx.count("log2_size", &c.size.trailing_zeros().to_string());
        ctx.count("trunc_class", if c.trunc == c.size { "full" } else if c.trunc * 2 <= c.size { "<=half" } else { ">half" });
        ctx.count("delta_class", if c.delta == 0 { "0" } else if c.delta % c.size == 0 { "aligned" } else { "unaligned" });
        let valid_hi = if c.inverse { c.size } else { c.trunc };
        let case = Case { name: format!("prim: {}", describe(&c)), lines: vec![], with_model: false };
        for (k, o) in outs.iter().enumerate() {
            // frame
            for p in (0..c.pos).chain(c.pos + c.size..c.count) {
                if o[p * c.len64..(p + 1) * c.len64] != c.data[p * c.len64..(p + 1) * c.len64] {
                    ctx.oracle_fail(format!("engine {} changed shard {} outside the transformed range: {}", prims[k].0, p, describe(&c)), &case, None);
                    break;
                }
            }
            // agreement on contract-valid outputs
            if k > 0 {
                for p in c.pos..c.pos + valid_hi {
                    if o[p * c.len64..(p + 1) * c.len64] != outs[0][p * c.len64..(p + 1) * c.len64] {
                        ctx.oracle_fail(format!("engines {} and {} differ at shard {}: {}", prims[0].0, prims[k].0, p, describe(&c)), &case, None);
                        break;
                    }
                }
            }
        }
        // correspondence on lane 0 for small cases
        if c.count <= 40 && model_q.len() < if thorough { 6000 } else { 600 } {
            let syms: Vec<String> = (0..c.count).map(|p| get_sym(&c.data[p * c.len64..(p + 1) * c.len64], 0).to_string()).collect();
            // the loop nests as translated from today's source (srcengine), one query per engine family
            for (k, (ename, _)) in prims.iter().enumerate() {
                if ["naive", "nosimd", "ssse3", "avx2"].contains(&ename.as_str()) && src_q.len() < if thorough { 8000 } else { 800 } {
                    src_q.push(format!("G {} {} {} {} {} {} {}", ename, if c.inverse { "ifft" } else { "fft" }, c.pos, c.size, c.trunc, c.delta, syms.join(",")));
                    let got: Vec<u16> = (0..c.count).map(|p| get_sym(&outs[k][p * c.len64..(p + 1) * c.len64], 0)).collect();
                    let valid: Vec<bool> = (0..c.count).map(|p| p < c.pos || p >= c.pos + c.size || p < c.pos + valid_hi).collect();
                    src_expect.push((format!("{} {}", ename, describe(&c)), got, valid));
                }
            }
            // pointwise model and transliterated sequential loops, both schedules
            for (sched, k, seq) in [("naive", 0usize, ""), ("two", 1usize, ""), ("naive", 0usize, "seq"), ("two", 1usize, "seq")] {
                model_q.push(format!("T {}{} {} {} {} {} {} {}", if c.inverse { "ifft" } else { "fft" }, seq, sched, c.pos, c.size, c.trunc, c.delta, syms.join(",")));
                let got: Vec<u16> = (0..c.count).map(|p| get_sym(&outs[k][p * c.len64..(p + 1) * c.len64], 0)).collect();
                let valid: Vec<bool> = (0..c.count).map(|p| p < c.pos || p >= c.pos + c.size || p < c.pos + valid_hi).collect();
                model_expect.push((describe(&c), got, valid));
            }
        }
    }
    // mul across engines
    let n_mul = if thorough { 20000 } else { 2000 };
    for i in 0..n_mul {
        let log_m: u16 = match i % 8 { 0 => 0, 1 => 1, 2 => 65534, 3 => 65535, _ => ctx.rng.below(65536) as u16 };
        let len = ctx.rng.range(1, 5);
        let mut x = vec![[0u8; 64]; len];
        for b in x.iter_mut() { *b = if i % 2 == 0 { structured_block(ctx) } else { let mut r = [0u8; 64]; r.copy_from_slice(&ctx.rng.bytes(64)); r }; }
        let outs: Vec<Vec<[u8; 64]>> = prims.iter().map(|(_, p)| { let mut y = x.clone(); p.mul(&mut y, log_m); y }).collect();
        ctx.evaluations += 1;
        for k in 1..outs.len() {
            if outs[k] != outs[0] {
                let case = Case { name: format!("mul log_m={}", log_m), lines: vec![], with_model: false };
                ctx.oracle_fail(format!("engines {} and {} differ in mul with log_m={}", prims[0].0, prims[k].0, log_m), &case, None);
            }
        }
    }
    // eval_poly across engines
    let n_ep = if thorough { 400 } else { 40 };
    for i in 0..n_ep {
        let mut e = Box::new([0u16; 65536]);
        let hi = match i % 4 { 0 => 64, 1 => 4096, 2 => 65536, _ => ctx.rng.range(1, 65536) };
        let density = ctx.rng.range(1, 4);
        for j in 0..hi { if ctx.rng.below(4) < density { e[j] = 1; } }
        let trunc = match i % 3 { 0 => hi, 1 => 65536, _ => ctx.rng.range(hi, 65536) };
        let outs: Vec<Box<[u16; 65536]>> = prims.iter().map(|(_, p)| { let mut y = e.clone(); p.eval_poly(&mut y, trunc); y }).collect();
        ctx.evaluations += 1;
        ctx.count("primitive", "eval_poly");
        for k in 1..outs.len() {
            if outs[k][..] != outs[0][..] {
                let case = Case { name: format!("eval_poly hi={} trunc={}", hi, trunc), lines: vec![], with_model: false };
                ctx.oracle_fail(format!("engines {} and {} differ in eval_poly (marks below {}, truncated_size {})", prims[0].0, prims[k].0, hi, trunc), &case, None);
            }
        }
    }
    // translated engine loops (lane 0): validation of rs2lean_engine.py against the implementation
    {
        let exe = std::path::Path::new(&ctx.model_path).with_file_name("srcengine");
        if !exe.exists() {
            ctx.unavailable.push("srcengine not built: the translated engine loops were not run against the implementation".into());
        } else {
            let path = exe.to_string_lossy().to_string();
            let chunks: Vec<Vec<String>> = src_q.chunks((src_q.len() + 13) / 14).map(|c| c.to_vec()).collect();
            let handles: Vec<_> = chunks.into_iter().map(|c| { let p = path.clone(); std::thread::spawn(move || crate::ctx::model_eval_at(&p, &c)) }).collect();
            let mut ans: Vec<String> = vec![];
            let mut failed = false;
            for h in handles {
                match h.join().unwrap() {
                    Ok(a) => ans.extend(a),
                    Err(e) => { let c = Case::new("src-engine-tie"); ctx.model_fail(format!("srcengine could not be run: {}", e), &c, None); failed = true; break; }
                }
            }
            if !failed {
                let mut bad = 0;
                for ((q, a), (desc, got, valid)) in src_q.iter().zip(ans.iter()).zip(src_expect.iter()) {
                    let m: Vec<u16> = a.trim_start_matches("ok ").split(',').filter_map(|x| x.parse().ok()).collect();
                    let ok = a.starts_with("ok ") && m.len() == got.len() && (0..m.len()).all(|p| !valid[p] || m[p] == got[p]);
                    if !ok {
                        bad += 1;
                        if bad <= 5 {
                            let case = Case { name: format!("src-engine: {}", desc), lines: vec![q.clone()], with_model: false };
                            ctx.model_fail(format!("translated engine loop disagrees with the implementation on a contract-valid output: {} -> `{}`", desc, crate::ctx::short(a)), &case, None);
                        }
                    }
                }
                ctx.bump("translated_engine_loops_vs_implementation", src_q.len());
                ctx.model_lines += src_q.len();
            }
        }
    }
    // model correspondence of the primitives (lane 0)
    match ctx.model_eval(&model_q) {
        Ok(ans) => {
            let mut garbage_equal = 0usize;
            let mut garbage_total = 0usize;
            for ((q, a), (desc, got, valid)) in model_q.iter().zip(ans.iter()).zip(model_expect.iter()) {
                let m: Vec<u16> = a.split(',').filter_map(|x| x.parse().ok()).collect();
                let case = Case { name: format!("prim-model: {}", desc), lines: vec![q.clone()], with_model: true };
                if m.len() != got.len() {
                    ctx.model_fail(format!("model answered {} symbols for {}", m.len(), desc), &case, None);
                    continue;
                }
                for p in 0..m.len() {
                    if valid[p] {
                        if m[p] != got[p] {
                            ctx.model_fail(format!("lane 0 of shard {} differs between model and implementation: {}", p, desc), &case, None);
                            break;
                        }
                    } else {
                        garbage_total += 1;
                        if m[p] == got[p] { garbage_equal += 1; }
                    }
                }
            }
            ctx.notes.push(format!("garbage-region symbols (not judged): {} of {} equal between model schedule and implementation", garbage_equal, garbage_total));
        }
        Err(e) => { let c = Case::new("prim-model"); ctx.model_fail(e, &c, None); }
    }
    let panics: Vec<String> = PANICS.with(|p| p.borrow_mut().drain(..).collect());
    for d in panics.iter().take(20) {
        let case = Case { name: format!("prim-panic: {}", d), lines: vec![], with_model: false };
        ctx.oracle_fail(format!("a transform primitive panicked inside the crate on a contract-valid call: {}", d), &case, None);
    }
    block_ties(ctx, &prims);
    env_children(ctx, thorough);
    // transforms on shards of more than half a megabyte (working set beyond 8 MiB): every engine, full truncation, so every
    // output is contract-valid and the whole memory must be identical (a size-dependent change of algorithm shows here)
    for n in 0..(if thorough { 6 } else { 2 }) {
        let size = if n % 2 == 0 { 16usize } else { 32 };
        let len64 = 8192 / (size / 16) + ctx.rng.range(1, 40);
        let inverse = n % 4 >= 2;
        let delta = size * ctx.rng.range(0, 4095 / (size / 16));
        let mut data = vec![[0u8; 64]; (size + 1) * len64];
        for b in data.iter_mut() { b.copy_from_slice(&ctx.rng.bytes(64)); }
        let c = FftCase { inverse, count: size + 1, len64, pos: 0, size, trunc: size, delta, data };
        let outs: Vec<Vec<[u8; 64]>> = prims.iter().map(|(_, p)| run_fft(p.as_ref(), &c)).collect();
        ctx.evaluations += 1;
        ctx.count("primitive", "huge-shard transform");
        for k in 1..outs.len() {
            if outs[k] != outs[0] {
                let case = Case { name: format!("huge: {}", describe(&c)), lines: vec![], with_model: false };
                ctx.oracle_fail(format!("engines {} and {} differ on shards of {} blocks: {}", prims[0].0, prims[k].0, len64, describe(&c)), &case, None);
            }
        }
    }
    // end to end with mixed engines: reuse the C01 generator at a smaller scale
    let save = ctx.tier.clone();
    ctx.tier = if thorough { "quick".into() } else { "mini".into() };
    crate::props::c01::run_scaled(ctx, if thorough { 600 } else { 120 }, if thorough { 40 } else { 10 }, false);
    ctx.tier = save;
}

fn hex(b: &[[u8; 64]]) -> String {
    crate::objs::to_hex(&b.iter().flat_map(|x| x.iter().cloned()).collect::<Vec<u8>>())
}

fn structured_block(ctx: &mut Ctx) -> [u8; 64] {
    let mut b = [0u8; 64];
    b.copy_from_slice(&ctx.rng.bytes(64));
    match ctx.rng.below(6) {
        0 => b = [0u8; 64],
        1 => {
            // 16-byte fields zero
            let mask = ctx.rng.below(16);
            for (j, x) in b.iter_mut().enumerate() { if mask >> (j / 16) & 1 == 1 { *x = 0; } }
        }
        2 => { let v = ctx.rng.below(256) as u8; b = [v; 64]; }
        3 => { for x in b.iter_mut().skip(32) { *x = 0; } }
        _ => {}
    }
    b
}

/// Ties of the block-level and flat-memory models (Model/SimdBlock.lean, Model/Flat.lean) to the code:
/// per engine family, `mul` on one block and a size-2 fft / ifft on one block pair against the
/// transliterated kernel of THAT family; size-2 transforms on multi-block flat memory against
/// `Flat.fftBfly` / `ifftBfly`; which blocks the accessors of `ShardsRefMut` expose and when they panic.
fn block_ties(ctx: &mut Ctx, prims: &[(String, Box<dyn Prims>)]) {
    use reed_solomon_simd::engine::ShardsRefMut;
    let thorough = ctx.thorough();
    let mut q: Vec<String> = vec![];
    let mut want: Vec<String> = vec![];
    let fams: Vec<&(String, Box<dyn Prims>)> = prims.iter().filter(|(n, _)| ["nosimd", "ssse3", "avx2", "neon"].contains(&n.as_str())).collect();
    let n_k = if thorough { 4000 } else { 300 };
    for i in 0..n_k {
        let (name, p) = fams[i % fams.len()];
        // multiply
        let m: u16 = match ctx.rng.below(8) { 0 => 0, 1 => 1, 2 => 65534, 3 => 65535, _ => ctx.rng.below(65536) as u16 };
        let x = structured_block(ctx);
        let mut y = vec![x];
        p.mul(&mut y, m);
        q.push(format!("T kmul {} {} {}", name, m, hex(&[x])));
        want.push(hex(&y));
        // size-2 transform on one block pair
        let inverse = ctx.rng.chance(1, 2);
        let delta = match ctx.rng.below(4) { 0 => (1usize << ctx.rng.range(0, 15)) - 0, 1 => 0, _ => ctx.rng.below(65535) };
        let (a, b) = (structured_block(ctx), structured_block(ctx));
        let mut d = vec![a, b];
        if inverse { p.ifft(&mut d, 2, 1, 0, 2, 2, delta); } else { p.fft(&mut d, 2, 1, 0, 2, 2, delta); }
        q.push(format!("T kbfly {} {} {} {} {}", name, if inverse { "ifft" } else { "fft" }, delta, hex(&[a]), hex(&[b])));
        want.push(format!("{} {}", hex(&d[0..1]), hex(&d[1..2])));
        ctx.count("block_tie", "kernel");
    }
    // flat memory: size-2 transform somewhere inside count x len64 blocks
    let n_f = if thorough { 2000 } else { 200 };
    for i in 0..n_f {
        let (_, p) = &prims[i % prims.len()];
        let len64 = ctx.rng.range(1, 4);
        let count = ctx.rng.range(2, 6);
        let pos = ctx.rng.below(count - 1);
        let delta = if ctx.rng.chance(1, 4) { (1usize << ctx.rng.range(0, 15)).saturating_sub(pos).min(65534) } else { ctx.rng.below(65534 - pos) };
        let data: Vec<[u8; 64]> = (0..count * len64).map(|_| structured_block(ctx)).collect();
        let inverse = ctx.rng.chance(1, 2);
        let mut d = data.clone();
        if inverse { p.ifft(&mut d, count, len64, pos, 2, 2, delta + pos); } else { p.fft(&mut d, count, len64, pos, 2, 2, delta + pos); }
        // skew index of the only butterfly: r + dist + skew_delta - 1 with r = 0, dist = 1
        q.push(format!("T flatbfly {} {} {} {} {} {}", if inverse { "ifft" } else { "fft" }, count, len64, pos, delta + pos, hex(&data)));
        want.push(hex(&d));
        ctx.count("block_tie", "flat-butterfly");
    }
    // accessors: exposed blocks and panics
    let n_v = if thorough { 6000 } else { 600 };
    for _ in 0..n_v {
        let len64 = ctx.rng.range(1, 3);
        let count = ctx.rng.range(1, 9);
        let a = ctx.rng.below(count + 3);
        let b = ctx.rng.below(count + 3);
        let op = *ctx.rng.pick(&["index", "dist2", "dist4", "zero", "zerofrom", "split"]);
        let mut data: Vec<[u8; 64]> = (0..count * len64).map(|j| [(j % 251) as u8; 64]).collect();
        let show = |v: &[[u8; 64]]| v.iter().map(|x| x[0].to_string()).collect::<Vec<_>>().join(",");
        let r = std::panic::catch_unwind(std::panic::AssertUnwindSafe(|| {
            let mut s = ShardsRefMut::new(count, len64, &mut data);
            match op {
                "index" => show(&s[a]),
                "dist2" => { let (x, y) = s.dist2_mut(a, b); format!("{};{}", show(x), show(y)) }
                "dist4" => { let (x, y, z, w) = s.dist4_mut(a, b); format!("{};{};{};{}", show(x), show(y), show(z), show(w)) }
                "zero" => { s.zero(a..b); drop(s); String::new() }
                "zerofrom" => { s.zero(a..); drop(s); String::new() }
                _ => {
                    let (l, r) = s.split_at_mut(a);
                    let (lc, rc) = (l.len(), r.len());
                    let lv: Vec<String> = (0..lc).map(|i| show(&l[i])).filter(|x| !x.is_empty()).collect();
                    let rv: Vec<String> = (0..rc).map(|i| show(&r[i])).filter(|x| !x.is_empty()).collect();
                    format!("{}:{};{}:{}", lc, lv.join(","), rc, rv.join(","))
                }
            }
        }));
        let ans = match r {
            Ok(sv) if op == "zero" || op == "zerofrom" => { let _ = sv; show(&data) }
            Ok(sv) => sv,
            Err(_) => "panic".to_string(),
        };
        q.push(format!("T flatview {} {} {} {} {}", op, count, len64, a, b));
        want.push(ans);
        ctx.count("block_tie", op);
    }
    // whole transforms on multi-block flat memory: engine family vs its transliterated loop nest
    // (contract-valid region + frame only: both are compared after masking the garbage region)
    let n_t = if thorough { 1500 } else { 150 };
    let mut masks: Vec<Option<Vec<bool>>> = want.iter().map(|_| None).collect();
    for i in 0..n_t {
        let c = gen_fft_case(ctx, 5);
        let (name, p) = &prims[i % prims.len()];
        if name == "default" { continue; }
        let sched = if name == "naive" { "naive" } else { "two" };
        let out = run_fft(p.as_ref(), &c);
        let valid_hi = if c.inverse { c.size } else { c.trunc };
        // block-level validity mask
        let mask: Vec<bool> = (0..c.count * c.len64).map(|b| { let sh = b / c.len64; sh < c.pos || sh >= c.pos + c.size || sh < c.pos + valid_hi }).collect();
        q.push(format!("T flatfft {} {} {} {} {} {} {} {} {}", sched, if c.inverse { "ifft" } else { "fft" }, c.count, c.len64, c.pos, c.size, c.trunc, c.delta, hex(&c.data)));
        want.push(hex(&out));
        masks.push(Some(mask));
        ctx.count("block_tie", "flat-transform");
    }
    // whole encoders: dedicated encoders of the implementation (shard size a multiple of 64, so that the
    // exposed bytes are the blocks) vs the encode body on flat memory, stale memory zero in the model
    let n_e = if thorough { 600 } else { 80 };
    for i in 0..n_e {
        let kind = if i % 2 == 0 { "high" } else { "low" };
        let (_, k, r) = crate::gen::gen_counts(&mut ctx.rng, 32, &[kind]);
        let len64 = ctx.rng.range(1, 2);
        let engine = *ctx.rng.pick(&["naive", "nosimd", "avx2", "ssse3"]);
        let cfg = crate::gen::Cfg { kind: kind.into(), engine: engine.into(), k, r, sb: 64 * len64 };
        let originals: Vec<Vec<u8>> = (0..k).map(|_| ctx.rng.bytes(64 * len64)).collect();
        let Some(rec) = crate::gen::encode_impl(&cfg, &originals) else { continue };
        let wc = if kind == "high" { k.next_multiple_of(crate::gen::npow2(r)) } else { r.next_multiple_of(crate::gen::npow2(k)) };
        let mut mem: Vec<u8> = originals.iter().flat_map(|o| o.iter().cloned()).collect();
        mem.resize(wc * 64 * len64, 0);
        q.push(format!("T flatenc {} {} {} {} {} {}", if engine == "naive" { "naive" } else { "two" }, kind, k, r, len64, crate::objs::to_hex(&mem)));
        want.push(crate::objs::to_hex(&rec.iter().flat_map(|x| x.iter().cloned()).collect::<Vec<u8>>()));
        masks.push(None);
        ctx.count("block_tie", "flat-encoder");
    }
    match ctx.model_eval(&q) {
        Ok(ans) => {
            for (((l, a), w), m) in q.iter().zip(ans.iter()).zip(want.iter()).zip(masks.iter()) {
                let equal = match m {
                    None => a == w,
                    Some(mask) => a.len() == w.len() && mask.iter().enumerate().all(|(b, v)| !*v || a[b * 128..(b + 1) * 128] == w[b * 128..(b + 1) * 128]),
                };
                if !equal {
                    let case = Case { name: "block-tie".into(), lines: vec![l.clone()], with_model: true };
                    ctx.model_fail(format!("block-level model answers `{}` but the implementation gives `{}` for `{}`", crate::ctx::short(a), crate::ctx::short(w), crate::ctx::short(l)), &case, None);
                }
            }
        }
        Err(e) => { let c = Case::new("block-tie"); ctx.model_fail(e, &c, None); }
    }
    ctx.bump("block_level_model_lines", q.len());
}

/// engines compared in child processes that may use only 1, 3, 5, … CPUs (anything derived from
/// `available_parallelism()` while the tables are built is exercised away from this machine's CPU count)
pub fn env_children(ctx: &mut Ctx, thorough: bool) {
    for n in crate::props::envchild::counts(thorough) {
        ctx.evaluations += 1;
        ctx.count("env_child_cpus", &n.to_string());
        let case = Case { name: format!("env-child {}", n), lines: vec![format!("rsharness env-child {}", n)], with_model: false };
        match crate::props::c16::run_child(&["env-child".into(), n.to_string()], std::time::Duration::from_secs(300)) {
            Ok(t) if t.starts_with("OK") => {}
            Ok(t) if t.starts_with("SKIP") => ctx.notes.push(format!("env-child {}: {}", n, t)),
            Ok(t) => ctx.oracle_fail(format!("child restricted to {} CPUs: {}", n, t), &case, None),
            Err(e) => ctx.oracle_fail(format!("child restricted to {} CPUs: {}", n, e.chars().take(400).collect::<String>()), &case, None),
        }
    }
}
