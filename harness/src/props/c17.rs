//! C17: working space is reused in place; rounds and non-growing resets never allocate.
//!
//! Direct oracle: a counting global allocator (thread-local, tables warm, no I/O inside measured
//! regions).  Rule: the implementation may allocate shard-proportional memory (>= half the shard
//! memory of the configuration, resp. >= half the bitmap) inside a call only if the configuration
//! needs more than the object holds; the "holds" bookkeeping is the Lean model's
//! (`heldBlocks` / `allocs`, queried with `E allocs` / `D allocs`) and, independently, the harness's.

use crate::alloc;
use crate::ctx::{Case, Ctx};
use crate::gen::*;
use crate::objs::{Ans, Session};
use crate::seqgen::*;

fn blocks(cfg: &Cfg, enc: bool) -> usize {
    let high = match cfg.kind.as_str() { "high" => true, "low" => false, _ => rule_is_high(cfg.k, cfg.r) };
    let wc = if enc {
        if high { cfg.k.next_multiple_of(npow2(cfg.r)) } else { cfg.r.next_multiple_of(npow2(cfg.k)) }
    } else {
        dec_work(&cfg.kind, cfg.k, cfg.r)
    };
    wc * cfg.sb.div_ceil(64)
}

pub fn run(ctx: &mut Ctx) {
    let n = if ctx.thorough() { 2500 } else { 240 };
    // warm all tables and engines so that their one-time allocations are out of the way
    for e in crate::objs::ENGINES { let _ = crate::prim::engine(e); }
    let _ = &*reed_solomon_simd::engine::tables::LOG_WALSH;
    // every allocation inside a library call counts (the index bitmap is a few hundred bytes)
    let threshold = 1;
    let mut model_cases = vec![];
    let mut impl_events: Vec<Vec<(usize, bool, String)>> = vec![];
    for i in 0..n {
        // configurations with a sizeable work space so that incidental allocations are far smaller
        let o = HistOpts { p_fail: 120, rounds: 3 + ctx.rng.below(5), max_work: *ctx.rng.pick(&[32usize, 64, 128]), sizes: vec![1024, 2048, 1026, 4096], extreme_args: false, kinds: vec!["high", "low", "default"], engines: vec!["nosimd", "avx2", "default", "ssse3"], ..Default::default() };
        let enc = i % 2 == 0;
        let h = if enc { enc_history(&mut ctx.rng, &o) } else { dec_history(&mut ctx.rng, &o) };
        let obj = if enc { "E" } else { "D" };
        let mut s = Session::new();
        let mut held = 0usize; // blocks held according to the harness's own bookkeeping
        let mut bit_held = 0usize;
        let mut mlines = vec![];
        let mut events = vec![];
        let mut case = Case::new(&format!("alloc-hist-{}", i));
        crate::alloc::enable(threshold);
        for round in &h {
            for hl in round.setup.iter().chain(round.body.iter()) {
                let l = &hl.line;
                let is_cfg = l.contains(" new ") || l.contains(" renew ") || l.contains(" reset ");
                let (need_blocks, need_bits) = if is_cfg && !hl.expect_fail {
                    let t: Vec<&str> = l.split(' ').collect();
                    let (kind, k, r, sb): (String, usize, usize, usize) = if t[1] == "reset" { (round.cfg.kind.clone(), t[2].parse().unwrap_or(0), t[3].parse().unwrap_or(0), t[4].parse().unwrap_or(0)) } else { (t[2].to_string(), t[4].parse().unwrap_or(0), t[5].parse().unwrap_or(0), t[6].parse().unwrap_or(0)) };
                    let c = Cfg { kind, engine: String::new(), k, r, sb };
                    // bitmap need: highest received position of the layout
                    let high = match c.kind.as_str() { "high" => true, "low" => false, _ => rule_is_high(k, r) };
                    (blocks(&c, enc), if enc { 0 } else if high { npow2(r) + k } else { npow2(k) + r })
                } else { (0, 0) };
                if l.contains(" new ") { held = 0; bit_held = 0; }
                let _ = crate::alloc::take();
                let (a, _) = s.exec(l);
                let (cnt, largest) = crate::alloc::take();
                let ok = matches!(a, Ans::Ok(_));
                let grows = is_cfg && ok && (need_blocks > held || need_bits > bit_held);
                if is_cfg && ok { held = held.max(need_blocks); bit_held = bit_held.max(need_bits); }
                // once working space is held, a call that does not need more must not allocate at all
                // (shard memory and index bitmap alike)
                let big = cnt > 0;
                if big && !grows {
                    ctx.oracle_fail(
                        format!("`{}` allocated inside the library ({} allocation(s), largest {} bytes) although the object already holds enough working space ({} blocks / {} bitmap positions held, {} / {} needed by this call)", crate::ctx::short(l), cnt, largest, held, bit_held, need_blocks, need_bits),
                        &case, Some(case.lines.len()));
                }
                if is_cfg {
                    ctx.count("measured_op", if grows { "config-growing" } else if ok { "config-non-growing" } else { "config-failed" });
                    mlines.push(l.clone());
                    mlines.push(format!("{} allocs", obj));
                    events.push((mlines.len() - 2, big, l.clone()));
                } else {
                    ctx.count("measured_op", if big { "round-op-with-big-alloc" } else { "round-op-clean" });
                }
                case.push(l.clone());
            }
        }
        crate::alloc::enable(0);
        ctx.evaluations += 1;
        ctx.distinct.insert(ctx.rng.0);
        if i < 2 {
            let mut j = crate::json::J::obj();
            j.set("configuration_calls", crate::json::J::strs(&mlines.iter().filter(|l| !l.ends_with("allocs")).cloned().collect::<Vec<_>>()));
            ctx.sample(j);
        }
        // the model only gets the configuration calls: adds / encode / decode provably leave its
        // allocation counters unchanged (Encoder.add_alloc, encode_alloc, Decoder.*_alloc)
        let mut mc = Case::new(&format!("alloc-model-{}", i));
        mc.lines = mlines;
        model_cases.push(mc);
        impl_events.push(events);
    }
    let mut groups: Vec<Vec<String>> = vec![vec![]; 14];
    for (i, c) in model_cases.iter().enumerate() { let g = &mut groups[i % 14]; g.push("Z".into()); g.extend(c.lines.iter().cloned()); }
    let mp = ctx.model_path.clone();
    let handles: Vec<_> = groups.into_iter().map(|g| { let mp = mp.clone(); std::thread::spawn(move || if g.is_empty() { Ok(vec![]) } else { crate::ctx::model_eval_at(&mp, &g) }) }).collect();
    let mut outs: Vec<Vec<String>> = vec![];
    for h in handles { match h.join().unwrap() { Ok(o) => outs.push(o), Err(e) => { let d = Case::new("alloc-model"); ctx.model_fail(e, &d, None); return; } } }
    let mut cursor = vec![0usize; 14];
    let parse = |s: &str| -> Option<(usize, usize)> {
        if !s.starts_with("a=") { return None; }
        let mut a = 0; let mut b = 0;
        for t in s.split(' ') { if let Some(v) = t.strip_prefix("a=") { a = v.parse().unwrap_or(0); } if let Some(v) = t.strip_prefix("b=") { b = v.parse().unwrap_or(0); } }
        Some((a, b))
    };
    for (i, (c, ev)) in model_cases.iter().zip(impl_events.iter()).enumerate() {
        let g = i % 14;
        let base = cursor[g] + 1;
        cursor[g] += 1 + c.lines.len();
        let ans = &outs[g][base..base + c.lines.len()];
        let mut prev: Option<(usize, usize)> = None;
        for (line_idx, big, text) in ev {
            let cur = parse(&ans[line_idx + 1]);
            let fresh = text.contains(" new ");
            let model_event = fresh || match (prev, cur) { (Some(p), Some(c)) => c.0 > p.0 || c.1 > p.1, (None, Some(_)) => true, _ => false };
            if *big && !model_event {
                ctx.model_fail(format!("implementation allocated shard-proportional memory in `{}` where the model's bookkeeping (heldBlocks/allocs) records no growth", crate::ctx::short(text)), c, Some(*line_idx));
                break;
            }
            prev = cur;
        }
        ctx.model_lines += c.lines.len();
    }
}
