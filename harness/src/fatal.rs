//! What the process was doing when a fatal signal (SIGSEGV, SIGILL, SIGBUS, SIGFPE) arrives: a fault inside the library's
//! `unsafe` code kills the whole harness, so the current operation is kept in a static buffer and written to stdout by
//! the signal handler — the check then reports it as the failing input instead of a bare "exit -11".

use std::sync::atomic::{AtomicUsize, Ordering};

static mut CUR: [u8; 400] = [0; 400];
static LEN: AtomicUsize = AtomicUsize::new(0);
static BEAT: AtomicUsize = AtomicUsize::new(0);

extern "C" {
    fn signal(sig: i32, handler: usize) -> usize;
    fn write(fd: i32, buf: *const u8, n: usize) -> isize;
    fn _exit(code: i32) -> !;
}

/// remember what is about to run (truncated to the buffer)
pub fn set_current(s: &str) {
    let b = s.as_bytes();
    let n = b.len().min(400);
    LEN.store(0, Ordering::SeqCst);
    // SAFETY: single writer per process phase; the handler only reads after LEN is published
    unsafe {
        let p = std::ptr::addr_of_mut!(CUR) as *mut u8;
        std::ptr::copy_nonoverlapping(b.as_ptr(), p, n);
    }
    LEN.store(n, Ordering::SeqCst);
    BEAT.fetch_add(1, Ordering::Relaxed);
}

extern "C" fn on_fatal(sig: i32) {
    let head = b"\nFATAL SIGNAL ";
    let num = [b'0' + (sig / 10) as u8, b'0' + (sig % 10) as u8];
    let mid = b" inside the library while: ";
    unsafe {
        write(1, head.as_ptr(), head.len());
        write(1, num.as_ptr(), 2);
        write(1, mid.as_ptr(), mid.len());
        write(1, std::ptr::addr_of!(CUR) as *const u8, LEN.load(Ordering::SeqCst));
        write(1, b"\n".as_ptr(), 1);
        _exit(128 + sig);
    }
}

pub fn install() {
    for sig in [11, 4, 7, 8] {
        unsafe { signal(sig, on_fatal as usize); }
    }
}

/// Watchdog: if no operation has started for `secs` seconds the library is presumably not terminating (an endless loop,
/// a deadlock): report the operation in progress and end the process, so that the check reports a failing input instead
/// of hanging.  (The longest silent stretches of the harness itself — exhaustive table sweeps — take a few minutes.)
pub fn watchdog(secs: u64) {
    std::thread::spawn(move || {
        let mut last = BEAT.load(Ordering::Relaxed);
        let mut quiet = 0u64;
        loop {
            std::thread::sleep(std::time::Duration::from_secs(5));
            let now = BEAT.load(Ordering::Relaxed);
            if now != last { last = now; quiet = 0; continue; }
            quiet += 5;
            if quiet >= secs {
                let head = b"\nNO PROGRESS for a long time (non-termination inside the library?) while: ";
                unsafe {
                    write(1, head.as_ptr(), head.len());
                    write(1, std::ptr::addr_of!(CUR) as *const u8, LEN.load(Ordering::SeqCst));
                    write(1, b"\n".as_ptr(), 1);
                    _exit(124);
                }
            }
        }
    });
}
