//! Object layer: every codec flavour x engine of the crate behind two object-safe traits,
//! and `Session`, the interpreter of protocol lines against the real implementation.
//!
//! The same lines are sent to the Lean model (`rsmodel`), see `model.rs`.

use std::collections::BTreeSet;
use std::marker::PhantomData;
use std::panic::{catch_unwind, AssertUnwindSafe};

use reed_solomon_simd::engine::{Avx2, DefaultEngine, Engine, Naive, NoSimd, Ssse3};
use reed_solomon_simd::rate::{
    DecoderWork, DefaultRateDecoder, DefaultRateEncoder, EncoderWork, HighRateDecoder,
    HighRateEncoder, LowRateDecoder, LowRateEncoder, RateDecoder, RateEncoder,
};
use reed_solomon_simd::{Error, ReedSolomonDecoder, ReedSolomonEncoder};

use crate::neon_port::Neon;

pub const ENGINES: [&str; 6] = ["naive", "nosimd", "ssse3", "avx2", "default", "neon"];
pub const KINDS: [&str; 3] = ["high", "low", "default"];

// ----------------------------------------------------------------------
// hex

pub fn to_hex(b: &[u8]) -> String {
    if b.is_empty() {
        return "_".to_string();
    }
    let mut s = String::with_capacity(b.len() * 2);
    for x in b {
        s.push_str(&format!("{:02x}", x));
    }
    s
}

pub fn from_hex(s: &str) -> Option<Vec<u8>> {
    if s == "_" {
        return Some(vec![]);
    }
    if s.len() % 2 != 0 {
        return None;
    }
    (0..s.len() / 2)
        .map(|i| u8::from_str_radix(&s[2 * i..2 * i + 2], 16).ok())
        .collect()
}

pub fn show_shards(l: &[Vec<u8>]) -> String {
    if l.is_empty() {
        "-".to_string()
    } else {
        l.iter().map(|s| to_hex(s)).collect::<Vec<_>>().join(",")
    }
}

pub fn show_indexed(l: &[(usize, Vec<u8>)]) -> String {
    if l.is_empty() {
        "-".to_string()
    } else {
        l.iter()
            .map(|(i, s)| format!("{}:{}", i, to_hex(s)))
            .collect::<Vec<_>>()
            .join(",")
    }
}

pub fn parse_shards(s: &str) -> Option<Vec<Vec<u8>>> {
    if s == "-" {
        return Some(vec![]);
    }
    s.split(',').map(from_hex).collect()
}

pub fn parse_indexed(s: &str) -> Option<Vec<(usize, Vec<u8>)>> {
    if s == "-" {
        return Some(vec![]);
    }
    s.split(',')
        .map(|it| {
            let (i, h) = it.split_once(':')?;
            Some((i.parse().ok()?, from_hex(h)?))
        })
        .collect()
}

pub fn show_err(e: &Error) -> String {
    match *e {
        Error::DifferentShardSize { shard_bytes, got } => {
            format!("DifferentShardSize {} {}", shard_bytes, got)
        }
        Error::DuplicateOriginalShardIndex { index } => {
            format!("DuplicateOriginalShardIndex {}", index)
        }
        Error::DuplicateRecoveryShardIndex { index } => {
            format!("DuplicateRecoveryShardIndex {}", index)
        }
        Error::InvalidOriginalShardIndex {
            original_count,
            index,
        } => format!("InvalidOriginalShardIndex {} {}", original_count, index),
        Error::InvalidRecoveryShardIndex {
            recovery_count,
            index,
        } => format!("InvalidRecoveryShardIndex {} {}", recovery_count, index),
        Error::InvalidShardSize { shard_bytes } => format!("InvalidShardSize {}", shard_bytes),
        Error::NotEnoughShards {
            original_count,
            original_received_count,
            recovery_received_count,
        } => format!(
            "NotEnoughShards {} {} {}",
            original_count, original_received_count, recovery_received_count
        ),
        Error::TooFewOriginalShards {
            original_count,
            original_received_count,
        } => format!(
            "TooFewOriginalShards {} {}",
            original_count, original_received_count
        ),
        Error::TooManyOriginalShards { original_count } => {
            format!("TooManyOriginalShards {}", original_count)
        }
        Error::UnsupportedShardCount {
            original_count,
            recovery_count,
        } => format!("UnsupportedShardCount {} {}", original_count, recovery_count),
    }
}

// ----------------------------------------------------------------------
// object-safe wrappers

/// result of `encode` with everything the accessors exposed, plus accessor-contract complaints
pub struct EncOut {
    pub recovery: Vec<Vec<u8>>,
    pub complaints: Vec<String>,
}

pub struct DecOut {
    pub restored: Vec<(usize, Vec<u8>)>,
    pub complaints: Vec<String>,
}

pub trait DynEnc {
    fn add(&mut self, s: &[u8]) -> Result<(), Error>;
    /// encode, read every accessor (C12 contract checked against `r`, `sb`), drop the result
    fn encode(&mut self, r: usize, sb: usize) -> Result<EncOut, Error>;
    fn reset(&mut self, k: usize, r: usize, sb: usize) -> Result<(), Error>;
    fn into_work(self: Box<Self>) -> Option<EncoderWork>;
}

pub trait DynDec {
    fn add_o(&mut self, i: usize, s: &[u8]) -> Result<(), Error>;
    fn add_r(&mut self, i: usize, s: &[u8]) -> Result<(), Error>;
    /// decode, read every accessor (C12 contract checked against the shadow), drop the result
    fn decode(&mut self, k: usize, sb: usize, given: &BTreeSet<usize>) -> Result<DecOut, Error>;
    fn reset(&mut self, k: usize, r: usize, sb: usize) -> Result<(), Error>;
    fn into_work(self: Box<Self>) -> Option<DecoderWork>;
}

/// Walks `a` (the implementation's iterator) and `b` (a plain iterator over the same items, in index order, taken
/// from the indexed accessor) through one script of the standard adaptors — `next`, `nth`, `by_ref().take`, `skip`,
/// `size_hint`, then `step_by` / `collect` / `count` / `last`.  Every provided method of `Iterator` is specified in
/// terms of `next`, so an override (`nth`, `size_hint`, `count`, `last`, …) that answers differently on a fresh or a
/// partially consumed iterator shows up here.  `a` is used directly (an adaptor such as `map` would hide overrides).
pub fn adaptor_walk<A: Iterator, B: Iterator>(
    mut a: A,
    mut b: B,
    mut seed: u64,
    eq: impl Fn(&A::Item, &B::Item) -> bool,
    what: &str,
    complaints: &mut Vec<String>,
) {
    let mut rnd = move |n: u64| {
        seed = seed.wrapping_mul(6364136223846793005).wrapping_add(1442695040888963407);
        (seed >> 33) % n
    };
    let same = |x: &Option<A::Item>, y: &Option<B::Item>| match (x, y) {
        (None, None) => true,
        (Some(x), Some(y)) => eq(x, y),
        _ => false,
    };
    let mut trace = String::new();
    let steps = rnd(5);
    for _ in 0..steps {
        match rnd(5) {
            0 => {
                trace.push_str("next();");
                if !same(&a.next(), &b.next()) {
                    complaints.push(format!("{}: after `{}` the item differs from the indexed accessor", what, trace));
                    return;
                }
            }
            1 => {
                let k = rnd(4) as usize;
                trace.push_str(&format!("nth({});", k));
                if !same(&a.nth(k), &b.nth(k)) {
                    complaints.push(format!("{}: after `{}` the item differs from the indexed accessor", what, trace));
                    return;
                }
            }
            2 => {
                let k = rnd(4) as usize;
                trace.push_str(&format!("by_ref().take({}).collect();", k));
                let xs: Vec<A::Item> = a.by_ref().take(k).collect();
                let ys: Vec<B::Item> = b.by_ref().take(k).collect();
                if xs.len() != ys.len() || xs.iter().zip(ys.iter()).any(|(x, y)| !eq(x, y)) {
                    complaints.push(format!("{}: after `{}` the items differ from the indexed accessor", what, trace));
                    return;
                }
            }
            3 => {
                trace.push_str("size_hint();");
                let (lo, hi) = a.size_hint();
                let rem = b.size_hint().0; // exact for the reference
                if lo > rem || hi.map_or(false, |h| h < rem) {
                    complaints.push(format!(
                        "{}: after `{}` size_hint = ({}, {:?}) but {} items remain",
                        what, trace, lo, hi, rem
                    ));
                    return;
                }
            }
            _ => {
                let k = rnd(3) as usize;
                trace.push_str(&format!("by_ref().skip({}).next();", k));
                if !same(&a.by_ref().skip(k).next(), &b.by_ref().skip(k).next()) {
                    complaints.push(format!("{}: after `{}` the item differs from the indexed accessor", what, trace));
                    return;
                }
            }
        }
    }
    match rnd(4) {
        0 => {
            let k = 1 + rnd(3) as usize;
            trace.push_str(&format!("step_by({}).collect()", k));
            // bounded: a broken `nth` can make `step_by` endless
            let xs: Vec<A::Item> = a.step_by(k).take(70000).collect();
            let ys: Vec<B::Item> = b.step_by(k).take(70000).collect();
            if xs.len() != ys.len() || xs.iter().zip(ys.iter()).any(|(x, y)| !eq(x, y)) {
                complaints.push(format!("{}: `{}` differs from the indexed accessor", what, trace));
            }
        }
        1 => {
            trace.push_str("collect()");
            let xs: Vec<A::Item> = a.take(70000).collect();
            let ys: Vec<B::Item> = b.take(70000).collect();
            if xs.len() != ys.len() || xs.iter().zip(ys.iter()).any(|(x, y)| !eq(x, y)) {
                complaints.push(format!("{}: `{}` differs from the indexed accessor", what, trace));
            }
        }
        2 => {
            trace.push_str("count()");
            if a.count() != b.count() {
                complaints.push(format!("{}: `{}` differs from the number of remaining items", what, trace));
            }
        }
        _ => {
            trace.push_str("last()");
            if !same(&a.last(), &b.last()) {
                complaints.push(format!("{}: `{}` differs from the indexed accessor", what, trace));
            }
        }
    }
}

fn walk_seed(items: &[Vec<u8>], n: usize) -> u64 {
    let mut h: u64 = 0xcbf29ce484222325 ^ (n as u64);
    for v in items.iter().take(2) {
        for b in v.iter().take(8) {
            h = (h ^ (*b as u64)).wrapping_mul(0x100000001b3);
        }
    }
    h
}

fn read_encoder_result(res: &reed_solomon_simd::EncoderResult, r: usize, sb: usize) -> EncOut {
    let mut complaints = vec![];
    let mut recovery = vec![];
    // accessor by index, including extremes
    let probe_hi = [r, r + 1, 65535, 65536, usize::MAX - 1, usize::MAX];
    for i in 0..r {
        match res.recovery(i) {
            Some(s) => {
                if s.len() != sb {
                    complaints.push(format!("recovery({}) has length {} != {}", i, s.len(), sb));
                }
                recovery.push(s.to_vec());
            }
            None => {
                complaints.push(format!("recovery({}) is None for i < recovery_count {}", i, r));
                recovery.push(vec![]);
            }
        }
    }
    for &i in &probe_hi {
        if i >= r && res.recovery(i).is_some() {
            complaints.push(format!("recovery({}) is Some for i >= recovery_count {}", i, r));
        }
    }
    // iterator: same slices in index order, then None forever
    let mut it = res.recovery_iter();
    for i in 0..r {
        match it.next() {
            Some(s) => {
                if s != &recovery[i][..] {
                    complaints.push(format!("recovery_iter item {} differs from recovery({})", i, i));
                }
            }
            None => {
                complaints.push(format!("recovery_iter ended after {} of {} items", i, r));
                break;
            }
        }
    }
    for _ in 0..3 {
        if it.next().is_some() {
            complaints.push("recovery_iter yields an item after recovery_count items".into());
        }
    }
    // iterator adaptors on fresh and partially consumed iterators
    if complaints.is_empty() {
        let seed = walk_seed(&recovery, r);
        for w in 0..4u64 {
            adaptor_walk(
                res.recovery_iter(),
                recovery.iter().map(|v| &v[..]),
                seed.wrapping_add(w.wrapping_mul(0x9e3779b97f4a7c15)),
                |x, y| x == y,
                "recovery_iter",
                &mut complaints,
            );
        }
    }
    EncOut {
        recovery,
        complaints,
    }
}

fn read_decoder_result(
    res: &reed_solomon_simd::DecoderResult,
    k: usize,
    sb: usize,
    given: &BTreeSet<usize>,
) -> DecOut {
    let mut complaints = vec![];
    let mut restored = vec![];
    for i in 0..k {
        match res.restored_original(i) {
            Some(s) => {
                if given.contains(&i) {
                    complaints.push(format!("restored_original({}) is Some for a given shard", i));
                }
                if s.len() != sb {
                    complaints.push(format!(
                        "restored_original({}) has length {} != {}",
                        i,
                        s.len(),
                        sb
                    ));
                }
                restored.push((i, s.to_vec()));
            }
            None => {
                if !given.contains(&i) {
                    complaints.push(format!(
                        "restored_original({}) is None for a missing in-range shard",
                        i
                    ));
                }
            }
        }
    }
    for &i in &[k, k + 1, 65535, 65536, 65537, usize::MAX - 1, usize::MAX] {
        if i >= k && res.restored_original(i).is_some() {
            complaints.push(format!(
                "restored_original({}) is Some for i >= original_count {}",
                i, k
            ));
        }
    }
    let mut it = res.restored_original_iter();
    let mut n = 0;
    for (i, s) in restored.iter() {
        match it.next() {
            Some((j, t)) => {
                if j != *i || t != &s[..] {
                    complaints.push(format!(
                        "restored_original_iter item {} is index {} (expected {}) or differs",
                        n, j, i
                    ));
                }
            }
            None => {
                complaints.push(format!("restored_original_iter ended after {} items", n));
                break;
            }
        }
        n += 1;
    }
    for _ in 0..3 {
        if it.next().is_some() {
            complaints.push("restored_original_iter yields an item after exhaustion".into());
        }
    }
    if complaints.is_empty() {
        let only: Vec<Vec<u8>> = restored.iter().map(|(_, v)| v.clone()).collect();
        let seed = walk_seed(&only, k);
        for w in 0..4u64 {
            adaptor_walk(
                res.restored_original_iter(),
                restored.iter().map(|(i, v)| (*i, &v[..])),
                seed.wrapping_add(w.wrapping_mul(0x9e3779b97f4a7c15)),
                |x, y| x.0 == y.0 && x.1 == y.1,
                "restored_original_iter",
                &mut complaints,
            );
        }
    }
    DecOut {
        restored,
        complaints,
    }
}

struct WrapEnc<E: Engine, T: RateEncoder<E>>(T, PhantomData<E>);

impl<E: Engine, T: RateEncoder<E>> DynEnc for WrapEnc<E, T> {
    fn add(&mut self, s: &[u8]) -> Result<(), Error> {
        crate::alloc::measured(|| self.0.add_original_shard(s))
    }
    fn encode(&mut self, r: usize, sb: usize) -> Result<EncOut, Error> {
        let res = crate::alloc::measured(|| self.0.encode())?;
        Ok(read_encoder_result(&res, r, sb))
    }
    fn reset(&mut self, k: usize, r: usize, sb: usize) -> Result<(), Error> {
        crate::alloc::measured(|| self.0.reset(k, r, sb))
    }
    fn into_work(self: Box<Self>) -> Option<EncoderWork> {
        Some(crate::alloc::measured(|| self.0.into_parts()).1)
    }
}

struct RsEnc(ReedSolomonEncoder);

impl DynEnc for RsEnc {
    fn add(&mut self, s: &[u8]) -> Result<(), Error> {
        crate::alloc::measured(|| self.0.add_original_shard(s))
    }
    fn encode(&mut self, r: usize, sb: usize) -> Result<EncOut, Error> {
        let res = crate::alloc::measured(|| self.0.encode())?;
        Ok(read_encoder_result(&res, r, sb))
    }
    fn reset(&mut self, k: usize, r: usize, sb: usize) -> Result<(), Error> {
        crate::alloc::measured(|| self.0.reset(k, r, sb))
    }
    fn into_work(self: Box<Self>) -> Option<EncoderWork> {
        None
    }
}

struct WrapDec<E: Engine, T: RateDecoder<E>>(T, PhantomData<E>);

impl<E: Engine, T: RateDecoder<E>> DynDec for WrapDec<E, T> {
    fn add_o(&mut self, i: usize, s: &[u8]) -> Result<(), Error> {
        crate::alloc::measured(|| self.0.add_original_shard(i, s))
    }
    fn add_r(&mut self, i: usize, s: &[u8]) -> Result<(), Error> {
        crate::alloc::measured(|| self.0.add_recovery_shard(i, s))
    }
    fn decode(&mut self, k: usize, sb: usize, given: &BTreeSet<usize>) -> Result<DecOut, Error> {
        let res = crate::alloc::measured(|| self.0.decode())?;
        Ok(read_decoder_result(&res, k, sb, given))
    }
    fn reset(&mut self, k: usize, r: usize, sb: usize) -> Result<(), Error> {
        crate::alloc::measured(|| self.0.reset(k, r, sb))
    }
    fn into_work(self: Box<Self>) -> Option<DecoderWork> {
        Some(crate::alloc::measured(|| self.0.into_parts()).1)
    }
}

struct RsDec(ReedSolomonDecoder);

impl DynDec for RsDec {
    fn add_o(&mut self, i: usize, s: &[u8]) -> Result<(), Error> {
        crate::alloc::measured(|| self.0.add_original_shard(i, s))
    }
    fn add_r(&mut self, i: usize, s: &[u8]) -> Result<(), Error> {
        crate::alloc::measured(|| self.0.add_recovery_shard(i, s))
    }
    fn decode(&mut self, k: usize, sb: usize, given: &BTreeSet<usize>) -> Result<DecOut, Error> {
        let res = crate::alloc::measured(|| self.0.decode())?;
        Ok(read_decoder_result(&res, k, sb, given))
    }
    fn reset(&mut self, k: usize, r: usize, sb: usize) -> Result<(), Error> {
        crate::alloc::measured(|| self.0.reset(k, r, sb))
    }
    fn into_work(self: Box<Self>) -> Option<DecoderWork> {
        None
    }
}

fn mk_enc_e<E: Engine + 'static>(
    kind: &str,
    e: E,
    k: usize,
    r: usize,
    sb: usize,
    w: Option<EncoderWork>,
) -> Result<Box<dyn DynEnc>, Error> {
    Ok(match kind {
        "high" => Box::new(WrapEnc(crate::alloc::measured(|| HighRateEncoder::new(k, r, sb, e, w))?, PhantomData)),
        "low" => Box::new(WrapEnc(crate::alloc::measured(|| LowRateEncoder::new(k, r, sb, e, w))?, PhantomData)),
        _ => Box::new(WrapEnc(crate::alloc::measured(|| DefaultRateEncoder::new(k, r, sb, e, w))?, PhantomData)),
    })
}

pub fn mk_enc(
    kind: &str,
    engine: &str,
    k: usize,
    r: usize,
    sb: usize,
    w: Option<EncoderWork>,
) -> Result<Box<dyn DynEnc>, Error> {
    if kind == "rs" {
        return Ok(Box::new(RsEnc(ReedSolomonEncoder::new(k, r, sb)?)));
    }
    match engine {
        "naive" => mk_enc_e(kind, Naive::new(), k, r, sb, w),
        "nosimd" => mk_enc_e(kind, NoSimd::new(), k, r, sb, w),
        "ssse3" => mk_enc_e(kind, Ssse3::new(), k, r, sb, w),
        "avx2" => mk_enc_e(kind, Avx2::new(), k, r, sb, w),
        "neon" => mk_enc_e(kind, Neon::new(), k, r, sb, w),
        _ => mk_enc_e(kind, DefaultEngine::new(), k, r, sb, w),
    }
}

fn mk_dec_e<E: Engine + 'static>(
    kind: &str,
    e: E,
    k: usize,
    r: usize,
    sb: usize,
    w: Option<DecoderWork>,
) -> Result<Box<dyn DynDec>, Error> {
    Ok(match kind {
        "high" => Box::new(WrapDec(crate::alloc::measured(|| HighRateDecoder::new(k, r, sb, e, w))?, PhantomData)),
        "low" => Box::new(WrapDec(crate::alloc::measured(|| LowRateDecoder::new(k, r, sb, e, w))?, PhantomData)),
        _ => Box::new(WrapDec(crate::alloc::measured(|| DefaultRateDecoder::new(k, r, sb, e, w))?, PhantomData)),
    })
}

pub fn mk_dec(
    kind: &str,
    engine: &str,
    k: usize,
    r: usize,
    sb: usize,
    w: Option<DecoderWork>,
) -> Result<Box<dyn DynDec>, Error> {
    if kind == "rs" {
        return Ok(Box::new(RsDec(ReedSolomonDecoder::new(k, r, sb)?)));
    }
    match engine {
        "naive" => mk_dec_e(kind, Naive::new(), k, r, sb, w),
        "nosimd" => mk_dec_e(kind, NoSimd::new(), k, r, sb, w),
        "ssse3" => mk_dec_e(kind, Ssse3::new(), k, r, sb, w),
        "avx2" => mk_dec_e(kind, Avx2::new(), k, r, sb, w),
        "neon" => mk_dec_e(kind, Neon::new(), k, r, sb, w),
        _ => mk_dec_e(kind, DefaultEngine::new(), k, r, sb, w),
    }
}

pub fn supports(kind: &str, k: usize, r: usize) -> bool {
    use reed_solomon_simd::rate::{DefaultRate, HighRate, LowRate, Rate};
    match kind {
        "high" => HighRate::<NoSimd>::supports(k, r),
        "low" => LowRate::<NoSimd>::supports(k, r),
        "rs" => ReedSolomonEncoder::supports(k, r),
        _ => DefaultRate::<NoSimd>::supports(k, r),
    }
}

pub fn validate(kind: &str, k: usize, r: usize, sb: usize) -> Result<(), Error> {
    use reed_solomon_simd::rate::{DefaultRate, HighRate, LowRate, Rate};
    match kind {
        "high" => HighRate::<NoSimd>::validate(k, r, sb),
        "low" => LowRate::<NoSimd>::validate(k, r, sb),
        _ => DefaultRate::<NoSimd>::validate(k, r, sb),
    }
}

// ----------------------------------------------------------------------
// Session: interpreter of protocol lines on the real implementation

/// what the harness itself knows about the object (independent bookkeeping; updated on Ok only)
#[derive(Clone, Default)]
pub struct Shadow {
    pub kind: String,
    pub k: usize,
    pub r: usize,
    pub sb: usize,
    pub enc_recv: usize,
    pub orig: BTreeSet<usize>,
    pub rec: BTreeSet<usize>,
}

#[derive(Default)]
pub struct Session {
    pub enc: Option<Box<dyn DynEnc>>,
    pub dec: Option<Box<dyn DynDec>>,
    pub es: Shadow,
    pub ds: Shadow,
    /// complaints of the direct oracles evaluated while interpreting (C06/C12 contracts)
    pub complaints: Vec<String>,
}

pub enum Ans {
    Ok(String),
    Err(String),
    Panic(String),
    Bool(bool),
    BadOp,
}

impl Ans {
    pub fn line(&self) -> String {
        match self {
            Ans::Ok(p) if p.is_empty() => "ok".into(),
            Ans::Ok(p) => format!("ok {}", p),
            Ans::Err(e) => format!("err {}", e),
            Ans::Panic(_) => "panic".into(),
            Ans::Bool(b) => format!("{}", b),
            Ans::BadOp => "bad-op".into(),
        }
    }
}

fn guard<T>(f: impl FnOnce() -> T) -> Result<T, String> {
    catch_unwind(AssertUnwindSafe(f)).map_err(|e| {
        if let Some(s) = e.downcast_ref::<&str>() {
            s.to_string()
        } else if let Some(s) = e.downcast_ref::<String>() {
            s.clone()
        } else {
            "panic".to_string()
        }
    })
}

fn unit(r: Result<Result<(), Error>, String>) -> Ans {
    match r {
        Ok(Ok(())) => Ans::Ok(String::new()),
        Ok(Err(e)) => Ans::Err(show_err(&e)),
        Err(p) => Ans::Panic(p),
    }
}

/// the truthful errors of a configuration request, computed by the harness itself
pub fn truthful_config(kind: &str, k: usize, r: usize, sb: usize, envelope: &dyn Fn(&str, usize, usize) -> bool) -> Vec<String> {
    let mut v = vec![];
    if !envelope(kind, k, r) {
        v.push(format!("UnsupportedShardCount {} {}", k, r));
    }
    if sb == 0 || sb % 2 == 1 {
        v.push(format!("InvalidShardSize {}", sb));
    }
    v
}

/// README envelope: both >= 1 and for some n one count <= 2^n and the other <= 65536 - 2^n;
/// dedicated rates: the power-of-two-bounded side is recovery (high) / original (low).
pub fn envelope(kind: &str, k: usize, r: usize) -> bool {
    if k == 0 || r == 0 {
        return false;
    }
    let mut ok = false;
    for n in 0..=16u32 {
        let p = 1usize << n;
        let high = r <= p && k <= 65536 - p;
        let low = k <= p && r <= 65536 - p;
        ok |= match kind {
            "high" => high,
            "low" => low,
            _ => high || low,
        };
    }
    ok
}

impl Session {
    pub fn new() -> Self {
        Self::default()
    }

    /// executes one protocol line; returns the canonical answer and the truthful-error list
    /// computed from the harness's own shadow bookkeeping
    pub fn exec(&mut self, line: &str) -> (Ans, Vec<String>) {
        crate::fatal::set_current(line);
        let t: Vec<&str> = line.split_whitespace().collect();
        let num = |s: &str| s.parse::<usize>().ok();
        match t.as_slice() {
            ["E", op @ ("new" | "renew"), kind, engine, k, r, sb] => {
                let (Some(k), Some(r), Some(sb)) = (num(k), num(r), num(sb)) else {
                    return (Ans::BadOp, vec![]);
                };
                let tr = truthful_config(kind, k, r, sb, &envelope);
                let work = if *op == "renew" {
                    match self.enc.take() {
                        Some(e) => match guard(|| e.into_work()) {
                            Ok(w) => w,
                            Err(p) => return (Ans::Panic(p), tr),
                        },
                        None => return (Ans::BadOp, vec![]),
                    }
                } else {
                    self.enc = None;
                    None
                };
                match guard(|| mk_enc(kind, engine, k, r, sb, work)) {
                    Ok(Ok(e)) => {
                        self.enc = Some(e);
                        self.es = Shadow {
                            kind: kind.to_string(),
                            k,
                            r,
                            sb,
                            ..Default::default()
                        };
                        (Ans::Ok(String::new()), tr)
                    }
                    Ok(Err(e)) => (Ans::Err(show_err(&e)), tr),
                    Err(p) => (Ans::Panic(p), tr),
                }
            }
            ["E", "reset", k, r, sb] => {
                let (Some(k), Some(r), Some(sb), Some(e)) = (num(k), num(r), num(sb), self.enc.as_mut()) else {
                    return (Ans::BadOp, vec![]);
                };
                let tr = truthful_config(&self.es.kind, k, r, sb, &envelope);
                let a = unit(guard(|| e.reset(k, r, sb)));
                if let Ans::Ok(_) = a {
                    self.es = Shadow {
                        kind: self.es.kind.clone(),
                        k,
                        r,
                        sb,
                        ..Default::default()
                    };
                }
                (a, tr)
            }
            ["E", "add", h] => {
                let (Some(b), Some(e)) = (from_hex(h), self.enc.as_mut()) else {
                    return (Ans::BadOp, vec![]);
                };
                let mut tr = vec![];
                if self.es.enc_recv == self.es.k {
                    tr.push(format!("TooManyOriginalShards {}", self.es.k));
                }
                if b.len() != self.es.sb {
                    tr.push(format!("DifferentShardSize {} {}", self.es.sb, b.len()));
                }
                let a = unit(guard(|| e.add(&b)));
                if let Ans::Ok(_) = a {
                    self.es.enc_recv += 1;
                }
                (a, tr)
            }
            ["E", "encode"] => {
                let Some(e) = self.enc.as_mut() else {
                    return (Ans::BadOp, vec![]);
                };
                let mut tr = vec![];
                if self.es.enc_recv != self.es.k {
                    tr.push(format!("TooFewOriginalShards {} {}", self.es.k, self.es.enc_recv));
                }
                let (r, sb) = (self.es.r, self.es.sb);
                match guard(|| e.encode(r, sb)) {
                    Ok(Ok(out)) => {
                        self.complaints.extend(out.complaints);
                        self.es.enc_recv = 0;
                        (Ans::Ok(show_shards(&out.recovery)), tr)
                    }
                    Ok(Err(e)) => (Ans::Err(show_err(&e)), tr),
                    Err(p) => (Ans::Panic(p), tr),
                }
            }
            ["D", op @ ("new" | "renew"), kind, engine, k, r, sb] => {
                let (Some(k), Some(r), Some(sb)) = (num(k), num(r), num(sb)) else {
                    return (Ans::BadOp, vec![]);
                };
                let tr = truthful_config(kind, k, r, sb, &envelope);
                let work = if *op == "renew" {
                    match self.dec.take() {
                        Some(d) => match guard(|| d.into_work()) {
                            Ok(w) => w,
                            Err(p) => return (Ans::Panic(p), tr),
                        },
                        None => return (Ans::BadOp, vec![]),
                    }
                } else {
                    self.dec = None;
                    None
                };
                match guard(|| mk_dec(kind, engine, k, r, sb, work)) {
                    Ok(Ok(d)) => {
                        self.dec = Some(d);
                        self.ds = Shadow {
                            kind: kind.to_string(),
                            k,
                            r,
                            sb,
                            ..Default::default()
                        };
                        (Ans::Ok(String::new()), tr)
                    }
                    Ok(Err(e)) => (Ans::Err(show_err(&e)), tr),
                    Err(p) => (Ans::Panic(p), tr),
                }
            }
            ["D", "reset", k, r, sb] => {
                let (Some(k), Some(r), Some(sb), Some(d)) = (num(k), num(r), num(sb), self.dec.as_mut()) else {
                    return (Ans::BadOp, vec![]);
                };
                let tr = truthful_config(&self.ds.kind, k, r, sb, &envelope);
                let a = unit(guard(|| d.reset(k, r, sb)));
                if let Ans::Ok(_) = a {
                    self.ds = Shadow {
                        kind: self.ds.kind.clone(),
                        k,
                        r,
                        sb,
                        ..Default::default()
                    };
                }
                (a, tr)
            }
            ["D", which @ ("addo" | "addr"), i, h] => {
                let (Some(i), Some(b), Some(d)) = (num(i), from_hex(h), self.dec.as_mut()) else {
                    return (Ans::BadOp, vec![]);
                };
                let is_o = *which == "addo";
                let s = &self.ds;
                let mut tr = vec![];
                if is_o {
                    if i >= s.k {
                        tr.push(format!("InvalidOriginalShardIndex {} {}", s.k, i));
                    } else if s.orig.contains(&i) {
                        tr.push(format!("DuplicateOriginalShardIndex {}", i));
                    }
                } else if i >= s.r {
                    tr.push(format!("InvalidRecoveryShardIndex {} {}", s.r, i));
                } else if s.rec.contains(&i) {
                    tr.push(format!("DuplicateRecoveryShardIndex {}", i));
                }
                if b.len() != s.sb {
                    tr.push(format!("DifferentShardSize {} {}", s.sb, b.len()));
                }
                let a = unit(guard(|| if is_o { d.add_o(i, &b) } else { d.add_r(i, &b) }));
                if let Ans::Ok(_) = a {
                    if is_o {
                        self.ds.orig.insert(i);
                    } else {
                        self.ds.rec.insert(i);
                    }
                }
                (a, tr)
            }
            ["D", "decode"] => {
                let Some(d) = self.dec.as_mut() else {
                    return (Ans::BadOp, vec![]);
                };
                let s = self.ds.clone();
                let mut tr = vec![];
                if s.orig.len() + s.rec.len() < s.k {
                    tr.push(format!("NotEnoughShards {} {} {}", s.k, s.orig.len(), s.rec.len()));
                }
                match guard(|| d.decode(s.k, s.sb, &s.orig)) {
                    Ok(Ok(out)) => {
                        self.complaints.extend(out.complaints);
                        self.ds.orig.clear();
                        self.ds.rec.clear();
                        (Ans::Ok(show_indexed(&out.restored)), tr)
                    }
                    Ok(Err(e)) => (Ans::Err(show_err(&e)), tr),
                    Err(p) => (Ans::Panic(p), tr),
                }
            }
            ["S", "supports", kind, k, r] => {
                let (Some(k), Some(r)) = (num(k), num(r)) else {
                    return (Ans::BadOp, vec![]);
                };
                match guard(|| supports(kind, k, r)) {
                    Ok(b) => (Ans::Bool(b), vec![]),
                    Err(p) => (Ans::Panic(p), vec![]),
                }
            }
            ["S", "validate", kind, k, r, sb] => {
                let (Some(k), Some(r), Some(sb)) = (num(k), num(r), num(sb)) else {
                    return (Ans::BadOp, vec![]);
                };
                let tr = truthful_config(kind, k, r, sb, &envelope);
                (unit(guard(|| validate(kind, k, r, sb))), tr)
            }
            ["X", "encode", k, r, shards] => {
                let (Some(k), Some(r), Some(l)) = (num(k), num(r), parse_shards(shards)) else {
                    return (Ans::BadOp, vec![]);
                };
                let tr = truthful_oneshot_encode(k, r, &l);
                let show = |r: Result<Result<Vec<Vec<u8>>, Error>, String>| match r {
                    Ok(Ok(out)) => Ans::Ok(show_shards(&out)),
                    Ok(Err(e)) => Ans::Err(show_err(&e)),
                    Err(p) => Ans::Panic(p),
                };
                let a = show(guard(|| reed_solomon_simd::encode(k, r, &l)));
                let a2 = show(guard(|| reed_solomon_simd::encode(k, r, l.iter().filter(|_| true))));
                if a.line() != a2.line() {
                    self.complaints.push(format!(
                        "one-shot encode answers `{}` for a slice but `{}` for the same items through a filter adaptor",
                        crate::ctx::short(&a.line()), crate::ctx::short(&a2.line())));
                }
                (a, tr)
            }
            ["X", "decode", k, r, o, rc] => {
                let (Some(k), Some(r), Some(o), Some(rc)) = (num(k), num(r), parse_indexed(o), parse_indexed(rc)) else {
                    return (Ans::BadOp, vec![]);
                };
                let tr = truthful_oneshot_decode(k, r, &o, &rc);
                let oi = o.iter().map(|(i, s)| (*i, s.as_slice()));
                let ri = rc.iter().map(|(i, s)| (*i, s.as_slice()));
                let show = |r: Result<Result<std::collections::HashMap<usize, Vec<u8>>, Error>, String>| match r {
                    Ok(Ok(out)) => {
                        let mut v: Vec<(usize, Vec<u8>)> = out.into_iter().collect();
                        v.sort();
                        Ans::Ok(show_indexed(&v))
                    }
                    Ok(Err(e)) => Ans::Err(show_err(&e)),
                    Err(p) => Ans::Panic(p),
                };
                let a = show(guard(|| reed_solomon_simd::decode(k, r, oi, ri)));
                // the same call with iterators whose size_hint lower bound is 0 (filter adaptors):
                // the result must not depend on the iterator type
                let oi2 = o.iter().map(|(i, s)| (*i, s.as_slice())).filter(|_| true);
                let ri2 = rc.iter().map(|(i, s)| (*i, s.as_slice())).filter(|_| true);
                let a2 = show(guard(|| reed_solomon_simd::decode(k, r, oi2, ri2)));
                if a.line() != a2.line() {
                    self.complaints.push(format!(
                        "one-shot decode answers `{}` for exact-size iterators but `{}` for the same items through a filter adaptor",
                        crate::ctx::short(&a.line()), crate::ctx::short(&a2.line())));
                }
                (a, tr)
            }
            _ => (Ans::BadOp, vec![]),
        }
    }
}

pub fn truthful_oneshot_encode(k: usize, r: usize, l: &[Vec<u8>]) -> Vec<String> {
    let mut v = vec![];
    if !envelope("default", k, r) {
        v.push(format!("UnsupportedShardCount {} {}", k, r));
    }
    if l.len() < k {
        v.push(format!("TooFewOriginalShards {} {}", k, l.len()));
    }
    if l.len() > k {
        v.push(format!("TooManyOriginalShards {}", k));
    }
    if let Some(first) = l.first() {
        let sb = first.len();
        if sb == 0 || sb % 2 == 1 {
            v.push(format!("InvalidShardSize {}", sb));
        }
        for s in l {
            if s.len() != sb {
                v.push(format!("DifferentShardSize {} {}", sb, s.len()));
            }
        }
    }
    v
}

pub fn truthful_oneshot_decode(
    k: usize,
    r: usize,
    o: &[(usize, Vec<u8>)],
    rc: &[(usize, Vec<u8>)],
) -> Vec<String> {
    let mut v = vec![];
    if !envelope("default", k, r) {
        v.push(format!("UnsupportedShardCount {} {}", k, r));
    }
    if o.len() + rc.len() < k {
        v.push(format!("NotEnoughShards {} {} {}", k, o.len(), rc.len()));
    }
    let dv = |l: &[(usize, Vec<u8>)], bound: usize| {
        l.iter().map(|p| p.0).filter(|i| *i < bound).collect::<BTreeSet<_>>().len()
    };
    let (od, rd) = (dv(o, k), dv(rc, r));
    if od + rd < k {
        v.push(format!("NotEnoughShards {} {} {}", k, od, rd));
    }
    for (i, _) in o {
        if *i >= k {
            v.push(format!("InvalidOriginalShardIndex {} {}", k, i));
        }
    }
    for (i, _) in rc {
        if *i >= r {
            v.push(format!("InvalidRecoveryShardIndex {} {}", r, i));
        }
    }
    let dups = |l: &[(usize, Vec<u8>)], bound: usize| {
        let mut seen = BTreeSet::new();
        let mut d = vec![];
        for (i, _) in l {
            if *i < bound && !seen.insert(*i) {
                d.push(*i);
            }
        }
        d
    };
    for i in dups(o, k) {
        v.push(format!("DuplicateOriginalShardIndex {}", i));
    }
    for i in dups(rc, r) {
        v.push(format!("DuplicateRecoveryShardIndex {}", i));
    }
    let sb = rc.first().map(|p| p.1.len()).or(o.first().map(|p| p.1.len()));
    if let Some(sb) = sb {
        if sb == 0 || sb % 2 == 1 {
            v.push(format!("InvalidShardSize {}", sb));
        }
        for (_, s) in o.iter().chain(rc.iter()) {
            if s.len() != sb {
                v.push(format!("DifferentShardSize {} {}", sb, s.len()));
            }
        }
    }
    v
}
