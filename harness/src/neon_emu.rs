//! Emulation of the Neon intrinsics used by engine_neon.rs (semantics per the Arm ARM).
#![allow(non_camel_case_types, clippy::missing_safety_doc)]

#[derive(Clone, Copy)]
pub struct uint8x16_t(pub [u8; 16]);

/// load 16 bytes
pub unsafe fn vld1q_u8(p: *const u8) -> uint8x16_t {
    let mut a = [0u8; 16];
    std::ptr::copy_nonoverlapping(p, a.as_mut_ptr(), 16);
    uint8x16_t(a)
}

/// store 16 bytes
pub unsafe fn vst1q_u8(p: *mut u8, v: uint8x16_t) {
    std::ptr::copy_nonoverlapping(v.0.as_ptr(), p, 16);
}

pub unsafe fn vandq_u8(a: uint8x16_t, b: uint8x16_t) -> uint8x16_t {
    let mut r = [0u8; 16];
    for i in 0..16 {
        r[i] = a.0[i] & b.0[i];
    }
    uint8x16_t(r)
}

pub unsafe fn veorq_u8(a: uint8x16_t, b: uint8x16_t) -> uint8x16_t {
    let mut r = [0u8; 16];
    for i in 0..16 {
        r[i] = a.0[i] ^ b.0[i];
    }
    uint8x16_t(r)
}

/// logical shift right of every byte
pub unsafe fn vshrq_n_u8(a: uint8x16_t, n: i32) -> uint8x16_t {
    let mut r = [0u8; 16];
    for i in 0..16 {
        r[i] = if n >= 8 { 0 } else { a.0[i] >> n };
    }
    uint8x16_t(r)
}

/// table lookup: out[i] = t[idx[i]] if idx[i] < 16 else 0
pub unsafe fn vqtbl1q_u8(t: uint8x16_t, idx: uint8x16_t) -> uint8x16_t {
    let mut r = [0u8; 16];
    for i in 0..16 {
        let j = idx.0[i] as usize;
        r[i] = if j < 16 { t.0[j] } else { 0 };
    }
    uint8x16_t(r)
}

pub unsafe fn vdupq_n_u8(x: u8) -> uint8x16_t {
    uint8x16_t([x; 16])
}

/// emulated `is_aarch64_feature_detected!("neon")`, settable by the C14 check
pub static NEON_DETECTED: std::sync::atomic::AtomicBool = std::sync::atomic::AtomicBool::new(true);

pub fn detected_neon() -> bool {
    NEON_DETECTED.load(std::sync::atomic::Ordering::Relaxed)
}
