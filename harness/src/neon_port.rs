//! The crate's Neon engine, ported at build time (see build.rs).
#![allow(unused_unsafe, dead_code, unused_imports, clippy::all)]

#[cfg(feature = "neon-port")]
include!(concat!(env!("OUT_DIR"), "/neon_port.rs"));

/// without the port the name stands for the portable engine and the Neon sub-checks are
/// reported as unavailable
#[cfg(not(feature = "neon-port"))]
pub type Neon = reed_solomon_simd::engine::NoSimd;

pub const AVAILABLE: bool = cfg!(feature = "neon-port");

/// engine_default.rs as compiled for AArch64 (see build.rs), on the emulated Neon engine
#[cfg(feature = "neon-port")]
pub mod default_arm {
    #![allow(unused_imports, dead_code, clippy::all)]
    include!(concat!(env!("OUT_DIR"), "/default_arm_port.rs"));
}
