//! Counting global allocator with thread-local counters (C17).

use std::alloc::{GlobalAlloc, Layout, System};
use std::cell::Cell;

pub struct Counting;

thread_local! {
    /// (number of allocations >= THRESHOLD, bytes of the largest allocation) since the last reset
    static BIG: Cell<(usize, usize)> = const { Cell::new((0, 0)) };
    static THRESHOLD: Cell<usize> = const { Cell::new(usize::MAX) };
}

unsafe impl GlobalAlloc for Counting {
    unsafe fn alloc(&self, l: Layout) -> *mut u8 {
        note(l.size());
        System.alloc(l)
    }
    unsafe fn dealloc(&self, p: *mut u8, l: Layout) {
        System.dealloc(p, l)
    }
    unsafe fn alloc_zeroed(&self, l: Layout) -> *mut u8 {
        note(l.size());
        System.alloc_zeroed(l)
    }
    unsafe fn realloc(&self, p: *mut u8, l: Layout, new_size: usize) -> *mut u8 {
        if new_size > l.size() {
            note(new_size);
        }
        System.realloc(p, l, new_size)
    }
}

fn note(size: usize) {
    let _ = THRESHOLD.try_with(|t| {
        if size >= t.get() {
            let _ = BIG.try_with(|b| {
                let (n, m) = b.get();
                b.set((n + 1, m.max(size)));
            });
        }
    });
}

/// start measuring on this thread: allocations of at least `threshold` bytes are counted
pub fn start(threshold: usize) {
    BIG.with(|b| b.set((0, 0)));
    THRESHOLD.with(|t| t.set(threshold));
}

/// stop measuring; returns (count, largest)
pub fn stop() -> (usize, usize) {
    THRESHOLD.with(|t| t.set(usize::MAX));
    BIG.with(|b| b.get())
}

thread_local! {
    static ENABLED: Cell<usize> = const { Cell::new(0) };
    static ACC: Cell<(usize, usize)> = const { Cell::new((0, 0)) };
}

/// enable measuring of crate calls wrapped in `measured` on this thread (0 = off)
pub fn enable(threshold: usize) {
    ENABLED.with(|e| e.set(threshold));
    ACC.with(|a| a.set((0, 0)));
}

/// (count, largest) of big allocations inside measured crate calls since the last `take`
pub fn take() -> (usize, usize) {
    ACC.with(|a| a.replace((0, 0)))
}

/// runs `f` (a call into the crate under test) and, when enabled, counts its big allocations
pub fn measured<T>(f: impl FnOnce() -> T) -> T {
    let th = ENABLED.with(|e| e.get());
    if th == 0 {
        return f();
    }
    start(th);
    let r = f();
    let (c, l) = stop();
    ACC.with(|a| {
        let (c0, l0) = a.get();
        a.set((c0 + c, l0.max(l)));
    });
    r
}
