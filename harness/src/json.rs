//! Minimal JSON writer / reader (no external crates available offline for this).

use std::collections::BTreeMap;

#[derive(Clone, Debug, PartialEq)]
pub enum J {
    Null,
    Bool(bool),
    Num(f64),
    Int(i128),
    Str(String),
    Arr(Vec<J>),
    Obj(BTreeMap<String, J>),
}

impl J {
    pub fn obj() -> J {
        J::Obj(BTreeMap::new())
    }
    pub fn set(&mut self, k: &str, v: J) -> &mut Self {
        if let J::Obj(m) = self {
            m.insert(k.to_string(), v);
        }
        self
    }
    pub fn get(&self, k: &str) -> Option<&J> {
        if let J::Obj(m) = self {
            m.get(k)
        } else {
            None
        }
    }
    pub fn as_str(&self) -> Option<&str> {
        if let J::Str(s) = self {
            Some(s)
        } else {
            None
        }
    }
    pub fn as_arr(&self) -> Option<&Vec<J>> {
        if let J::Arr(a) = self {
            Some(a)
        } else {
            None
        }
    }
    pub fn s(x: &str) -> J {
        J::Str(x.to_string())
    }
    pub fn i(x: usize) -> J {
        J::Int(x as i128)
    }
    pub fn strs(xs: &[String]) -> J {
        J::Arr(xs.iter().map(|s| J::Str(s.clone())).collect())
    }

    pub fn dump(&self) -> String {
        let mut s = String::new();
        self.write(&mut s);
        s
    }

    fn write(&self, out: &mut String) {
        match self {
            J::Null => out.push_str("null"),
            J::Bool(b) => out.push_str(if *b { "true" } else { "false" }),
            J::Num(n) => out.push_str(&format!("{}", n)),
            J::Int(n) => out.push_str(&format!("{}", n)),
            J::Str(s) => {
                out.push('"');
                for c in s.chars() {
                    match c {
                        '"' => out.push_str("\\\""),
                        '\\' => out.push_str("\\\\"),
                        '\n' => out.push_str("\\n"),
                        '\t' => out.push_str("\\t"),
                        '\r' => out.push_str("\\r"),
                        c if (c as u32) < 0x20 => out.push_str(&format!("\\u{:04x}", c as u32)),
                        c => out.push(c),
                    }
                }
                out.push('"');
            }
            J::Arr(a) => {
                out.push('[');
                for (i, x) in a.iter().enumerate() {
                    if i > 0 {
                        out.push(',');
                    }
                    x.write(out);
                }
                out.push(']');
            }
            J::Obj(m) => {
                out.push('{');
                for (i, (k, v)) in m.iter().enumerate() {
                    if i > 0 {
                        out.push(',');
                    }
                    J::Str(k.clone()).write(out);
                    out.push(':');
                    v.write(out);
                }
                out.push('}');
            }
        }
    }

    // ------------------------------------------------------------ parser
    pub fn parse(s: &str) -> Option<J> {
        let b: Vec<char> = s.chars().collect();
        let mut p = 0;
        let v = parse_value(&b, &mut p)?;
        Some(v)
    }
}

fn ws(b: &[char], p: &mut usize) {
    while *p < b.len() && b[*p].is_whitespace() {
        *p += 1;
    }
}

fn parse_value(b: &[char], p: &mut usize) -> Option<J> {
    ws(b, p);
    if *p >= b.len() {
        return None;
    }
    match b[*p] {
        '{' => {
            *p += 1;
            let mut m = BTreeMap::new();
            ws(b, p);
            if b.get(*p) == Some(&'}') {
                *p += 1;
                return Some(J::Obj(m));
            }
            loop {
                ws(b, p);
                let k = match parse_value(b, p)? {
                    J::Str(s) => s,
                    _ => return None,
                };
                ws(b, p);
                if b.get(*p) != Some(&':') {
                    return None;
                }
                *p += 1;
                let v = parse_value(b, p)?;
                m.insert(k, v);
                ws(b, p);
                match b.get(*p) {
                    Some(',') => *p += 1,
                    Some('}') => {
                        *p += 1;
                        return Some(J::Obj(m));
                    }
                    _ => return None,
                }
            }
        }
        '[' => {
            *p += 1;
            let mut a = vec![];
            ws(b, p);
            if b.get(*p) == Some(&']') {
                *p += 1;
                return Some(J::Arr(a));
            }
            loop {
                a.push(parse_value(b, p)?);
                ws(b, p);
                match b.get(*p) {
                    Some(',') => *p += 1,
                    Some(']') => {
                        *p += 1;
                        return Some(J::Arr(a));
                    }
                    _ => return None,
                }
            }
        }
        '"' => {
            *p += 1;
            let mut s = String::new();
            while *p < b.len() && b[*p] != '"' {
                if b[*p] == '\\' {
                    *p += 1;
                    match b.get(*p)? {
                        'n' => s.push('\n'),
                        't' => s.push('\t'),
                        'r' => s.push('\r'),
                        'u' => {
                            let h: String = b.get(*p + 1..*p + 5)?.iter().collect();
                            s.push(char::from_u32(u32::from_str_radix(&h, 16).ok()?)?);
                            *p += 4;
                        }
                        c => s.push(*c),
                    }
                } else {
                    s.push(b[*p]);
                }
                *p += 1;
            }
            *p += 1;
            Some(J::Str(s))
        }
        't' => {
            *p += 4;
            Some(J::Bool(true))
        }
        'f' => {
            *p += 5;
            Some(J::Bool(false))
        }
        'n' => {
            *p += 4;
            Some(J::Null)
        }
        _ => {
            let st = *p;
            while *p < b.len() && (b[*p].is_ascii_digit() || "+-.eE".contains(b[*p])) {
                *p += 1;
            }
            let t: String = b[st..*p].iter().collect();
            if let Ok(i) = t.parse::<i128>() {
                Some(J::Int(i))
            } else {
                t.parse::<f64>().ok().map(J::Num)
            }
        }
    }
}
