//! Generator of call histories on one encoder and one decoder object: rounds, resets (valid and
//! invalid), working-space recycling across codec flavours, and injected failing calls of every kind.

use crate::gen::*;
use crate::objs::{envelope, to_hex, ENGINES};
use crate::prng::Prng;

#[derive(Clone, Debug)]
pub struct HLine {
    pub line: String,
    /// the generator expects this call to return Err (it violates a documented precondition)
    pub expect_fail: bool,
}

/// one round of a history: the (re)configuration attempts that precede it, the configuration in
/// force, and the calls of the round ending with encode / decode
#[derive(Clone, Debug)]
pub struct Round {
    pub cfg: Cfg,
    pub setup: Vec<HLine>,
    pub body: Vec<HLine>,
    /// the round was abandoned after some adds (no encode / decode); the next round starts with a
    /// (re)configuration while shards are still pending
    pub abandoned: bool,
}

pub fn flatten(rounds: &[Round]) -> Vec<HLine> {
    rounds.iter().flat_map(|r| r.setup.iter().chain(r.body.iter()).cloned()).collect()
}

pub struct HistOpts {
    pub max_work: usize,
    pub rounds: usize,
    /// per-mille probability of injecting a failing call at each opportunity
    pub p_fail: usize,
    pub sizes: Vec<usize>,
    pub kinds: Vec<&'static str>,
    pub engines: Vec<&'static str>,
    /// allow `renew` (into_parts + new(Some(work))) between rounds
    pub renew: bool,
    pub extreme_args: bool,
}

impl Default for HistOpts {
    fn default() -> Self {
        HistOpts {
            max_work: 64,
            rounds: 3,
            p_fail: 250,
            sizes: vec![2, 4, 6, 62, 64, 66, 130],
            kinds: vec!["high", "low", "default", "rs"],
            engines: ENGINES.to_vec(),
            renew: true,
            extreme_args: true,
        }
    }
}

pub const EXTREME: [usize; 9] = [
    65535,
    65536,
    65537,
    1 << 32,
    (1 << 32) + 1,
    usize::MAX / 2,
    usize::MAX - 1,
    usize::MAX,
    1 << 20,
];

fn bad_counts(rng: &mut Prng, kind: &str) -> (usize, usize) {
    let env_kind = if kind == "rs" { "default" } else { kind };
    loop {
        let c = match rng.below(8) {
            0 => (0, rng.range(0, 5)),
            1 => (rng.range(1, 5), 0),
            2 => (*rng.pick(&EXTREME), rng.range(1, 9)),
            3 => (rng.range(1, 9), *rng.pick(&EXTREME)),
            4 => (65535, 2),
            5 => (2, 65535),
            6 => (32769, 32769),
            _ => (rng.range(30000, 70000), rng.range(30000, 70000)),
        };
        if !envelope(env_kind, c.0, c.1) {
            return c;
        }
    }
}

fn bad_size(rng: &mut Prng) -> usize {
    *rng.pick(&[0usize, 1, 3, 7, 63, 65, 129, 1023])
}

fn wrong_len_shard(rng: &mut Prng, sb: usize) -> Vec<u8> {
    let n = match rng.below(5) {
        0 => 0,
        1 => sb + 1,
        2 => sb.saturating_sub(1),
        3 => sb + 2,
        _ => sb.saturating_sub(2),
    };
    let n = if n == sb { sb + 2 } else { n };
    rng.bytes(n)
}

/// (re)configuration line for object `obj` ("E"/"D"); returns the new configuration when it is
/// expected to succeed
fn reconfig(
    rng: &mut Prng,
    o: &HistOpts,
    obj: &str,
    cur: Option<&Cfg>,
    out: &mut Vec<HLine>,
) -> Option<Cfg> {
    let fail = rng.below(1000) < o.p_fail;
    // kind of (re)configuration
    let how = match cur {
        None => "new",
        Some(c) if c.kind == "rs" || !o.renew => {
            if rng.chance(1, 6) {
                "new"
            } else {
                "reset"
            }
        }
        Some(_) => *rng.pick(&["reset", "reset", "renew", "new"]),
    };
    let base = gen_cfg(rng, o.max_work, &o.kinds, &o.engines, &o.sizes);
    let (kind, engine) = match (how, cur) {
        ("reset", Some(c)) => (c.kind.clone(), c.engine.clone()),
        ("renew", _) => {
            // renew to a non-rs flavour (rs cannot take a work space)
            let k = if base.kind == "rs" { "default".to_string() } else { base.kind.clone() };
            let e = if base.kind == "rs" { "default".to_string() } else { base.engine.clone() };
            (k, e)
        }
        _ => (base.kind.clone(), base.engine.clone()),
    };
    // counts supported by the (possibly different) kind
    let (k, r) = if how == "reset" || how == "renew" {
        let (_, k, r) = gen_counts(rng, o.max_work, &[if kind == "rs" { "default" } else { kind.as_str() }]);
        (k, r)
    } else {
        (base.k, base.r)
    };
    let mut cfg = Cfg { kind, engine, k, r, sb: base.sb };
    // every fourth reset / renew goes to exactly the configuration already in force (a "no-op"
    // reconfiguration must still forget pending shards)
    if let (true, Some(c)) = ((how == "reset" || how == "renew") && rng.chance(1, 4), cur) {
        if how == "reset" || c.kind != "rs" {
            // a renew with the same counts goes to the OTHER dedicated rate half of the time (the working
            // space then changes layout under identical counts)
            let other = match c.kind.as_str() { "high" => "low", "low" => "high", _ => "" };
            let nk = if how == "reset" { c.kind.clone() } else if !other.is_empty() && rng.chance(1, 2) { other.to_string() } else { cfg.kind.clone() };
            let ne = if nk == "rs" { "default".to_string() } else { cfg.engine.clone() };
            cfg = Cfg { kind: nk, engine: ne, k: c.k, r: c.r, sb: c.sb };
            // a renew to another flavour must still support the counts
            let env_kind = if cfg.kind == "rs" { "default" } else { cfg.kind.as_str() };
            if !envelope(env_kind, cfg.k, cfg.r) {
                cfg.kind = c.kind.clone();
            }
        }
    }
    let mut expect_fail = false;
    let intended = cfg.clone();
    if fail {
        expect_fail = true;
        match rng.below(3) {
            0 => {
                let (bk, br) = bad_counts(rng, &cfg.kind);
                cfg.k = bk;
                cfg.r = br;
            }
            1 => cfg.sb = bad_size(rng),
            _ => {
                let (bk, br) = bad_counts(rng, &cfg.kind);
                cfg.k = bk;
                cfg.r = br;
                cfg.sb = bad_size(rng);
            }
        }
    }
    let line = match how {
        "reset" => format!("{} reset {} {} {}", obj, cfg.k, cfg.r, cfg.sb),
        _ => format!("{} {} {} {} {} {} {}", obj, how, cfg.kind, cfg.engine, cfg.k, cfg.r, cfg.sb),
    };
    out.push(HLine { line, expect_fail });
    if expect_fail && how == "reset" && rng.chance(1, 2) {
        // the caller corrects the rejected argument and retries the reset it intended
        out.push(HLine { line: format!("{} reset {} {} {}", obj, intended.k, intended.r, intended.sb), expect_fail: false });
        return Some(intended);
    }
    if expect_fail {
        None
    } else {
        Some(cfg)
    }
}

/// history on the encoder object; originals of every round are random
pub fn enc_history(rng: &mut Prng, o: &HistOpts) -> Vec<Round> {
    let mut rounds: Vec<Round> = vec![];
    let mut out = vec![];
    let mut cur: Option<Cfg> = None;
    // first configuration must succeed eventually
    while cur.is_none() {
        // a failed `new` leaves no object: regenerate until one succeeds
        let c = reconfig(rng, o, "E", None, &mut out);
        cur = c;
    }
    let mut prev_abandoned = false;
    for round in 0..o.rounds {
        if round > 0 && (prev_abandoned || rng.chance(2, 3)) {
            let before = cur.clone();
            let mut c = reconfig(rng, o, "E", cur.as_ref(), &mut out);
            // after an abandoned round the object must really be reconfigured: retry until it succeeds
            while prev_abandoned && c.is_none() && !(out.last().unwrap().line.contains(" new ") || out.last().unwrap().line.contains(" renew ")) {
                c = reconfig(rng, o, "E", cur.as_ref(), &mut out);
            }
            let last = out.last().unwrap().line.clone();
            if let Some(c) = c {
                cur = Some(c);
            } else if last.contains(" new ") || last.contains(" renew ") {
                // a failed constructor consumed the old object: build a fresh one
                cur = None;
                while cur.is_none() {
                    cur = reconfig(rng, o, "E", None, &mut out);
                }
            } else {
                cur = before;
            }
        }
        let c = cur.clone().unwrap();
        let setup = std::mem::take(&mut out);
        prev_abandoned = round + 1 < o.rounds && rng.chance(1, 6);
        if prev_abandoned {
            let n = rng.below(c.k + 1);
            for _ in 0..n {
                out.push(HLine { line: format!("E add {}", to_hex(&rng.bytes(c.sb))), expect_fail: false });
            }
            rounds.push(Round { cfg: c, setup, body: std::mem::take(&mut out), abandoned: true });
            continue;
        }
        let mut added = 0;
        while added < c.k {
            if rng.below(1000) < o.p_fail / 4 {
                out.push(HLine {
                    line: format!("E add {}", to_hex(&wrong_len_shard(rng, c.sb))),
                    expect_fail: true,
                });
            }
            if added < c.k && rng.below(1000) < o.p_fail / 6 {
                out.push(HLine { line: "E encode".into(), expect_fail: true });
            }
            out.push(HLine { line: format!("E add {}", to_hex(&rng.bytes(c.sb))), expect_fail: false });
            added += 1;
        }
        if rng.below(1000) < o.p_fail {
            // one too many
            out.push(HLine { line: format!("E add {}", to_hex(&rng.bytes(c.sb))), expect_fail: true });
        }
        if rng.below(1000) < o.p_fail / 2 {
            let bad = Cfg { kind: c.kind.clone(), engine: c.engine.clone(), k: 0, r: 1, sb: c.sb };
            out.push(HLine { line: format!("E reset {} {} {}", bad.k, bad.r, bad.sb), expect_fail: true });
            out.push(HLine { line: format!("E reset {} {} {}", c.k, c.r, bad_size(rng)), expect_fail: true });
        }
        out.push(HLine { line: "E encode".into(), expect_fail: false });
        rounds.push(Round { cfg: c, setup, body: std::mem::take(&mut out), abandoned: false });
    }
    rounds
}

/// history on the decoder object.  Each round: encode random originals (through the
/// implementation, flavour-compatible), then add a sufficient subset in random order with
/// injected failing calls, decode.
pub fn dec_history(rng: &mut Prng, o: &HistOpts) -> Vec<Round> {
    let mut rounds: Vec<Round> = vec![];
    let mut out = vec![];
    let mut cur: Option<Cfg> = None;
    while cur.is_none() {
        cur = reconfig(rng, o, "D", None, &mut out);
    }
    let mut prev_abandoned = false;
    let mut prev_positions: Option<Vec<usize>> = None;
    for round in 0..o.rounds {
        if round > 0 && (prev_abandoned || rng.chance(2, 3)) {
            let before = cur.clone();
            let mut c = reconfig(rng, o, "D", cur.as_ref(), &mut out);
            while prev_abandoned && c.is_none() && !(out.last().unwrap().line.contains(" new ") || out.last().unwrap().line.contains(" renew ")) {
                c = reconfig(rng, o, "D", cur.as_ref(), &mut out);
            }
            let last = out.last().unwrap().line.clone();
            if let Some(c) = c {
                cur = Some(c);
            } else if last.contains(" new ") || last.contains(" renew ") {
                cur = None;
                while cur.is_none() {
                    cur = reconfig(rng, o, "D", None, &mut out);
                }
            } else {
                cur = before;
            }
        }
        let c = cur.clone().unwrap();
        let setup = std::mem::take(&mut out);
        let originals = gen_originals(rng, c.k, c.sb);
        let enc_cfg = Cfg { engine: "nosimd".into(), ..c.clone() };
        let recovery = match encode_impl(&enc_cfg, &originals) {
            Some(r) => r,
            None => vec![vec![0u8; c.sb]; c.r],
        };
        let (mut go, mut gr, _) = gen_received(rng, c.k, c.r);
        // one round in three re-creates the received-position bitmap of the previous round in the
        // layout now in force (state keyed on "the same bitmap as last time" must not survive a
        // change of layout, counts or data)
        let high = match c.kind.as_str() { "high" => true, "low" => false, _ => rule_is_high(c.k, c.r) };
        let (obase, rbase) = if high { (npow2(c.r), 0) } else { (0, npow2(c.k)) };
        if let Some(prev) = prev_positions.as_ref() {
            if rng.chance(1, 3) {
                let o2: Vec<usize> = prev.iter().filter(|p| **p >= obase && **p < obase + c.k).map(|p| p - obase).collect();
                let r2: Vec<usize> = prev.iter().filter(|p| **p >= rbase && **p < rbase + c.r).map(|p| p - rbase).collect();
                if o2.len() + r2.len() >= c.k {
                    go = o2;
                    gr = r2;
                }
            }
        }
        prev_positions = Some(go.iter().map(|i| obase + i).chain(gr.iter().map(|j| rbase + j)).collect());
        let mut order: Vec<(bool, usize)> =
            go.iter().map(|i| (true, *i)).chain(gr.iter().map(|i| (false, *i))).collect();
        rng.shuffle(&mut order);
        let mut done: Vec<(bool, usize)> = vec![];
        let n_total = order.len();
        prev_abandoned = round + 1 < o.rounds && rng.chance(1, 5);
        if prev_abandoned {
            // pending shards (incl. from the tail of both sections), then no decode: either too few
            // shards followed by a failing decode, or simply walking away
            let keep = rng.below(order.len() + 1);
            for (is_o, i) in order.iter().take(keep) {
                let bytes = if *is_o { &originals[*i] } else { &recovery[*i] };
                out.push(HLine { line: format!("D {} {} {}", if *is_o { "addo" } else { "addr" }, i, to_hex(bytes)), expect_fail: false });
            }
            if keep < c.k && rng.chance(1, 2) {
                out.push(HLine { line: "D decode".into(), expect_fail: true });
            }
            rounds.push(Round { cfg: c, setup, body: std::mem::take(&mut out), abandoned: true });
            continue;
        }
        for (n, (is_o, i)) in order.iter().enumerate() {
            let pf = o.p_fail / 5;
            if rng.below(1000) < pf {
                // out-of-range index
                let idx = if o.extreme_args && rng.chance(1, 2) {
                    *rng.pick(&EXTREME)
                } else if *is_o {
                    c.k + rng.below(3)
                } else {
                    c.r + rng.below(3)
                };
                let bound = if *is_o { c.k } else { c.r };
                if idx >= bound {
                    out.push(HLine {
                        line: format!("D {} {} {}", if *is_o { "addo" } else { "addr" }, idx, to_hex(&rng.bytes(c.sb))),
                        expect_fail: true,
                    });
                }
            }
            if !done.is_empty() && rng.below(1000) < pf {
                // duplicate of something already added
                let (dio, di) = *rng.pick(&done);
                out.push(HLine {
                    line: format!("D {} {} {}", if dio { "addo" } else { "addr" }, di, to_hex(&rng.bytes(c.sb))),
                    expect_fail: true,
                });
            }
            if rng.below(1000) < pf {
                out.push(HLine {
                    line: format!("D {} {} {}", if *is_o { "addo" } else { "addr" }, i, to_hex(&wrong_len_shard(rng, c.sb))),
                    expect_fail: true,
                });
            }
            // decode too early: fails only while fewer than k shards are in
            if n < c.k && n < n_total && rng.below(1000) < pf {
                out.push(HLine { line: "D decode".into(), expect_fail: true });
            }
            let bytes = if *is_o { &originals[*i] } else { &recovery[*i] };
            out.push(HLine {
                line: format!("D {} {} {}", if *is_o { "addo" } else { "addr" }, i, to_hex(bytes)),
                expect_fail: false,
            });
            done.push((*is_o, *i));
        }
        if rng.below(1000) < o.p_fail / 2 {
            out.push(HLine { line: format!("D reset 0 1 {}", c.sb), expect_fail: true });
            out.push(HLine { line: format!("D reset {} {} {}", c.k, c.r, bad_size(rng)), expect_fail: true });
        }
        out.push(HLine { line: "D decode".into(), expect_fail: false });
        rounds.push(Round { cfg: c, setup, body: std::mem::take(&mut out), abandoned: false });
    }
    rounds
}
