//! rsharness: correspondence + direct-oracle checks of reed-solomon-simd against the Lean model.
//!
//!   rsharness <property> --tier quick|thorough --seed N --model PATH --out REPORT.json
//!   rsharness replay --model PATH --case CASE.json        (re-runs one recorded case)

mod alloc;
mod ctx;
mod fatal;
mod gen;
mod json;
mod neon_emu;
mod neon_port;
mod objs;
mod prim;
mod prng;
mod props;
mod seqgen;

use ctx::{Case, Ctx};
use json::J;

#[global_allocator]
static GLOBAL: alloc::Counting = alloc::Counting;

fn arg(args: &[String], name: &str) -> Option<String> {
    args.iter().position(|a| a == name).and_then(|i| args.get(i + 1).cloned())
}

fn args_thorough() -> bool { std::env::args().any(|a| a == "thorough") }

fn main() {
    // panics inside the library are caught per call; keep stderr quiet
    std::panic::set_hook(Box::new(|_| {}));
    fatal::install();
    fatal::watchdog(std::env::var("RSH_WATCHDOG_SECS").ok().and_then(|v| v.parse().ok()).unwrap_or(if args_thorough() { 2400 } else { 600 }));
    let args: Vec<String> = std::env::args().collect();
    if args.len() < 2 {
        eprintln!("usage: rsharness <property|replay> --tier T --seed N --model PATH --out FILE");
        std::process::exit(2);
    }
    let what = args[1].clone();
    // child modes of the C16 check (fresh processes, cold tables)
    match what.as_str() {
        "env-child" => { props::envchild::child(args[2].parse().unwrap_or(1)); return; }
        "c16-engines" => { props::c16::child_engines(args[2].parse().unwrap_or(1), args[3].parse().unwrap_or(16)); return; }
        "c16-pipe" => { props::c16::child_pipe(args[2].parse().unwrap_or(1)); return; }
        "c16-deps" => { props::c16::child_deps(&args[2]); return; }
        "c16-churn" => { props::c16::child_churn(args[2].parse().unwrap_or(1), args[3].parse().unwrap_or(24)); return; }
        "c16-race" => { props::c16::child_race(args[2].parse().unwrap_or(1), args[3].parse().unwrap_or(4)); return; }
        "c16-gen" => {
            match props::c16::observe_deps() {
                Ok(t) => { let out = arg(&args, "--out").expect("--out"); std::fs::write(out, props::c16::lean_file(&t)).expect("write"); println!("{:?}", t); }
                Err(e) => { eprintln!("{}", e); std::process::exit(1); }
            }
            return;
        }
        _ => {}
    }
    let tier = arg(&args, "--tier").unwrap_or("quick".into());
    let seed: u64 = arg(&args, "--seed").and_then(|s| s.parse().ok()).unwrap_or(1);
    let model = arg(&args, "--model").unwrap_or("/verif/lean/.lake/build/bin/rsmodel".into());
    let out = arg(&args, "--out");
    let mut ctx = Ctx::new(&what, &tier, seed, &model);
    if !neon_port::AVAILABLE {
        ctx.unavailable.push("neon-port".into());
    }
    // minimized past failures of this property run first
    if what.starts_with('C') {
        if let Ok(rd) = std::fs::read_dir("/verif/corpus") {
            let mut files: Vec<_> = rd.filter_map(|e| e.ok()).map(|e| e.path()).filter(|p| p.file_name().and_then(|n| n.to_str()).map(|n| n.starts_with(&format!("{}-", what)) && n.ends_with(".json")).unwrap_or(false)).collect();
            files.sort();
            let mut corpus = vec![];
            for f in files {
                if let Some(j) = std::fs::read_to_string(&f).ok().and_then(|t| J::parse(&t)) {
                    if let Some(mut c) = Case::from_json(&j) { c.name = format!("corpus:{}", c.name); corpus.push(c); }
                }
            }
            if !corpus.is_empty() {
                ctx.run_cases(&corpus);
                ctx.bump("corpus_cases", corpus.len());
            }
        }
    }
    match what.as_str() {
        "replay" => {
            let path = arg(&args, "--case").expect("--case");
            let text = std::fs::read_to_string(&path).expect("read case");
            let j = J::parse(&text).expect("parse case");
            let cj = j.get("case").cloned().unwrap_or(j.clone());
            let case = Case::from_json(&cj).expect("case format");
            let runs = ctx.run_cases(&[case.clone()]);
            for (l, a) in case.lines.iter().zip(runs[0].answers.iter()) {
                println!("{}  =>  {}", ctx::short(l), ctx::short(&a.line()));
            }
            for f in &ctx.findings {
                println!("REPLAY-FINDING [{}] {}", f.class, ctx::short(&f.what));
            }
            if !ctx.findings.is_empty() {
                std::process::exit(1);
            }
            println!("REPLAY-CLEAN: the generic oracles (truthful errors, no panic, accessor contract, model agreement) hold on this case");
        }
        "C01" => props::c01::run(&mut ctx),
        "C02" => props::c02::run(&mut ctx),
        "C03" => props::c03::run(&mut ctx),
        "C04" => props::c04::run(&mut ctx),
        "C05" => props::c05::run(&mut ctx),
        "C06" => props::c06::run(&mut ctx),
        "C07" => props::c07::run(&mut ctx),
        "C08" => props::c08::run(&mut ctx),
        "C09" => props::c09::run(&mut ctx),
        "C10" => props::c10::run(&mut ctx),
        "C11" => props::c11::run(&mut ctx),
        "C13" => props::c13::run(&mut ctx),
        "C14" => props::c14::run(&mut ctx),
        "C15" => props::c15::run(&mut ctx),
        "C16" => props::c16::run(&mut ctx),
        "C17" => props::c17::run(&mut ctx),
        "C12" => props::c12::run(&mut ctx),
        other => {
            eprintln!("unknown property {}", other);
            std::process::exit(2);
        }
    }
    let rep = ctx.report().dump();
    match out {
        Some(p) => std::fs::write(p, rep).expect("write report"),
        None => println!("{}", rep),
    }
}
