//! Engine primitives behind an object-safe trait, and the harness's own GF(2^16) arithmetic
//! (from the two pinned constants; a second, independent transcription next to the Lean one).

use reed_solomon_simd::engine::{Avx2, DefaultEngine, Engine, Naive, NoSimd, ShardsRefMut, Ssse3};

use crate::neon_port::Neon;

pub trait Prims {
    fn fft(&self, data: &mut [[u8; 64]], count: usize, len64: usize, pos: usize, size: usize, trunc: usize, delta: usize);
    fn ifft(&self, data: &mut [[u8; 64]], count: usize, len64: usize, pos: usize, size: usize, trunc: usize, delta: usize);
    fn mul(&self, x: &mut [[u8; 64]], log_m: u16);
    fn eval_poly(&self, e: &mut [u16; 65536], trunc: usize);
}

pub struct P<E: Engine>(pub E);

/// Runs `f` on a copy of `data` that starts `off` bytes after a 64-byte boundary, `off` rotating through 0, 13, 26, …
/// from call to call (`[u8; 64]` has alignment 1: a caller-owned `ShardsRefMut` may sit at ANY address, and the primitives
/// must not depend on where — the crate's own buffers always come aligned from the allocator), then copies the result back.
thread_local! { static WHAT: std::cell::RefCell<String> = std::cell::RefCell::new(String::new()); }

fn at_rotating_offset(data: &mut [[u8; 64]], f: impl FnOnce(&mut [[u8; 64]])) {
    thread_local! { static OFF: std::cell::Cell<usize> = std::cell::Cell::new(0); }
    let off = OFF.with(|o| { let v = o.get(); o.set((v + 13) % 64); v });
    WHAT.with(|w| crate::fatal::set_current(&format!("{} on {} blocks starting {} bytes after a 64-byte boundary", w.borrow(), data.len(), off)));
    if off == 0 {
        return f(data);
    }
    let n = data.len();
    let mut buf = vec![0u8; n * 64 + 128];
    let start = (64 - buf.as_ptr() as usize % 64) % 64 + off;
    buf[start..start + n * 64].copy_from_slice(data.as_flattened());
    {
        // SAFETY: `[u8; 64]` has alignment 1 and the range lies inside `buf`
        let s: &mut [[u8; 64]] = unsafe { std::slice::from_raw_parts_mut(buf.as_mut_ptr().add(start).cast::<[u8; 64]>(), n) };
        f(s);
    }
    data.as_flattened_mut().copy_from_slice(&buf[start..start + n * 64]);
}

impl<E: Engine> Prims for P<E> {
    fn fft(&self, data: &mut [[u8; 64]], count: usize, len64: usize, pos: usize, size: usize, trunc: usize, delta: usize) {
        WHAT.with(|w| *w.borrow_mut() = format!("{}::fft count={} len64={} pos={} size={} trunc={} delta={}", std::any::type_name::<E>(), count, len64, pos, size, trunc, delta));
        at_rotating_offset(data, |d| {
            let mut r = ShardsRefMut::new(count, len64, d);
            self.0.fft(&mut r, pos, size, trunc, delta);
        });
    }
    fn ifft(&self, data: &mut [[u8; 64]], count: usize, len64: usize, pos: usize, size: usize, trunc: usize, delta: usize) {
        WHAT.with(|w| *w.borrow_mut() = format!("{}::ifft count={} len64={} pos={} size={} trunc={} delta={}", std::any::type_name::<E>(), count, len64, pos, size, trunc, delta));
        at_rotating_offset(data, |d| {
            let mut r = ShardsRefMut::new(count, len64, d);
            self.0.ifft(&mut r, pos, size, trunc, delta);
        });
    }
    fn mul(&self, x: &mut [[u8; 64]], log_m: u16) {
        WHAT.with(|w| *w.borrow_mut() = format!("{}::mul log_m={}", std::any::type_name::<E>(), log_m));
        at_rotating_offset(x, |d| self.0.mul(d, log_m));
    }
    fn eval_poly(&self, e: &mut [u16; 65536], trunc: usize) {
        E::eval_poly(e, trunc);
    }
}

pub fn engine(name: &str) -> Box<dyn Prims> {
    match name {
        "naive" => Box::new(P(Naive::new())),
        "nosimd" => Box::new(P(NoSimd::new())),
        "ssse3" => Box::new(P(Ssse3::new())),
        "avx2" => Box::new(P(Avx2::new())),
        "neon" => Box::new(P(Neon::new())),
        _ => Box::new(P(DefaultEngine::new())),
    }
}

// ----------------------------------------------------------------------
// own field arithmetic (pinned constants)

pub const POLY: u32 = 0x1002D;
pub const BASIS: [u16; 16] = [
    0x0001, 0xACCA, 0x3C0E, 0x163E, 0xC582, 0xED2E, 0x914C, 0x4012, 0x6C98, 0x10D8, 0x6A72, 0xB900,
    0xFDB8, 0xFB34, 0xFF38, 0x991E,
];

pub struct Field {
    pub phi: Vec<u16>,
    pub phi_inv: Vec<u16>,
}

impl Field {
    pub fn new() -> Self {
        let mut phi = vec![0u16; 65536];
        for c in 0..65536usize {
            let mut r = 0u16;
            for i in 0..16 {
                if c >> i & 1 == 1 {
                    r ^= BASIS[i];
                }
            }
            phi[c] = r;
        }
        let mut phi_inv = vec![0u16; 65536];
        for c in 0..65536usize {
            phi_inv[phi[c] as usize] = c as u16;
        }
        Field { phi, phi_inv }
    }
    pub fn pmul(a: u16, b: u16) -> u16 {
        let mut r: u32 = 0;
        for i in (0..16).rev() {
            r <<= 1;
            if r & 0x10000 != 0 {
                r ^= POLY;
            }
            if b >> i & 1 == 1 {
                r ^= a as u32;
            }
        }
        r as u16
    }
    pub fn gmul(&self, a: u16, b: u16) -> u16 {
        self.phi_inv[Self::pmul(self.phi[a as usize], self.phi[b as usize]) as usize]
    }
    /// g^m with g = coordinates of the polynomial x
    pub fn gexp_table(&self) -> Vec<u16> {
        let g = self.phi_inv[2];
        let mut t = vec![0u16; 65536];
        let mut e = 1u16;
        for k in 0..65536 {
            t[k] = e;
            e = self.gmul(g, e);
        }
        t
    }
}

/// symbol `l` of a 64-byte-block shard (32 low bytes then 32 high bytes per block)
pub fn get_sym(shard: &[[u8; 64]], l: usize) -> u16 {
    let b = &shard[l / 32];
    b[l % 32] as u16 | (b[l % 32 + 32] as u16) << 8
}

pub fn set_sym(shard: &mut [[u8; 64]], l: usize, v: u16) {
    let b = &mut shard[l / 32];
    b[l % 32] = v as u8;
    b[l % 32 + 32] = (v >> 8) as u8;
}
