//! One deterministic PRNG for every random choice of a run (seeded by VERIF_SEED).

#[derive(Clone)]
pub struct Prng(pub u64);

impl Prng {
    pub fn new(seed: u64) -> Self {
        let mut p = Prng(seed ^ 0x9E37_79B9_7F4A_7C15);
        p.next_u64();
        p
    }

    /// splitmix64
    pub fn next_u64(&mut self) -> u64 {
        self.0 = self.0.wrapping_add(0x9E37_79B9_7F4A_7C15);
        let mut z = self.0;
        z = (z ^ (z >> 30)).wrapping_mul(0xBF58_476D_1CE4_E5B9);
        z = (z ^ (z >> 27)).wrapping_mul(0x94D0_49BB_1331_11EB);
        z ^ (z >> 31)
    }

    /// uniform in 0..n (n > 0)
    pub fn below(&mut self, n: usize) -> usize {
        (self.next_u64() % (n as u64)) as usize
    }

    /// uniform in lo..=hi
    pub fn range(&mut self, lo: usize, hi: usize) -> usize {
        lo + self.below(hi - lo + 1)
    }

    pub fn chance(&mut self, num: usize, den: usize) -> bool {
        self.below(den) < num
    }

    pub fn pick<'a, T>(&mut self, xs: &'a [T]) -> &'a T {
        &xs[self.below(xs.len())]
    }

    pub fn bytes(&mut self, n: usize) -> Vec<u8> {
        let mut v = Vec::with_capacity(n);
        while v.len() < n {
            let x = self.next_u64().to_le_bytes();
            for b in x {
                if v.len() < n {
                    v.push(b);
                }
            }
        }
        v
    }

    pub fn shuffle<T>(&mut self, xs: &mut [T]) {
        for i in (1..xs.len()).rev() {
            let j = self.below(i + 1);
            xs.swap(i, j);
        }
    }

    /// random subset of 0..n with exactly m members, ascending
    pub fn subset(&mut self, n: usize, m: usize) -> Vec<usize> {
        let mut all: Vec<usize> = (0..n).collect();
        self.shuffle(&mut all);
        all.truncate(m);
        all.sort_unstable();
        all
    }

    pub fn fork(&mut self) -> Prng {
        Prng::new(self.next_u64())
    }
}
