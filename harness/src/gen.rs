//! Generators shared by the property checks.

use crate::objs::{envelope, to_hex, Session, Ans, parse_shards};
use crate::prng::Prng;

pub const SMALL_SIZES: [usize; 10] = [2, 4, 6, 30, 62, 64, 66, 126, 128, 130];
/// shards of 5 .. 18 blocks of 64 bytes, every residue of the block count modulo 4, with and without a partial
/// last block (a kernel loop unrolled over several blocks shows its remainder handling only here)
/// shards of 64 blocks and more (a kernel that switches strategy for long shards shows it only here)
pub const LONG_SIZES: [usize; 10] = [4096, 4098, 4160, 8222, 4034, 4094, 8130, 8190, 2046, 2050];
pub const MULTI_BLOCK_SIZES: [usize; 9] = [258, 320, 322, 384, 448, 450, 576, 706, 1090];

#[derive(Clone, Debug)]
pub struct Cfg {
    pub kind: String,
    pub engine: String,
    pub k: usize,
    pub r: usize,
    pub sb: usize,
}

impl Cfg {
    pub fn new_line(&self, obj: &str) -> String {
        format!("{} new {} {} {} {} {}", obj, self.kind, self.engine, self.k, self.r, self.sb)
    }
    pub fn tag(&self) -> String {
        format!("{}/{}/{}:{}/{}", self.kind, self.engine, self.k, self.r, self.sb)
    }
}

pub fn npow2(n: usize) -> usize {
    n.next_power_of_two()
}

/// rate the default rule picks (README / algorithm.md rule, written independently of the crate)
pub fn rule_is_high(k: usize, r: usize) -> bool {
    let (kp, rp) = (npow2(k), npow2(r));
    kp > rp || (kp == rp && k <= r)
}

/// decoder work positions of a configuration under a kind (for sizing model cases)
pub fn dec_work(kind: &str, k: usize, r: usize) -> usize {
    let high = match kind {
        "high" => true,
        "low" => false,
        _ => rule_is_high(k, r),
    };
    if high {
        npow2(npow2(r) + k)
    } else {
        npow2(npow2(k) + r)
    }
}

/// interesting counts: tiny, powers of two and their neighbours
pub fn count_pool(max: usize) -> Vec<usize> {
    let mut v: Vec<usize> = (1..=9).collect();
    let mut p = 8;
    while p <= max {
        for d in [p - 1, p, p + 1] {
            if d <= max {
                v.push(d);
            }
        }
        p *= 2;
    }
    v.sort_unstable();
    v.dedup();
    v
}

/// a supported (kind, k, r) with decoder work space at most `max_work`
pub fn gen_counts(rng: &mut Prng, max_work: usize, kinds: &[&str]) -> (String, usize, usize) {
    let pool = count_pool(max_work);
    loop {
        let kind = rng.pick(kinds).to_string();
        let (k, r) = if rng.chance(2, 3) {
            (*rng.pick(&pool), *rng.pick(&pool))
        } else {
            (rng.range(1, max_work), rng.range(1, max_work))
        };
        let env_kind = if kind == "rs" { "default" } else { &kind };
        if envelope(env_kind, k, r) && dec_work(env_kind, k, r) <= max_work {
            return (kind, k, r);
        }
    }
}

pub fn gen_cfg(rng: &mut Prng, max_work: usize, kinds: &[&str], engines: &[&str], sizes: &[usize]) -> Cfg {
    let (kind, k, r) = gen_counts(rng, max_work, kinds);
    let engine = if kind == "rs" { "default".to_string() } else { rng.pick(engines).to_string() };
    Cfg { kind, engine, k, r, sb: *rng.pick(sizes) }
}

pub fn gen_originals(rng: &mut Prng, k: usize, sb: usize) -> Vec<Vec<u8>> {
    let mode = rng.below(17);
    // a block shared by all shards (butterfly partners then cancel to an all-zero block)
    let shared = rng.bytes(64);
    // record-shaped data: the same 16-byte fields of every 64-byte block are zero in all shards
    // (so every intermediate value of the transform keeps that shape)
    let nblocks = sb.div_ceil(64).max(1);
    let one_mask = 1 + rng.below(14) as u8;
    let masks: Vec<u8> = (0..nblocks).map(|_| if mode == 7 { one_mask } else { rng.below(16) as u8 }).collect();
    (0..k)
        .map(|i| match mode {
            0 => vec![0u8; sb],
            1 => vec![0xffu8; sb],
            2 => {
                // unit-like data: one non-zero symbol
                let mut v = vec![0u8; sb];
                if i == 0 {
                    v[0] = 1;
                }
                v
            }
            3 | 4 => {
                // block-sparse: every 64-byte block is all-zero with probability 1/2
                let mut v = rng.bytes(sb);
                for b in 0..sb.div_ceil(64) {
                    if rng.chance(1, 2) {
                        for x in v[b * 64..((b + 1) * 64).min(sb)].iter_mut() {
                            *x = 0;
                        }
                    }
                }
                v
            }
            5 | 6 => {
                // shared prefix blocks: the first block(s) are identical in all shards
                let mut v = rng.bytes(sb);
                let nshared = if mode == 5 { 1 } else { sb.div_ceil(64).saturating_sub(1).max(1) };
                for (j, x) in v.iter_mut().enumerate() {
                    if j / 64 < nshared {
                        *x = shared[j % 64];
                    }
                }
                v
            }
            7 | 8 | 9 => {
                let mut v = rng.bytes(sb);
                for (j, x) in v.iter_mut().enumerate() {
                    if masks[j / 64] >> ((j % 64) / 16) & 1 == 1 {
                        *x = 0;
                    } else if *x == 0 {
                        *x = 1;
                    }
                }
                v
            }
            _ => rng.bytes(sb),
        })
        .collect()
}

/// encode on the implementation through the protocol interpreter; None if anything fails
pub fn encode_impl(cfg: &Cfg, originals: &[Vec<u8>]) -> Option<Vec<Vec<u8>>> {
    let mut s = Session::new();
    if !matches!(s.exec(&cfg.new_line("E")).0, Ans::Ok(_)) {
        return None;
    }
    for o in originals {
        if !matches!(s.exec(&format!("E add {}", to_hex(o))).0, Ans::Ok(_)) {
            return None;
        }
    }
    match s.exec("E encode").0 {
        Ans::Ok(p) => parse_shards(&p),
        _ => None,
    }
}

/// loss patterns: which originals / recovery shards the decoder is given (>= k in total unless `short`)
pub fn gen_received(rng: &mut Prng, k: usize, r: usize) -> (Vec<usize>, Vec<usize>, &'static str) {
    let pat = rng.below(14);
    gen_received_pat(rng, k, r, pat)
}

/// the loss pattern number `pat` (0..14)
pub fn gen_received_pat(rng: &mut Prng, k: usize, r: usize, pat: usize) -> (Vec<usize>, Vec<usize>, &'static str) {
    match pat {
        12 | 13 => {
            // exactly k shards whose HIGHEST received recovery shard sits on (or next to) a power-of-two
            // work position, in either rate's layout; everything else received lies below it
            let rbase = if rng.chance(1, 2) { 0 } else { npow2(k) };
            let mut tops: Vec<usize> = vec![];
            let mut p = 1usize;
            while p < rbase + r + 2 {
                for t in [p.saturating_sub(1), p, p + 1] {
                    if t >= rbase && t - rbase < r { tops.push(t - rbase); }
                }
                p *= 2;
            }
            if tops.is_empty() { tops.push(r - 1); }
            let jtop = *rng.pick(&tops);
            // how many recovery shards (incl. the top one); the rest of the k shards are originals
            let nr = rng.range(1, (jtop + 1).min(k));
            let mut rec = rng.subset(jtop, nr - 1);
            rec.push(jtop);
            let orig = rng.subset(k, k - nr);
            (orig, rec, "exact-k+top-recovery-on-pow2-position")
        }
        10 | 11 => {
            // the everyday case: a few originals lost, repaired from the LOWEST-numbered recovery shards
            let m = rng.range(1, r.min(k).min(3));
            let miss = rng.subset(k, m);
            let orig: Vec<usize> = (0..k).filter(|i| !miss.contains(i)).collect();
            (orig, (0..m).collect(), "few-lost+lowest-recovery")
        }
        8 | 9 => {
            // every recovery shard given, the missing originals form one window that starts late and
            // hugs a 32/64-position word boundary of the received-bitmap (in either rate's layout)
            let m = rng.range(1, r.min(k));
            let base = if rng.chance(1, 2) { 0 } else { npow2(r) };
            let mut cands: Vec<usize> = Vec::new();
            let mut w = 32;
            while w < base + k + 32 {
                for j in 0..=m + 1 {
                    if w >= base + j && w - base - j + m <= k {
                        cands.push(w - base - j);
                    }
                }
                w += 32;
            }
            let a = if cands.is_empty() || pat == 9 && rng.chance(1, 3) { rng.below(k - m + 1) } else { *rng.pick(&cands) };
            let orig: Vec<usize> = (0..k).filter(|i| *i < a || *i >= a + m).collect();
            ((orig), (0..r).collect(), "all-recovery+late-window")
        }
        0 => {
            // maximum loss: as many recovery shards as possible, the rest originals from the tail
            let nr = r.min(k);
            let rec: Vec<usize> = (0..nr).collect();
            let orig: Vec<usize> = (nr..k).collect();
            (orig, rec, "first-recovery+tail-originals")
        }
        1 => {
            // only recovery (if r >= k), otherwise all recovery + random originals
            let nr = r.min(k);
            let rec = rng.subset(r, nr);
            let orig = rng.subset(k, k - nr);
            (orig, rec, "max-recovery-random")
        }
        2 => {
            // all but one original + one recovery
            let miss = rng.below(k);
            let orig: Vec<usize> = (0..k).filter(|i| *i != miss).collect();
            (orig, vec![rng.below(r)], "one-missing")
        }
        3 => {
            // last positions missing
            let nm = rng.range(1, r.min(k));
            let orig: Vec<usize> = (0..k - nm).collect();
            let rec = rng.subset(r, nm);
            (orig, rec, "tail-missing")
        }
        4 => {
            // surplus: everything
            ((0..k).collect(), (0..r).collect(), "all-shards")
        }
        5 => {
            // all originals, some recovery
            let n = rng.below(r + 1);
            ((0..k).collect(), rng.subset(r, n), "all-originals")
        }
        6 => {
            // uniformly random subset of size exactly k
            let all = rng.subset(k + r, k);
            let orig: Vec<usize> = all.iter().filter(|i| **i < k).cloned().collect();
            let rec: Vec<usize> = all.iter().filter(|i| **i >= k).map(|i| i - k).collect();
            (orig, rec, "uniform-exact")
        }
        _ => {
            // uniformly random subset with surplus
            let n = rng.range(k, k + r);
            let all = rng.subset(k + r, n);
            let orig: Vec<usize> = all.iter().filter(|i| **i < k).cloned().collect();
            let rec: Vec<usize> = all.iter().filter(|i| **i >= k).map(|i| i - k).collect();
            (orig, rec, "uniform-surplus")
        }
    }
}
