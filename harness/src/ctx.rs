//! Case runner: executes protocol cases on the implementation and on the Lean model,
//! compares, evaluates the shadow-based C06 oracle, and collects the report.

use std::collections::BTreeMap;
use std::io::Write;
use std::process::{Command, Stdio};
use std::time::Instant;

use crate::json::J;
use crate::objs::{Ans, Session};
use crate::prng::Prng;

#[derive(Clone, Debug)]
pub struct Case {
    pub name: String,
    pub lines: Vec<String>,
    /// if false the case is only run on the implementation (e.g. too large for the model)
    pub with_model: bool,
}

impl Case {
    pub fn new(name: &str) -> Self {
        Case {
            name: name.to_string(),
            lines: vec![],
            with_model: true,
        }
    }
    pub fn push(&mut self, l: String) {
        self.lines.push(l);
    }
    pub fn to_json(&self) -> J {
        let mut j = J::obj();
        j.set("name", J::s(&self.name));
        j.set("lines", J::strs(&self.lines));
        j
    }
    pub fn from_json(j: &J) -> Option<Case> {
        Some(Case {
            name: j.get("name")?.as_str()?.to_string(),
            lines: j
                .get("lines")?
                .as_arr()?
                .iter()
                .filter_map(|x| x.as_str().map(|s| s.to_string()))
                .collect(),
            with_model: true,
        })
    }
}

/// what the implementation answered for one case
pub struct ImplRun {
    pub answers: Vec<Ans>,
    pub truthful: Vec<Vec<String>>,
    pub complaints: Vec<String>,
}

pub fn run_impl(case: &Case) -> ImplRun {
    let mut s = Session::new();
    let mut answers = vec![];
    let mut truthful = vec![];
    for l in &case.lines {
        let (a, t) = s.exec(l);
        answers.push(a);
        truthful.push(t);
    }
    ImplRun {
        answers,
        truthful,
        complaints: s.complaints,
    }
}

#[derive(Clone, Debug)]
pub struct Finding {
    /// "oracle" = the implementation violates the property's direct oracle;
    /// "model" = model and implementation differ; "spec" = model's and harness's truthful sets differ
    pub class: String,
    pub what: String,
    pub case: Case,
    pub line_no: Option<usize>,
}

impl Finding {
    pub fn to_json(&self) -> J {
        let mut j = J::obj();
        j.set("class", J::s(&self.class));
        j.set("what", J::s(&self.what));
        j.set("case", self.case.to_json());
        if let Some(n) = self.line_no {
            j.set("line_no", J::i(n));
        }
        j
    }
}

pub struct Ctx {
    pub property: String,
    pub tier: String,
    pub seed: u64,
    pub model_path: String,
    pub rng: Prng,
    pub started: Instant,
    pub findings: Vec<Finding>,
    pub evaluations: usize,
    pub distinct: std::collections::BTreeSet<u64>,
    pub hist: BTreeMap<String, BTreeMap<String, usize>>,
    pub samples: Vec<J>,
    pub notes: Vec<String>,
    pub model_lines: usize,
    pub precedence_diffs: usize,
    pub unavailable: Vec<String>,
    pub counters: BTreeMap<String, usize>,
}

fn fnv(s: &str) -> u64 {
    let mut h: u64 = 0xcbf29ce484222325;
    for b in s.bytes() {
        h ^= b as u64;
        h = h.wrapping_mul(0x100000001b3);
    }
    h
}

impl Ctx {
    pub fn new(property: &str, tier: &str, seed: u64, model_path: &str) -> Self {
        Ctx {
            property: property.to_string(),
            tier: tier.to_string(),
            seed,
            model_path: model_path.to_string(),
            rng: Prng::new(seed),
            started: Instant::now(),
            findings: vec![],
            evaluations: 0,
            distinct: Default::default(),
            hist: Default::default(),
            samples: vec![],
            notes: vec![],
            model_lines: 0,
            precedence_diffs: 0,
            unavailable: vec![],
            counters: Default::default(),
        }
    }

    pub fn thorough(&self) -> bool {
        self.tier == "thorough"
    }

    pub fn count(&mut self, hist: &str, key: &str) {
        *self
            .hist
            .entry(hist.to_string())
            .or_default()
            .entry(key.to_string())
            .or_default() += 1;
    }

    pub fn bump(&mut self, k: &str, n: usize) {
        *self.counters.entry(k.to_string()).or_default() += n;
    }

    pub fn sample(&mut self, j: J) {
        if self.samples.len() < 6 {
            self.samples.push(j);
        }
    }

    pub fn oracle_fail(&mut self, what: String, case: &Case, line_no: Option<usize>) {
        // caps are per class so that many model disagreements cannot crowd out a failing input
        if self.findings.iter().filter(|f| f.class == "oracle").count() < 200 {
            self.findings.push(Finding {
                class: "oracle".into(),
                what,
                case: case.clone(),
                line_no,
            });
        }
    }

    pub fn model_fail(&mut self, what: String, case: &Case, line_no: Option<usize>) {
        if self.findings.iter().filter(|f| f.class == "model").count() < 100 {
            self.findings.push(Finding {
                class: "model".into(),
                what,
                case: case.clone(),
                line_no,
            });
        }
    }

    /// one `rsmodel` process for a batch of lines; returns one answer per line
    pub fn model_eval(&mut self, lines: &[String]) -> Result<Vec<String>, String> {
        let r = model_eval_at(&self.model_path, lines)?;
        self.model_lines += lines.len();
        Ok(r)
    }

    /// Runs the cases on the implementation and on the model, compares every answer, and applies
    /// the shadow-based oracle (truthful errors, no panics, valid use succeeds).
    /// `strict_errors`: the property constrains which error is returned (C06/C10: membership in the
    /// truthful set; nothing demands the model's precedence).
    pub fn run_cases(&mut self, cases: &[Case]) -> Vec<ImplRun> {
        let mut runs = Vec::with_capacity(cases.len());
        let t_impl = Instant::now();
        for c in cases {
            // evidence: the first cases of a run, as they are (operation lines, long payloads shortened)
            if self.samples.len() < 3 && !c.lines.is_empty() {
                let mut j = J::obj();
                j.set("case", J::s(&c.name));
                j.set("lines", J::strs(&c.lines.iter().take(14).map(|l| short(l)).collect::<Vec<_>>()));
                if c.lines.len() > 14 {
                    j.set("more_lines", J::Num(c.lines.len() as f64 - 14.0));
                }
                self.samples.push(j);
            }
            let r = run_impl(c);
            self.evaluations += 1;
            self.distinct.insert(fnv(&c.lines.join("\n")));
            runs.push(r);
        }
        self.bump("impl_ms", t_impl.elapsed().as_millis() as usize);
        let oracle_before = self.findings.iter().filter(|f| f.class == "oracle").count();
        // shadow oracle on the implementation alone
        for (c, r) in cases.iter().zip(runs.iter()) {
            for (n, (a, tr)) in r.answers.iter().zip(r.truthful.iter()).enumerate() {
                match a {
                    Ans::Panic(p) => {
                        self.oracle_fail(format!("panic on `{}`: {}", c.lines[n], p), c, Some(n))
                    }
                    Ans::Err(e) => {
                        if !tr.contains(e) {
                            self.oracle_fail(
                                format!(
                                    "`{}` returned Err({}) which is not a violated precondition (truthful: {:?})",
                                    short(&c.lines[n]), e, tr
                                ),
                                c,
                                Some(n),
                            );
                        }
                        self.count("error_kinds", e.split(' ').next().unwrap_or(""));
                    }
                    Ans::Ok(_) => {
                        if !tr.is_empty() {
                            self.oracle_fail(
                                format!(
                                    "`{}` returned Ok although it violates: {:?}",
                                    short(&c.lines[n]), tr
                                ),
                                c,
                                Some(n),
                            );
                        }
                    }
                    Ans::Bool(_) | Ans::BadOp => {}
                }
                let op: String = c.lines[n].split(' ').take(2).collect::<Vec<_>>().join(" ");
                self.count("ops", &op);
            }
            for cm in &r.complaints {
                self.oracle_fail(format!("accessor contract: {}", cm), c, None);
            }
        }
        // shrink the first few generic failures of this batch to minimal call sequences
        let mut shrunk = 0;
        for k in oracle_before..self.findings.len() {
            if shrunk >= 3 { break; }
            if self.findings[k].class == "oracle" && self.findings[k].case.lines.len() > 3 && self.findings[k].case.lines.len() < 4000 {
                let c = shrink_generic(&self.findings[k].case, &self.findings[k].what);
                if c.lines.len() < self.findings[k].case.lines.len() {
                    self.findings[k].case = c;
                    self.findings[k].line_no = None;
                }
                shrunk += 1;
            }
        }
        // model: the cases are spread over up to 14 rsmodel processes
        let t_model = Instant::now();
        let n_groups = 14usize;
        let mut groups: Vec<Vec<String>> = vec![vec![]; n_groups];
        // spans: (group, start, len)
        let mut spans = vec![];
        let mut weights = vec![0usize; n_groups];
        for c in cases {
            if c.with_model {
                let g = (0..n_groups).min_by_key(|g| weights[*g]).unwrap();
                weights[g] += c.lines.iter().map(|l| l.len() + 200).sum::<usize>();
                let st = groups[g].len();
                groups[g].push("Z".to_string());
                groups[g].extend(c.lines.iter().cloned());
                spans.push(Some((g, st + 1, c.lines.len())));
            } else {
                spans.push(None);
            }
        }
        if groups.iter().all(|g| g.is_empty()) {
            return runs;
        }
        let model_path = self.model_path.clone();
        let handles: Vec<_> = groups
            .into_iter()
            .map(|g| {
                let mp = model_path.clone();
                std::thread::spawn(move || if g.is_empty() { Ok(vec![]) } else { model_eval_at(&mp, &g) })
            })
            .collect();
        let mut model: Vec<Vec<String>> = vec![];
        for h in handles {
            match h.join().unwrap() {
                Ok(m) => {
                    self.model_lines += m.len();
                    model.push(m)
                }
                Err(e) => {
                    let dummy = Case::new("model-run");
                    self.model_fail(format!("model could not be run: {}", e), &dummy, None);
                    return runs;
                }
            }
        }
        self.bump("model_ms", t_model.elapsed().as_millis() as usize);
        for ((c, r), sp) in cases.iter().zip(runs.iter()).zip(spans.iter()) {
            let Some((g, st, len)) = sp else { continue };
            for n in 0..*len {
                let m = &model[*g][st + n];
                let (m_ans, m_tr) = match m.split_once(" | ") {
                    Some((a, t)) => (a.to_string(), Some(t.to_string())),
                    None => (m.clone(), None),
                };
                let i_line = r.answers[n].line();
                // truthful sets: model's vs harness's (as sets)
                if let Some(t) = &m_tr {
                    let mut ms: Vec<String> = if t == "-" {
                        vec![]
                    } else {
                        t.split(';').map(|s| s.to_string()).collect()
                    };
                    let mut hs = r.truthful[n].clone();
                    ms.sort();
                    ms.dedup();
                    hs.sort();
                    hs.dedup();
                    if ms != hs {
                        self.findings.push(Finding {
                            class: "spec".into(),
                            what: format!(
                                "truthful-error sets differ on `{}`: model {:?} harness {:?}",
                                short(&c.lines[n]), ms, hs
                            ),
                            case: c.clone(),
                            line_no: Some(n),
                        });
                    }
                }
                if m_ans == i_line {
                    continue;
                }
                let m_is_err = m_ans.starts_with("err ");
                let i_is_err = i_line.starts_with("err ");
                if m_is_err && i_is_err {
                    // both reject; the implementation's error was already checked for truthfulness
                    self.precedence_diffs += 1;
                    continue;
                }
                let m_panic = m_ans.starts_with("panic");
                if m_panic && i_line == "panic" {
                    continue;
                }
                self.model_fail(
                    format!(
                        "`{}`: implementation `{}` vs model `{}`",
                        short(&c.lines[n]),
                        short(&i_line),
                        short(&m_ans)
                    ),
                    c,
                    Some(n),
                );
                break;
            }
        }
        runs
    }

    pub fn report(&self) -> J {
        let mut j = J::obj();
        j.set("property", J::s(&self.property));
        j.set("tier", J::s(&self.tier));
        j.set("seed", J::Int(self.seed as i128));
        j.set("evaluations", J::i(self.evaluations));
        j.set("distinct_nontrivial", J::i(self.distinct.len()));
        j.set("model_lines", J::i(self.model_lines));
        j.set("precedence_diffs", J::i(self.precedence_diffs));
        j.set("wall_s", J::Num(self.started.elapsed().as_secs_f64()));
        let mut h = J::obj();
        for (k, m) in &self.hist {
            let mut o = J::obj();
            for (kk, v) in m {
                o.set(kk, J::i(*v));
            }
            h.set(k, o);
        }
        j.set("distribution", h);
        let mut cn = J::obj();
        for (k, v) in &self.counters {
            cn.set(k, J::i(*v));
        }
        j.set("counters", cn);
        j.set("samples", J::Arr(self.samples.clone()));
        j.set("notes", J::strs(&self.notes));
        j.set("unavailable", J::strs(&self.unavailable));
        j.set(
            "findings",
            J::Arr(self.findings.iter().map(|f| f.to_json()).collect()),
        );
        j
    }
}

/// the shadow-based oracle on one case (implementation only): (line index, description) of every
/// failure — panics, untruthful errors, Ok for invalid use, accessor-contract complaints
pub fn generic_failures(case: &Case) -> Vec<(Option<usize>, String)> {
    let r = run_impl(case);
    let mut out = vec![];
    for (n, (a, tr)) in r.answers.iter().zip(r.truthful.iter()).enumerate() {
        match a {
            Ans::Panic(p) => out.push((Some(n), format!("panic on `{}`: {}", short(&case.lines[n]), p))),
            Ans::Err(e) => {
                if !tr.contains(e) {
                    out.push((Some(n), format!("`{}` returned Err({}) which is not a violated precondition (truthful: {:?})", short(&case.lines[n]), e, tr)));
                }
            }
            Ans::Ok(_) => {
                if !tr.is_empty() {
                    out.push((Some(n), format!("`{}` returned Ok although it violates: {:?}", short(&case.lines[n]), tr)));
                }
            }
            _ => {}
        }
    }
    for cm in &r.complaints {
        out.push((None, format!("accessor contract: {}", cm)));
    }
    out
}

fn failure_kind(what: &str) -> String {
    // category of a failure: the text up to the first back-quote payload / number
    let w: String = what.chars().take_while(|c| *c != '`').collect();
    if w.trim().is_empty() {
        // starts with a quoted call: use what follows the call
        what.rsplit('`').next().unwrap_or("").chars().filter(|c| !c.is_ascii_digit()).take(40).collect()
    } else {
        w.chars().filter(|c| !c.is_ascii_digit()).take(40).collect()
    }
}

/// delta debugging on the lines of a case: keeps a failure of the same kind
pub fn shrink_generic(case: &Case, what: &str) -> Case {
    let kind = failure_kind(what);
    let still = |c: &Case| generic_failures(c).iter().any(|(_, w)| failure_kind(w) == kind);
    if !still(case) {
        return case.clone();
    }
    let mut cur = case.clone();
    let mut chunk = (cur.lines.len() / 2).max(1);
    let mut budget = 400;
    while chunk >= 1 && budget > 0 {
        let mut i = 0;
        let mut progressed = false;
        while i < cur.lines.len() && budget > 0 {
            let mut cand = cur.clone();
            let hi = (i + chunk).min(cand.lines.len());
            cand.lines.drain(i..hi);
            budget -= 1;
            if !cand.lines.is_empty() && still(&cand) {
                cur = cand;
                progressed = true;
            } else {
                i += chunk;
            }
        }
        if !progressed {
            if chunk == 1 { break; }
            chunk /= 2;
        }
    }
    cur.name = format!("{} (shrunk from {} to {} calls)", case.name, case.lines.len(), cur.lines.len());
    cur
}

pub fn model_eval_at(model_path: &str, lines: &[String]) -> Result<Vec<String>, String> {
    let mut child = Command::new(model_path)
        .stdin(Stdio::piped())
        .stdout(Stdio::piped())
        .stderr(Stdio::piped())
        .spawn()
        .map_err(|e| format!("cannot start rsmodel {}: {}", model_path, e))?;
    let mut input = String::new();
    for l in lines {
        input.push_str(l);
        input.push('\n');
    }
    let mut stdin = child.stdin.take().unwrap();
    let writer = std::thread::spawn(move || {
        let _ = stdin.write_all(input.as_bytes());
    });
    let out = child.wait_with_output().map_err(|e| e.to_string())?;
    let _ = writer.join();
    let text = String::from_utf8_lossy(&out.stdout).to_string();
    let answers: Vec<String> = text.lines().map(|s| s.to_string()).collect();
    if answers.len() != lines.len() {
        return Err(format!(
            "rsmodel answered {} lines for {} requests (exit {:?}, stderr: {})",
            answers.len(),
            lines.len(),
            out.status.code(),
            String::from_utf8_lossy(&out.stderr)
        ));
    }
    Ok(answers)
}

pub fn short(s: &str) -> String {
    if s.len() > 160 {
        format!("{}…({} chars)", &s[..150], s.len())
    } else {
        s.to_string()
    }
}
