//! Ports /repo/src/engine/engine_neon.rs textually onto an emulation of the seven Neon
//! intrinsics it uses, so that the AArch64-only source is executed on this x86 host.
use std::{env, fs, path::Path};

fn main() {
    let src_path = "/repo/src/engine/engine_neon.rs";
    println!("cargo:rerun-if-changed={}", src_path);
    println!("cargo:rerun-if-changed=build.rs");
    let out = Path::new(&env::var("OUT_DIR").unwrap()).join("neon_port.rs");
    let src = match fs::read_to_string(src_path) {
        Ok(s) => s,
        Err(_) => {
            fs::write(&out, "compile_error!(\"engine_neon.rs not found\");").unwrap();
            return;
        }
    };
    let mut ported = String::new();
    for line in src.lines() {
        let t = line.trim();
        if t.starts_with("#[target_feature") {
            continue;
        }
        // stop at the unit tests of the file, if any
        if t == "#[cfg(test)]" {
            break;
        }
        let l = line
            .replace("use std::arch::aarch64::*;", "use crate::neon_emu::*;")
            .replace("crate::engine::", "reed_solomon_simd::engine::")
            .replace("crate::verif_hooks::", "reed_solomon_simd::verif_hooks::")
            .replace("#[cfg(feature = \"verif-hooks\")]", "");
        ported.push_str(&l);
        ported.push('\n');
    }
    fs::write(&out, ported).unwrap();

    // engine_default.rs with the AArch64 branches switched on and the x86 branches off,
    // `is_aarch64_feature_detected!` replaced by a settable emulated detection
    let dsrc_path = "/repo/src/engine/engine_default.rs";
    println!("cargo:rerun-if-changed={}", dsrc_path);
    let dout = Path::new(&env::var("OUT_DIR").unwrap()).join("default_arm_port.rs");
    let dsrc = fs::read_to_string(dsrc_path).unwrap_or_else(|_| "compile_error!(\"engine_default.rs not found\");".into());
    let mut dported = String::new();
    let mut skip_macro = false;
    for line in dsrc.lines() {
        let t = line.trim();
        if t == "#[cfg(test)]" {
            break;
        }
        // drop the verif-hooks shadow macro of the x86 detection (not used on AArch64)
        if t.starts_with("#[cfg(all(feature = \"verif-hooks\"") {
            skip_macro = true;
            continue;
        }
        if skip_macro {
            if line.starts_with('}') {
                skip_macro = false;
            }
            continue;
        }
        let l = line
            .replace("#[cfg(any(target_arch = \"x86\", target_arch = \"x86_64\"))]", "#[cfg(any())]")
            .replace("#[cfg(target_arch = \"aarch64\")]", "#[cfg(all())]")
            .replace("std::arch::is_aarch64_feature_detected!(\"neon\")", "crate::neon_emu::detected_neon()")
            .replace("use crate::engine::Neon;", "use crate::neon_port::Neon;")
            .replace("crate::engine::", "reed_solomon_simd::engine::");
        dported.push_str(&l);
        dported.push('\n');
    }
    fs::write(&dout, dported).unwrap();
}
