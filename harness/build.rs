//! Ports /repo/src/engine/engine_neon.rs textually onto an emulation of the seven Neon
//! intrinsics it uses, so that the AArch64-only source is executed on this x86 host.
use std::{env, fs, path::Path};

fn main() {
    let src_path = "/repo/src/engine/engine_neon.rs";
    println!("cargo:rerun-if-changed={}", src_path);
    println!("cargo:rerun-if-changed=build.rs");
    let out = Path::new(&env::var("OUT_DIR").unwrap()).join("neon_port.rs");
    let src = match fs::read_to_string(src_path) {
        Ok(s) => s,
        Err(_) => {
            fs::write(&out, "compile_error!(\"engine_neon.rs not found\");").unwrap();
            return;
        }
    };
    let mut ported = String::new();
    for line in src.lines() {
        let t = line.trim();
        if t.starts_with("#[target_feature") {
            continue;
        }
        // stop at the unit tests of the file, if any
        if t == "#[cfg(test)]" {
            break;
        }
        let l = line
            .replace("use std::arch::aarch64::*;", "use crate::neon_emu::*;")
            .replace("crate::engine::", "reed_solomon_simd::engine::")
            .replace("crate::verif_hooks::", "reed_solomon_simd::verif_hooks::")
            .replace("#[cfg(feature = \"verif-hooks\")]", "");
        ported.push_str(&l);
        ported.push('\n');
    }
    fs::write(&out, ported).unwrap();
}
