"""Per-property metadata shared by check.py and gen_manifest.py."""
import os
import sys
import subprocess

VERIF = os.path.dirname(os.path.abspath(__file__))

COMMON_TRUST = [
    "Lean 4.33 kernel; axioms limited to propext, Classical.choice, Quot.sound (checked by #print axioms on every theorem of the property module on every run); no sorry/admit/native_decide/bv_decide/implemented_by/unsafe (grep on every run)",
    "Lean compiler/runtime for executing the model (rsmodel) in the correspondence; not used by any theorem",
    "correspondence harness /verif/harness (generators, canonicalisation, diff, catch_unwind, Neon emulation shim, counting allocator)",
    "every line of Rust is modelled, not verified: the tie between the Lean model and /repo is the differential correspondence on generated inputs (plus exhaustive comparison where the domain is finite)",
]

COMMON_ASSUME = ["usize is 64 bit", "hooks (cargo feature verif-hooks) expose what they claim"]

TECH = "Lean 4 machine-checked proof on a hand-written model + differential correspondence of the model with the crate"


def gen_lazy_deps():
    """C16: regenerate lean/RSVerif/Gen/LazyDeps.lean from the running code"""
    binp = os.path.join(VERIF, "harness", "target", "release", "rsharness")
    out = os.path.join(VERIF, "lean", "RSVerif", "Gen", "LazyDeps.lean")
    os.makedirs(os.path.dirname(out), exist_ok=True)
    p = subprocess.run([binp, "c16-gen", "--out", out], stdout=subprocess.PIPE, stderr=subprocess.STDOUT, text=True)
    return p.returncode, p.stdout


def gen_src_envelope():
    """C08 / C09: regenerate lean/RSVerif/Gen/SrcEnvelope.lean from the current text of /repo/src/rate*.rs"""
    out = os.path.join(VERIF, "lean", "RSVerif", "Gen", "SrcEnvelope.lean")
    p = subprocess.run([sys.executable, os.path.join(VERIF, "translate", "rs2lean.py"), "/repo", out],
                       stdout=subprocess.PIPE, stderr=subprocess.STDOUT, text=True)
    return p.returncode, p.stdout


def gen_src_codec():
    """C01 / C02: regenerate lean/RSVerif/Gen/SrcCodec.lean from the codec bodies of rate_high.rs / rate_low.rs"""
    out = os.path.join(VERIF, "lean", "RSVerif", "Gen", "SrcCodec.lean")
    p = subprocess.run([sys.executable, os.path.join(VERIF, "translate", "rs2lean_codec.py"), "/repo", out],
                       stdout=subprocess.PIPE, stderr=subprocess.STDOUT, text=True)
    return p.returncode, p.stdout


def gen_src_utils():
    """C15 (and C01): regenerate lean/RSVerif/Gen/SrcUtils.lean from utils.rs / fwht.rs / tables.rs / engine.rs constants"""
    out = os.path.join(VERIF, "lean", "RSVerif", "Gen", "SrcUtils.lean")
    p = subprocess.run([sys.executable, os.path.join(VERIF, "translate", "rs2lean_utils.py"), "/repo", out],
                       stdout=subprocess.PIPE, stderr=subprocess.STDOUT, text=True)
    return p.returncode, p.stdout


def gen_c01():
    rc, out = gen_src_codec()
    if rc != 0:
        return rc, out
    rc2, out2 = gen_src_utils()
    return rc2, out + out2


def _run_tr(script, gen):
    o = os.path.join(VERIF, "lean", "RSVerif", "Gen", gen)
    p = subprocess.run([sys.executable, os.path.join(VERIF, "translate", script), "/repo", o],
                       stdout=subprocess.PIPE, stderr=subprocess.STDOUT, text=True)
    return p.returncode, p.stdout


def gen_c15():
    """C15: SrcUtils.lean (tables, integer code) + SrcMul.lean (mul16 / mul128 initialisers)"""
    rc, out = gen_src_utils()
    if rc != 0:
        return rc, out
    rc2, out2 = _run_tr("rs2lean_mul.py", "SrcMul.lean")
    if rc2 != 0:
        return rc2, out + out2
    rc3, out3 = _run_tr("rs2lean_wiring.py", "SrcWiring.lean")
    return rc3, out + out2 + out3


def gen_c04():
    """C04: SrcShards.lean (Index impls) + SrcBytes.lean (insert / undo_last_chunk_encoding)"""
    rc, out = _run_tr("rs2lean_shards.py", "SrcShards.lean")
    if rc != 0:
        return rc, out
    rc2, out2 = _run_tr("rs2lean_bytes.py", "SrcBytes.lean")
    return rc2, out + out2


TECH_TRB = ("Lean 4 machine-checked proof; the byte layout code of the working memory (Shards::insert, Shards::undo_last_chunk_encoding) is "
            "TRANSLATED from the current Rust source on every run (translate/rs2lean_bytes.py -> Gen/SrcBytes.lean: byte views, panics as none, "
            "the list of byte copies performed) and proved equal to the block model (bInsert / bUndoLast), which is proved equal to the lane "
            "model; the slot homomorphism and the rest on a hand-written model + differential correspondence with the crate")

TECH_TRU = ("Lean 4 machine-checked proof; the table initialisers (initialize_exp_log / initialize_log_walsh / initialize_skew), tables::mul, "
            "add_mod / sub_mod, the sequential in-place fwht and eval_poly are TRANSLATED from the current Rust source on every run "
            "(translate/rs2lean_utils.py -> Gen/SrcUtils.lean: checked u8/u16/u32/usize arithmetic, arrays with bounds checks, loops with "
            "explicit state; translate/rs2lean_mul.py -> Gen/SrcMul.lean for initialize_mul16 / initialize_mul128) and proved equal to the transliterated table constructions and the Walsh model, which are proved to give the "
            "characterised tables; kernels, fft / ifft and the rest on a hand-written model + differential correspondence with the crate")

TECH_TRC = ("Lean 4 machine-checked proof; the codec bodies (HighRate/LowRate encode and decode: chunk loops, usize arithmetic, skew "
            "offsets, erasure marking, multiply / reveal loops) are TRANSLATED from the current Rust source on every run "
            "(translate/rs2lean_codec.py -> Gen/SrcCodec.lean: operation programs) and proved equal to the model's encoders / decoders; "
            "eval_poly (with the sequential fwht) and formal_derivative are TRANSLATED too (translate/rs2lean_utils.py -> Gen/SrcUtils.lean); "
            "the algebra (field, FFT, Cauchy form, round trip) on a hand-written model + differential correspondence with the crate")


def gen_src_engine():
    """C03: regenerate lean/RSVerif/Gen/SrcEngine.lean from the loop nests of the four engine families"""
    out = os.path.join(VERIF, "lean", "RSVerif", "Gen", "SrcEngine.lean")
    p = subprocess.run([sys.executable, os.path.join(VERIF, "translate", "rs2lean_engine.py"), "/repo", out],
                       stdout=subprocess.PIPE, stderr=subprocess.STDOUT, text=True)
    return p.returncode, p.stdout


def gen_c03():
    """C03: SrcEngine.lean (loop nests) + SrcKernel.lean (per-chunk kernels of all families) + SrcShards.lean (flat memory)"""
    rc, out = gen_src_engine()
    if rc != 0:
        return rc, out
    o = os.path.join(VERIF, "lean", "RSVerif", "Gen", "SrcKernel.lean")
    p = subprocess.run([sys.executable, os.path.join(VERIF, "translate", "rs2lean_kernel.py"), "/repo", o],
                       stdout=subprocess.PIPE, stderr=subprocess.STDOUT, text=True)
    if p.returncode != 0:
        return p.returncode, out + p.stdout
    out += p.stdout
    o = os.path.join(VERIF, "lean", "RSVerif", "Gen", "SrcShards.lean")
    p = subprocess.run([sys.executable, os.path.join(VERIF, "translate", "rs2lean_shards.py"), "/repo", o],
                       stdout=subprocess.PIPE, stderr=subprocess.STDOUT, text=True)
    if p.returncode != 0:
        return p.returncode, out + p.stdout
    out += p.stdout
    o = os.path.join(VERIF, "lean", "RSVerif", "Gen", "SrcGlue.lean")
    p = subprocess.run([sys.executable, os.path.join(VERIF, "translate", "rs2lean_glue.py"), "/repo", o],
                       stdout=subprocess.PIPE, stderr=subprocess.STDOUT, text=True)
    if p.returncode != 0:
        return p.returncode, out + p.stdout
    out += p.stdout
    # Statics.lean: no ambient inputs (threads / CPU count / environment / clocks …) anywhere in the crate
    rc, o2 = gen_statics()
    return rc, out + o2


TECH_TRE = ("Lean 4 machine-checked proof; the transform loop nests of the Naive / NoSimd / Ssse3 / Avx2 / Neon engines (nested while/for "
            "loops, skew-table indexes, dist2_mut / dist4_mut / split_at_mut views, GF_MODULUS shortcuts) are TRANSLATED from the "
            "current Rust source on every run (translate/rs2lean_engine.py -> Gen/SrcEngine.lean: shard-operation programs) and "
            "proved equal to the model transforms; the per-chunk kernels of Ssse3 / Avx2 / Neon / NoSimd and utils::xor are TRANSLATED too "
            "(translate/rs2lean_kernel.py -> Gen/SrcKernel.lean: intrinsic by intrinsic, with the documented semantics of the intrinsics) "
            "and proved equal to each other and to the field butterflies; the index arithmetic of the flat memory (src/engine/shards.rs: "
            "dist2_mut / dist4_mut / flat2_mut / copy_within / zero / split_at_mut / Index) is TRANSLATED (translate/rs2lean_shards.py -> "
            "Gen/SrcShards.lean: slices as views, panics as none) and proved equal to the flat-memory model; the rest on a hand-written "
            "model + differential correspondence")


def gen_src_default():
    """C07 / C09: regenerate lean/RSVerif/Gen/SrcDefault.lean from rate_default.rs (DefaultRate new / reset)"""
    out = os.path.join(VERIF, "lean", "RSVerif", "Gen", "SrcDefault.lean")
    p = subprocess.run([sys.executable, os.path.join(VERIF, "translate", "rs2lean_default.py"), "/repo", out],
                       stdout=subprocess.PIPE, stderr=subprocess.STDOUT, text=True)
    return p.returncode, p.stdout


def gen_c07():
    out_all = ""
    for g in (gen_src_work, gen_src_envelope, gen_src_default):
        rc, out = g()
        out_all += out
        if rc != 0:
            return rc, out_all
    return 0, out_all


def gen_src_glue():
    """C09: regenerate lean/RSVerif/Gen/SrcGlue.lean (the thin API layers)"""
    o = os.path.join(VERIF, "lean", "RSVerif", "Gen", "SrcGlue.lean")
    p = subprocess.run([sys.executable, os.path.join(VERIF, "translate", "rs2lean_glue.py"), "/repo", o],
                       stdout=subprocess.PIPE, stderr=subprocess.STDOUT, text=True)
    return p.returncode, p.stdout


def gen_c09():
    out_all = ""
    for g in (gen_src_envelope, gen_src_default, gen_src_glue):
        rc, out = g()
        out_all += out
        if rc != 0:
            return rc, out_all
    return 0, out_all


def gen_src_oneshot():
    """C10: regenerate lean/RSVerif/Gen/SrcOneShot.lean from lib.rs (one-shot encode / decode); needs SrcWork (enum Error)"""
    rc, out = gen_src_work()
    if rc != 0:
        return rc, out
    o = os.path.join(VERIF, "lean", "RSVerif", "Gen", "SrcOneShot.lean")
    p = subprocess.run([sys.executable, os.path.join(VERIF, "translate", "rs2lean_oneshot.py"), "/repo", o],
                       stdout=subprocess.PIPE, stderr=subprocess.STDOUT, text=True)
    return p.returncode, out + p.stdout


def gen_c12():
    """C12: SrcWork (accessors) + regenerate lean/RSVerif/Gen/SrcIter.lean from encoder_result.rs / decoder_result.rs"""
    rc, out = gen_src_work()
    if rc != 0:
        return rc, out
    o = os.path.join(VERIF, "lean", "RSVerif", "Gen", "SrcIter.lean")
    p = subprocess.run([sys.executable, os.path.join(VERIF, "translate", "rs2lean_iter.py"), "/repo", o],
                       stdout=subprocess.PIPE, stderr=subprocess.STDOUT, text=True)
    return p.returncode, out + p.stdout


TECH_TRI = ("Lean 4 machine-checked proof; the accessors of EncoderWork / DecoderWork (translate/rs2lean_work.py -> Gen/SrcWork.lean) and the "
            "result iterators Recovery / RestoredOriginal with Drop of the result objects (translate/rs2lean_iter.py -> Gen/SrcIter.lean) are "
            "TRANSLATED from the current Rust source on every run and the theorems are re-checked on the translation; the rest on a "
            "hand-written model + differential correspondence with the crate")

TECH_TRO = ("Lean 4 machine-checked proof; the one-shot functions encode / decode of src/lib.rs are TRANSLATED from the current Rust "
            "source on every run (translate/rs2lean_oneshot.py -> Gen/SrcOneShot.lean: sequences of calls of an abstract streaming "
            "API) and proved equal to the streaming sequences of the property; the rest on a hand-written model + differential "
            "correspondence with the crate")


def gen_statics():
    """C05 / C16: regenerate lean/RSVerif/Gen/Statics.lean (global state declared in today's source)"""
    out = os.path.join(VERIF, "lean", "RSVerif", "Gen", "Statics.lean")
    p = subprocess.run([sys.executable, os.path.join(VERIF, "translate", "statics.py"), "/repo", out],
                       stdout=subprocess.PIPE, stderr=subprocess.STDOUT, text=True)
    return p.returncode, p.stdout


def gen_c14():
    """C14: Statics.lean (target_feature attributes) + regenerate lean/RSVerif/Gen/SrcSelect.lean (DefaultEngine selection)"""
    rc, out = gen_statics()
    if rc != 0:
        return rc, out
    o = os.path.join(VERIF, "lean", "RSVerif", "Gen", "SrcSelect.lean")
    p = subprocess.run([sys.executable, os.path.join(VERIF, "translate", "rs2lean_select.py"), "/repo", o],
                       stdout=subprocess.PIPE, stderr=subprocess.STDOUT, text=True)
    return p.returncode, out + p.stdout


TECH_TRS = ("Lean 4 machine-checked proof (finite, exhaustive case analysis); the run-time selection of DefaultEngine::new and "
            "DefaultEngine::eval_poly (cfg(target_arch) blocks, order of the feature tests, engine per branch, portable fallback) is "
            "TRANSLATED from the current Rust source on every run (translate/rs2lean_select.py -> Gen/SrcSelect.lean) and proved equal to "
            "the decision model; the #[target_feature] attributes are re-read by translate/statics.py; the rest by an exhaustive "
            "feature-mask sweep of the implementation with the ISA trace hook")


def gen_c16():
    rc, out = gen_lazy_deps()
    if rc != 0:
        return rc, out
    rc2, out2 = gen_statics()
    if rc2 != 0:
        return rc2, out + out2
    rc3, out3 = _run_tr("rs2lean_wiring.py", "SrcWiring.lean")
    return rc3, out + out2 + out3


def gen_src_work():
    """C06 / C07 / C12 / C17: regenerate lean/RSVerif/Gen/SrcWork.lean from encoder_work.rs / decoder_work.rs / lib.rs"""
    out = os.path.join(VERIF, "lean", "RSVerif", "Gen", "SrcWork.lean")
    p = subprocess.run([sys.executable, os.path.join(VERIF, "translate", "rs2lean_work.py"), "/repo", out],
                       stdout=subprocess.PIPE, stderr=subprocess.STDOUT, text=True)
    return p.returncode, p.stdout


def gen_c11():
    """C11: what C01 regenerates (Properties/C11 builds on the round trip of C01: SrcCodec, SrcUtils) + SrcWork.lean (adds commute)"""
    rc, out = gen_c01()
    if rc != 0:
        return rc, out
    rc2, out2 = gen_src_work()
    return rc2, out + out2


def gen_c05():
    """C05: Statics.lean (global state, ambient inputs) + SrcWork.lean (reset forgets the bookkeeping)"""
    rc, out = gen_statics()
    if rc != 0:
        return rc, out
    rc2, out2 = gen_src_work()
    return rc2, out + out2


TECH_TRW = ("Lean 4 machine-checked proof; the bookkeeping methods of EncoderWork / DecoderWork and enum Error are TRANSLATED from the "
            "current Rust source on every run (translate/rs2lean_work.py -> Gen/SrcWork.lean, state-passing, checked usize, abstract "
            "shard memory) and theorems are re-checked on the translation; the rest on a hand-written model + differential "
            "correspondence with the crate")

TECH_TR = ("Lean 4 machine-checked proof; the usize decision logic (supports / use_high_rate / validate / work_count) is TRANSLATED from "
           "the current Rust source on every run (translate/rs2lean.py -> Gen/SrcEnvelope.lean) and the theorems are re-checked on the "
           "translation; the rest on a hand-written model + differential correspondence with the crate")


def P(category, explanation, rule, assumptions=None, profiles=None, design_ref=None, **kw):
    d = {
        "category": category,
        "technique": TECH,
        "explanation": explanation,
        "rule": rule,
        "trusted_base": COMMON_TRUST,
        "assumptions": COMMON_ASSUME + (assumptions or []),
        "profiles": profiles or ["release"],
        "design_ref": design_ref or "DESIGN.md §6",
    }
    d.update(kw)
    return d


PROPS = {
    "C01": P(
        "proof",
        "Theorem `roundtrip` (Properties/C01.lean): for every flavour pair agreeing on the rate, every supported (k,r), every even shard size, "
        "every data, every accepted set of >= k distinct shards, any engine on either side, any stale memory: encode on the model, give the "
        "shards to the model decoder, decode returns Ok with exactly the missing originals byte for byte — proved by the Lin-Han-Chung argument "
        "(fft = evaluation in the LCH basis, Lagrange/Cauchy generator, codeword polynomial, formal derivative G+G', decoder core F.e', Walsh-"
        "Hadamard convolution theorem for eval_poly, table contents) in Lean 4 with Mathlib, no sorry. Plus answer shape/totality. Tie to the code: model vs implementation on "
        "generated round trips incl. all subsets of all small configurations + direct round-trip oracle on the implementation up to "
        "full-size configurations.",
        "cases = encode/decode op sequences; distinct = distinct op-sequence text; non-trivial = a decode of >= k shards with a missing original or surplus",
        pre_lean=gen_c01, technique=TECH_TRC, profiles=["release", "dev"],
        design_ref="DESIGN.md §6 C01",
    ),
    "C02": P(
        "proof",
        "Theorems (Properties/C02.lean): encodeHigh/encodeLow of the model equal the closed-form scaled-Cauchy matrix "
        "(encode_high_eq_cauchy / encode_low_eq_cauchy) for every supported configuration, schedule, lane count; linear => determined "
        "by unit vectors; pure function of (k, r, rate, data). Direct oracle: implementation bytes == closed form evaluated by rsmodel from the two "
        "published constants (no FFT, no tables) == reed-solomon-16 0.1.0 for 64-multiple sizes; constants == pinned literals.",
        "cases = encode op sequences x closed-form queries; distinct = distinct (configuration, data); non-trivial = every case (recovery bytes compared)",
        pre_lean=gen_src_codec, technique=TECH_TRC, extra_targets=["srccodec"], build_variants=True,
        design_ref="DESIGN.md §6 C02",
    ),
    "C03": P(
        "proof",
        "Theorems: nibble-table and byte-shuffle kernels = x*g^m for all 2^32 pairs; exp/log kernel under the table contract; both butterfly "
        "schedules agree on every contract-valid output for all (pos, size, trunc, delta); frame; encoder/decoder objects answer identically under "
        "either schedule. Direct oracle: engine vs engine (6 engines incl. Neon source on emulated intrinsics) on primitives (contract-valid "
        "outputs + frame) and end to end; model schedule vs implementation lane by lane.",
        "cases = primitive calls (fft/ifft/mul/eval_poly with generated parameters) on every engine + mixed-engine round trips; distinct by parameters",
        pre_lean=gen_c03, technique=TECH_TRE, extra_targets=["srcengine"], build_variants=True, profiles=["release", "dev"],
        design_ref="DESIGN.md §6 C03",
    ),
    "C04": P(
        "proof",
        "Theorems: lane projection commutes with both encoders and decoders (slot homomorphism) for every configuration; layout/unlayout are mutually "
        "inverse for every even size; documented byte placement; exposed shards have exactly shard_bytes bytes. Direct oracle: size sb vs per-slot "
        "2-byte runs on the implementation for every even size in the sweep, poison hook on.",
        "cases = one per (even shard size, configuration): full-size round trip + per-slot 2-byte round trips; non-trivial = all",
        pre_lean=gen_c04, technique=TECH_TRB, profiles=["release", "dev"],
        design_ref="DESIGN.md §6 C04",
    ),
    "C05": P(
        "proof",
        "Theorems: encoder/decoder rounds, any history of rounds on one object, and the one-shot functions return the same Outcome for ANY stale "
        "contents of the working memory and any recycled work space (forall stale stale'); data path reads only inserted/zero-filled positions. "
        "Direct oracle: reused object under the poison hook vs fresh object, round by round.",
        "cases = histories (2-8 rounds, resets across counts/sizes/rates, renew through into_parts, failed calls); each round compared with a fresh object",
        pre_lean=gen_c05,
        technique=("Lean 4 machine-checked proof; the inventory of global state / ambient inputs (translate/statics.py -> Gen/Statics.lean) and the "
                   "bookkeeping methods of the work objects (translate/rs2lean_work.py -> Gen/SrcWork.lean: `reset` forgets every counter and bit) "
                   "are REGENERATED from the current Rust source on every run and the theorems re-checked on them; stale-memory independence on a "
                   "hand-written model + differential correspondence with the crate (poison hook)"),
        design_ref="DESIGN.md §6 C05",
    ),
    "C06": P(
        "proof",
        "Theorems: invariant of reachable states established by new and preserved by every call; in every reachable state no call panics; an Err "
        "is a member of the truthful set of the call; empty truthful set => Ok; same for the one-shot functions; all arguments range over N "
        "(usize::MAX included). Direct oracle: harness's own bookkeeping of violated preconditions vs implementation in release AND overflow-checked "
        "profiles; model's truthful sets vs harness's.",
        "cases = op sequences with injected invalid calls and usize extremes + stateless sweeps + one-shot tuples; distinct by text",
        profiles=["release", "dev"],
        pre_lean=gen_src_work, technique=TECH_TRW, extra_targets=["srcwork"],
        design_ref="DESIGN.md §6 C06",
    ),
    "C07": P(
        "proof",
        "Theorems: a call that does not return Ok leaves the object unchanged (structural equality), the inner codec is never None after reset; "
        "run_filter_failed: any op sequence ends in the same state as the sequence with the failing calls removed. Direct oracle: history with "
        "injected failing calls vs the same history without them on the implementation.",
        "cases = histories with injected failing calls of every kind; each compared with its failure-free version",
        pre_lean=gen_c07, technique=TECH_TRW,
        design_ref="DESIGN.md §6 C07",
    ),
    "C08": P(
        "proof",
        "Theorems for all k r in N: supports <-> README envelope for default/high/low; default = high or low; rule's rate is supported by the dedicated "
        "codec; validate/new/reset succeed iff supports && size even non-zero; reset never leaves None; row form supports <-> 1<=r<=cap k; index "
        "safety (work space <= 65536, skew indexes <= 65534). Direct oracle: supports of every flavour vs envelope and vs the model's staircase "
        "(thorough: all 65538^2 pairs x 4; quick: boundary band + 8e6 pairs), constructors on the boundary, round trips at all staircase corners. "
        "Source level: HighRate/LowRate/DefaultRate::supports, use_high_rate, Rate::validate and the four work_count functions are translated from "
        "today's source into checked-usize Lean functions; theorems: translation = model for ALL arguments and no usize overflow "
        "(source_supports_is_envelope, source_validate, source_work_counts); the translation is also run (srcmodel) against the implementation.",
        "cases = (k, r) pairs x flavours for supports; protocol lines for constructors; corner round trips",
        pre_lean=gen_src_envelope, extra_targets=["srcmodel"], technique=TECH_TR,
        design_ref="DESIGN.md §6 C08",
    ),
    "C09": P(
        "proof",
        "Theorems: the rule as stated (depends on k, r only); default-flavour new/reset produce exactly the dedicated codec of the rule's rate on the "
        "same working memory; later calls ignore the flavour. Direct oracle: default vs dedicated vs ReedSolomonEncoder vs one-shot bytes on the whole "
        "boundary of the rule, with rate-crossing resets; default decoder decodes dedicated-encoded shards. Source level: use_high_rate as translated "
        "from today's source obeys the rule for all arguments (source_rate_rule).",
        "cases = configurations on the rule's boundary and random ones, with and without rate-crossing reset histories",
        pre_lean=gen_c09, technique=TECH_TR,
        design_ref="DESIGN.md §6 C09",
    ),
    "C10": P(
        "proof",
        "Theorems: one-shot encode/decode = the streaming sequence (size from first original / first recovery / first original when no recovery "
        "shard) for every input with at least one shard; documented errors otherwise; errors truthful; never panic. Direct oracle: one-shot vs "
        "streaming on the implementation for valid and mutated tuples.",
        "cases = argument tuples of encode/decode (valid + mutated: duplicates, out-of-range, wrong sizes, too few/many, no-recovery branch)",
        pre_lean=gen_src_oneshot, technique=TECH_TRO,
        design_ref="DESIGN.md §6 C10",
    ),
    "C11": P(
        "proof",
        "Theorems: successful adds commute; any permutation of a successful add sequence gives the same state and the same decode answer; given "
        "originals never reported; all given => empty. Surplus: both a sufficient set and any superset restore the encoded originals (C01 round trip). "
        "Direct oracle: permutations and supersets on the implementation.",
        "cases = shard sets x orders/supersets; compared within each group",
        pre_lean=gen_c11,
        technique=("Lean 4 machine-checked proof; the shard-adding methods of DecoderWork are TRANSLATED from the current Rust source on every run "
                   "(translate/rs2lean_work.py -> Gen/SrcWork.lean) and proved to commute (two accepted adds in either order give the same state); the "
                   "codec bodies and decoder helpers behind the round trip are translated as for C01; the rest on a hand-written model + differential "
                   "correspondence with the crate"),
        design_ref="DESIGN.md §6 C11",
    ),
    "C12": P(
        "proof",
        "Theorems for all index values in N: recovery(i) Some iff i<r with length sb; iterator = recovery 0..r-1 then None forever; restored_original(i) "
        "Some iff in range and not given; iterator = ascending restored pairs then None forever; drop = reset bookkeeping; any number of rounds. "
        "Direct oracle: accessor sweep incl. usize extremes and iterator exhaustion in both profiles, 1-12 consecutive rounds.",
        "cases = multi-round histories with implicit reset only; accessor contract evaluated on every result",
        profiles=["release", "dev"],
        pre_lean=gen_c12, technique=TECH_TRI,
        design_ref="DESIGN.md §6 C12",
    ),
    "C13": P(
        "proof",
        "Theorems: field laws of gmul (commutative, associative, distributive, unit) from the field polynomial and Cantor basis; encode(a^b) = "
        "encode a ^ encode b, encode(c.a) = c.encode a, encode 0 = 0 for every configuration, rate, schedule, lane count; same for decode with a "
        "fixed received set. Direct oracle: the three relations on the implementation with scalar multiplication done by rsmodel.",
        "cases = (configuration, data pair, constant); relations checked on implementation outputs",
        pre_lean=gen_src_codec, technique=TECH_TRC,
        design_ref="DESIGN.md §6 C13",
    ),
    "C14": P(
        "proof",
        "Finite quantifier (4 x86 masks, 2 AArch64 masks): theorems by exhaustive case analysis of the decision model (legal, most capable, "
        "constructor = eval_poly selection, portable iff nothing reported); tie: exhaustive mask sweep with FEATURE_MASK + ISA_TRACE hooks, AArch64 "
        "selection code through a source port. Cannot exhibit an actual illegal-instruction trap (this CPU has AVX2).",
        "cases = feature masks (exhaustive) x workload",
        exhaustive=True,
        pre_lean=gen_c14, technique=TECH_TRS,
        design_ref="DESIGN.md §6 C14",
    ),
    "C15": P(
        "proof",
        "Theorems: table kernels = x*g^m for all 2^32 pairs; GF16 is a field, generator order 65535, exp homomorphic/injective, every non-zero "
        "element has a log; mod-65535 arithmetic; fft truncation contract; ifft contract; ifft = inverse; fft = evaluation of the LCH polynomial at "
        "skew_delta+i; eval_poly truncation independence and (when present in this run) eval_poly = sum of logs = log of the locator product. "
        "Tie: ALL entries of the six tables vs definitions; mul vs own arithmetic (thorough: all 2^32 pairs per engine); fft vs direct LCH evaluation; "
        "eval_poly vs direct product.",
        "cases = table entries (exhaustive) + primitive calls vs mathematical oracles",
        pre_lean=gen_c15, technique=TECH_TRU,
        design_ref="DESIGN.md §6 C15",
    ),
    "C16": P(
        "proof",
        "Theorems on the lazy-initialisation transition system instantiated on the dependency graph OBSERVED from the running code on this run: "
        "for any number of threads, any first-touch sets and ANY schedule: no re-entrancy, deadlock freedom, termination bound, every wanted table "
        "done exactly once. Partial for the runtime: the OS scheduler, the memory model and std::sync::LazyLock are trusted; schedule sampling in "
        "fresh processes (racing first touch, objects moved between threads mid-round) is supporting evidence.",
        "cases = fresh processes with barrier-released threads of different first-touch sets + moved objects, compared with sequential recomputation",
        pre_lean=gen_c16,
        design_ref="DESIGN.md §6 C16",
    ),
    "C17": P(
        "proof",
        "Theorems on the model's allocation bookkeeping: adds/encode/decode never allocate; reset / new(Some(work)) allocate iff the need exceeds "
        "the high-water mark; histories bounded by the first configuration allocate exactly once. Direct oracle: counting global allocator around "
        "every library call: shard-proportional allocation only where the configuration grows. Trusted: Vec::resize within capacity does not allocate.",
        "cases = histories (rounds, growing/non-growing/failed resets, renew across flavours) with per-call allocation measurement",
        pre_lean=gen_src_work, technique=TECH_TRW,
        design_ref="DESIGN.md §6 C17",
    ),
}
