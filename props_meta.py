"""Per-property metadata shared by check.py and gen_manifest.py."""

COMMON_TRUST = [
    "Lean 4.33 kernel; axioms limited to propext, Classical.choice, Quot.sound (checked by #print axioms on every run)",
    "Lean compiler/runtime for executing the model (rsmodel) in the correspondence; not used by any theorem",
    "correspondence harness /verif/harness (generators, canonicalisation, diff, catch_unwind)",
    "every line of Rust is modelled, not verified: the tie between model and /repo is the differential correspondence on generated inputs",
]

PROPS = {
    "C01": {
        "category": "other",
        "technique": "Lean 4 theorems on a hand-written model + differential correspondence with the crate",
        "rule": "cases = encode/decode op sequences; distinct = distinct op-sequence text; non-trivial = contains at least one decode of >= k shards with a missing original or a surplus",
        "explanation": "Lean theorems (totality and exact shape of the decode answer for every state with >= k shards; "
                       "see theorems list) + model/implementation correspondence on generated round trips, including all subsets "
                       "of all small configurations, + direct round-trip oracle on the implementation up to full-size configurations. "
                       "The byte-level round trip for all configurations x subsets is NOT a theorem yet (DESIGN.md C01 tier 3).",
        "trusted_base": COMMON_TRUST,
        "assumptions": ["usize is 64 bit", "LOG_WALSH/EXP/LOG/SKEW tables equal the model's definitions (checked exhaustively by C15)"],
        "profiles": ["release"],
        "design_ref": "DESIGN.md §6 C01",
    },
}
