#!/bin/sh
# Builds the framework offline from files on disk: Lean model + property theorems, rsmodel, Rust harness.
set -e
cd "$(dirname "$0")"
export CARGO_NET_OFFLINE=true
[ -f harness/Cargo.lock ] || cp /repo/Cargo.lock harness/Cargo.lock
( cd harness && cargo build --offline --release && cargo build --offline )
# C16's Lean input is regenerated from the running code
mkdir -p lean/RSVerif/Gen
./harness/target/release/rsharness c16-gen --out lean/RSVerif/Gen/LazyDeps.lean
# C08/C09 (decision logic) and C06/C07/C12/C17 (work-object bookkeeping) are translated from the current source (a failure here is reported by
# the checks themselves, not by setup)
python3 translate/rs2lean.py /repo lean/RSVerif/Gen/SrcEnvelope.lean || true
python3 translate/rs2lean_work.py /repo lean/RSVerif/Gen/SrcWork.lean || true
python3 translate/statics.py /repo lean/RSVerif/Gen/Statics.lean || true
python3 translate/coverage.py /repo COVERAGE.md || true
python3 translate/rs2lean_codec.py /repo lean/RSVerif/Gen/SrcCodec.lean || true
python3 translate/rs2lean_engine.py /repo lean/RSVerif/Gen/SrcEngine.lean || true
python3 translate/rs2lean_default.py /repo lean/RSVerif/Gen/SrcDefault.lean || true
python3 translate/rs2lean_oneshot.py /repo lean/RSVerif/Gen/SrcOneShot.lean || true
python3 translate/rs2lean_iter.py /repo lean/RSVerif/Gen/SrcIter.lean || true
python3 translate/rs2lean_kernel.py /repo lean/RSVerif/Gen/SrcKernel.lean || true
python3 translate/rs2lean_shards.py /repo lean/RSVerif/Gen/SrcShards.lean || true
python3 translate/rs2lean_glue.py /repo lean/RSVerif/Gen/SrcGlue.lean || true
python3 translate/rs2lean_select.py /repo lean/RSVerif/Gen/SrcSelect.lean || true
python3 translate/rs2lean_utils.py /repo lean/RSVerif/Gen/SrcUtils.lean || true
python3 translate/rs2lean_mul.py /repo lean/RSVerif/Gen/SrcMul.lean || true
python3 translate/rs2lean_bytes.py /repo lean/RSVerif/Gen/SrcBytes.lean || true
python3 translate/rs2lean_wiring.py /repo lean/RSVerif/Gen/SrcWiring.lean || true
mods=""
for f in lean/RSVerif/Properties/C*.lean; do
  m=$(basename "$f" .lean)
  mods="$mods RSVerif.Properties.$m"
done
( cd lean && lake build rsmodel )
# one property at a time: a module that no longer builds against the current /repo (regenerated inputs)
# must not keep the others from being checked; its own check reports it
for m in srcmodel srcwork srccodec srcengine $mods; do
  ( cd lean && lake build $m ) || echo "setup: $m did not build; ./check.py reports it"
done
echo setup-ok
