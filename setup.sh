#!/bin/sh
# Builds the framework offline from files on disk: Lean model + theorems, rsmodel, Rust harness.
set -e
cd "$(dirname "$0")"
export CARGO_NET_OFFLINE=true
( cd lean && lake build )
[ -f harness/Cargo.lock ] || cp /repo/Cargo.lock harness/Cargo.lock
( cd harness && cargo build --offline --release && cargo build --offline )
echo setup-ok
