#!/bin/sh
# Builds the framework offline from files on disk: Lean model + property theorems, rsmodel, Rust harness.
set -e
cd "$(dirname "$0")"
export CARGO_NET_OFFLINE=true
[ -f harness/Cargo.lock ] || cp /repo/Cargo.lock harness/Cargo.lock
( cd harness && cargo build --offline --release && cargo build --offline )
# C16's Lean input is regenerated from the running code
mkdir -p lean/RSVerif/Gen
./harness/target/release/rsharness c16-gen --out lean/RSVerif/Gen/LazyDeps.lean
mods=""
for f in lean/RSVerif/Properties/C*.lean; do
  m=$(basename "$f" .lean)
  mods="$mods RSVerif.Properties.$m"
done
( cd lean && lake build rsmodel $mods )
echo setup-ok
