#!/usr/bin/env python3
"""rs2lean.py - translator from a small subset of Rust to Lean 4.

Regenerates /verif/lean/RSVerif/Gen/SrcEnvelope.lean from the *current* text of the `usize`
decision logic of /repo/src/rate/*.rs (supports / use_high_rate / validate / work_count), so that the
theorems of Proofs/SrcEnvelopeSpec.lean and Properties/C08.lean, C09.lean are re-checked against what
the code says now.

Semantics of the translation ("checked usize"): a function returns `Option`; `none` means that some
`usize` operation evaluated on the way (in Rust's evaluation order, with short-circuit `&&`/`||` and early
`return`) would overflow / underflow / divide by zero, or that a `debug_assert!` would fail.  Every
expression is translated in continuation-passing style into a tree of `if … then … else …` over
propositions on `Nat`, with `some v` / `none` at the leaves: no monad is left in the output, which is
what makes the proofs automatic.

Supported subset (anything else -> exit 3 with `CANNOT-TRANSLATE: …`):
  items       fn inside a given `impl`/`trait` block or at top level; parameters of type usize
  statements  let x = e;   if c { return e; }   return e;   debug_assert!(e);   tail expression
  expressions integer literals, parameters / locals, constants from CONSTS, + - * % / & (with literal),
              comparisons, && || !, if/else, match a.cmp(&b) { Ordering::Less|Greater|Equal => … },
              std::cmp::min/max, .next_power_of_two(), .next_multiple_of(e), Ok(e), Err(Error::V{..}),
              Self::supports(a, b), calls of other translated functions, .is_ok(), parameterless closures
"""
import re
import sys

USIZE = 18446744073709551616
HALF = 9223372036854775808
CONSTS = {"GF_ORDER": None}  # value read from the source (src/engine.rs)
ERR_FIELDS = {
    "UnsupportedShardCount": ["original_count", "recovery_count"],
    "InvalidShardSize": ["shard_bytes"],
}


class CannotTranslate(Exception):
    pass


# ---------------------------------------------------------------- tokenizer
TOK = re.compile(r"""
    (?P<ws>\s+|//[^\n]*|/\*.*?\*/)
  | (?P<str>"(?:[^"\\]|\\.)*")
  | (?P<int>\d[\d_]*(?:usize|u64|u32|u16)?)
  | (?P<id>[A-Za-z_][A-Za-z0-9_]*)
  | (?P<op>=>|->|::|&&|\|\||==|!=|<=|>=|\.\.=|\.\.|[-+*/%&|!<>=(){}\[\],;.:?\#'^~@$])
""", re.X | re.S)


def tokenize(text):
    out, i = [], 0
    while i < len(text):
        m = TOK.match(text, i)
        if not m:
            raise CannotTranslate(f"cannot tokenize at {text[i:i+30]!r}")
        i = m.end()
        if m.lastgroup == "ws":
            continue
        out.append((m.lastgroup, m.group(m.lastgroup)))
    return out


def match_brace(toks, i):
    """toks[i] is '{' -> index of the matching '}'"""
    depth = 0
    for j in range(i, len(toks)):
        if toks[j] == ("op", "{"):
            depth += 1
        elif toks[j] == ("op", "}"):
            depth -= 1
            if depth == 0:
                return j
    raise CannotTranslate("unbalanced braces")


def find_items(toks):
    """yield (context_header, fn_name, params, body_tokens) for every fn, one nesting level deep"""
    items = []

    def scan(lo, hi, ctx):
        i = lo
        while i < hi:
            k, v = toks[i]
            if k == "id" and v in ("impl", "trait") and ctx == "":
                j = i
                while toks[j] != ("op", "{"):
                    j += 1
                header = " ".join(t[1] for t in toks[i:j])
                e = match_brace(toks, j)
                scan(j + 1, e, header)
                i = e + 1
            elif k == "id" and v == "mod":
                j = i
                while toks[j] not in (("op", "{"), ("op", ";")):
                    j += 1
                i = match_brace(toks, j) + 1 if toks[j] == ("op", "{") else j + 1  # test modules skipped
            elif k == "id" and v == "fn":
                name = toks[i + 1][1]
                j = i + 2
                # generics
                if toks[j] == ("op", "<"):
                    d = 0
                    while True:
                        if toks[j] == ("op", "<"):
                            d += 1
                        if toks[j] == ("op", ">"):
                            d -= 1
                            if d == 0:
                                break
                        j += 1
                    j += 1
                assert toks[j] == ("op", "("), name
                d, p0 = 0, j
                while True:
                    if toks[j] == ("op", "("):
                        d += 1
                    if toks[j] == ("op", ")"):
                        d -= 1
                        if d == 0:
                            break
                    j += 1
                params = toks[p0 + 1:j]
                while toks[j] not in (("op", "{"), ("op", ";")):
                    j += 1
                if toks[j] == ("op", ";"):
                    i = j + 1
                    continue
                e = match_brace(toks, j)
                items.append((ctx, name, params, toks[j + 1:e]))
                i = e + 1
            else:
                i += 1

    scan(0, len(toks), "")
    return items


# ---------------------------------------------------------------- parser (expressions / statements)
class P:
    def __init__(self, toks):
        self.t = toks
        self.i = 0

    def peek(self, o=0):
        return self.t[self.i + o] if self.i + o < len(self.t) else ("eof", "")

    def eat(self, v=None):
        k, x = self.peek()
        if v is not None and x != v:
            raise CannotTranslate(f"expected {v!r}, found {x!r}")
        self.i += 1
        return x

    def at(self, v):
        return self.peek()[1] == v and self.peek()[0] != "eof"

    # block := { stmt* expr? }   (the opening brace already consumed by caller when inner=True)
    def block_body(self):
        stmts = []
        while not self.at("}") and self.peek()[0] != "eof":
            if self.at("let"):
                self.eat()
                if self.at("mut"):
                    raise CannotTranslate("`let mut`")
                name = self.eat()
                if self.at(":"):
                    self.eat()
                    self.eat()
                self.eat("=")
                e = self.expr()
                self.eat(";")
                stmts.append(("let", name, e))
            elif self.at("return"):
                self.eat()
                e = self.expr()
                if self.at(";"):
                    self.eat()
                stmts.append(("return", e))
            elif self.at("debug_assert") and self.peek(1)[1] == "!":
                self.eat()
                self.eat("!")
                self.eat("(")
                e = self.expr()
                if self.at(","):
                    raise CannotTranslate("debug_assert! with a message")
                self.eat(")")
                self.eat(";")
                stmts.append(("assert", e))
            elif self.at("#"):
                raise CannotTranslate("attribute inside a function body")
            else:
                e = self.expr()
                if self.at(";"):
                    self.eat()
                    if e[0] == "if" and e[3] is None:
                        stmts.append(("ifstmt", e[1], e[2]))
                    elif e[0] == "try" and e[1][0] == "call":
                        stmts.append(("trystmt", e[1]))
                    elif e[0] == "method" and e[1] == "reset" and e[2] == ("var", "work"):
                        stmts.append(("workreset", e[3]))
                    else:
                        raise CannotTranslate(f"expression statement `{e[0]}`")
                elif self.at("}") or self.peek()[0] == "eof":
                    stmts.append(("tail", e))
                elif e[0] == "if" and e[3] is None:
                    stmts.append(("ifstmt", e[1], e[2]))
                elif e[0] in ("if", "match"):
                    raise CannotTranslate("if/match with a value used as a statement")
                else:
                    raise CannotTranslate(f"unexpected token {self.peek()[1]!r} after expression")
        return stmts

    def block(self):
        self.eat("{")
        b = self.block_body()
        self.eat("}")
        return b

    PREC = [("||",), ("&&",), ("==", "!=", "<", ">", "<=", ">="), ("|",), ("&",), ("+", "-"), ("*", "/", "%")]

    def expr(self, level=0, nostruct=False):
        if level == len(self.PREC):
            return self.unary(nostruct)
        lhs = self.expr(level + 1, nostruct)
        while self.peek()[0] == "op" and self.peek()[1] in self.PREC[level]:
            op = self.eat()
            rhs = self.expr(level + 1, nostruct)
            lhs = ("bin", op, lhs, rhs)
            if level == 2:
                break  # comparisons do not chain
        return lhs

    def unary(self, nostruct):
        if self.at("!"):
            self.eat()
            return ("not", self.unary(nostruct))
        if self.at("&"):
            self.eat()
            return self.unary(nostruct)
        if self.at("-"):
            raise CannotTranslate("unary minus")
        return self.postfix(self.primary(nostruct))

    def postfix(self, e):
        while True:
            if self.at(".") and self.peek(1)[0] == "id":
                self.eat()
                m = self.eat()
                if self.at("("):
                    args = self.args()
                    e = ("method", m, e, args)
                else:
                    raise CannotTranslate(f"field access .{m}")
            elif self.at("?"):
                self.eat()
                e = ("try", e)
            else:
                return e

    def args(self):
        self.eat("(")
        a = []
        while not self.at(")"):
            a.append(self.expr())
            if self.at(","):
                self.eat()
        self.eat(")")
        return a

    def primary(self, nostruct):
        k, v = self.peek()
        if k == "int":
            self.eat()
            return ("int", int(re.sub(r"[_a-z].*$", "", v.replace("_", "")) or "0"))
        if v == "(":
            self.eat()
            if self.at(")"):
                self.eat()
                return ("unit",)
            e = self.expr()
            self.eat(")")
            return e
        if v == "{":
            return ("block", self.block())
        if v == "||":
            # closure without parameters: `|| expr` / `|| { … }` (inlined at its calls)
            self.eat()
            return ("closure", self.block() if self.at("{") else [("tail", self.expr())])
        if v == "if":
            self.eat()
            c = self.expr(nostruct=True)
            t = self.block()
            el = None
            if self.at("else"):
                self.eat()
                el = [("tail", self.primary(False))] if self.at("if") else self.block()
            return ("if", c, t, el)
        if v == "match":
            self.eat()
            s = self.expr(nostruct=True)
            self.eat("{")
            arms = []
            while not self.at("}"):
                pat = []
                while not self.at("=>"):
                    pat.append(self.eat())
                self.eat("=>")
                body = self.block() if self.at("{") else [("tail", self.expr())]
                if self.at(","):
                    self.eat()
                arms.append(("".join(pat), body))
            self.eat("}")
            return ("match", s, arms)
        if k == "id":
            path = [self.eat()]
            while self.at("::"):
                self.eat()
                if self.at("<"):
                    raise CannotTranslate("turbofish")
                path.append(self.eat())
            name = "::".join(path)
            if name in ("true", "false"):
                return ("bool", name)
            if self.at("("):
                return ("call", name, self.args())
            if self.at("{") and not nostruct and path[0] in ("Error",):
                self.eat()
                fields = {}
                while not self.at("}"):
                    f = self.eat()
                    if self.at(":"):
                        self.eat()
                        fields[f] = self.expr()
                    else:
                        fields[f] = ("var", f)
                    if self.at(","):
                        self.eat()
                self.eat("}")
                return ("struct", name, fields)
            return ("var", name)
        raise CannotTranslate(f"unexpected token {v!r}")


# ---------------------------------------------------------------- translation (CPS to if-trees)
class Tr:
    def __init__(self, fns):
        self.fns = fns          # Rust name -> (lean name, arity, kind 'bool'|'nat'|'res')
        self.fresh = 0

    def is_bool(self, e):
        t = e[0]
        if t == "bool" or t == "not":
            return True
        if t == "bin":
            return e[1] in ("||", "&&", "==", "!=", "<", ">", "<=", ">=")
        if t == "method":
            return e[1] in ("is_ok", "is_err", "is_power_of_two")
        if t == "call":
            f = self.fns.get(e[1])
            return bool(f and f[2] == "bool")
        if t == "if":
            return self.is_bool_block(e[2])
        if t == "block":
            return self.is_bool_block(e[1])
        return False

    def is_bool_block(self, b):
        return bool(b) and b[-1][0] == "tail" and self.is_bool(b[-1][1])

    # value of a Nat / Res expression handed to continuation k : str -> str
    def N(self, e, env, k):
        t = e[0]
        if t == "int":
            return k(str(e[1]))
        if t == "unit":
            return k("()")
        if t == "var":
            n = e[1]
            if n in env:
                return k(env[n])
            if n in CONSTS:
                return k(n)
            if n == "usize::MAX":
                return k(str(USIZE - 1))
            raise CannotTranslate(f"unknown name `{n}`")
        if t == "bin":
            op = e[1]
            if self.is_bool(e):
                return self.B(e, env, k("true"), k("false"))
            return self.N(e[2], env, lambda a: self.N(e[3], env, lambda b: self.arith(op, a, b, k)))
        if t == "method":
            m, recv, args = e[1], e[2], e[3]
            if m == "next_power_of_two" and not args:
                return self.N(recv, env, lambda a: f"if {a} ≤ {HALF} then {k(f'(npow2 {a})')} else none")
            if m == "next_multiple_of" and len(args) == 1:
                return self.N(recv, env, lambda a: self.N(args[0], env, lambda b:
                              f"if {b} = 0 then none else if nextMultipleOf {a} {b} < {USIZE} then "
                              f"{k(f'(nextMultipleOf {a} {b})')} else none"))
            if m in ("min", "max") and len(args) == 1:
                return self.N(recv, env, lambda a: self.N(args[0], env, lambda b: k(f"({m} {a} {b})")))
            if self.is_bool(e):
                return self.B(e, env, k("true"), k("false"))
            raise CannotTranslate(f"method .{m}()")
        if t == "call":
            name, args = e[1], e[2]
            if name in ("std::cmp::min", "std::cmp::max", "cmp::min", "cmp::max", "min", "max") and len(args) == 2:
                f = name.split("::")[-1]
                return self.N(args[0], env, lambda a: self.N(args[1], env, lambda b: k(f"({f} {a} {b})")))
            if name == "Ok" and len(args) == 1:
                return self.N(args[0], env, lambda a: k(f"(Res.Ok {a})"))
            if name == "Err" and len(args) == 1:
                return self.N(args[0], env, lambda a: k(f"(Res.Err {a})"))
            if "closure " + name in env and not args:
                return self.blockv(env["closure " + name], env, k)
            if name in self.fns:
                lean, arity, kind = self.fns[name]
                if len(args) != arity:
                    raise CannotTranslate(f"call of {name} with {len(args)} arguments")
                if kind == "bool":
                    return self.B(e, env, k("true"), k("false"))

                def go(i, acc):
                    if i == len(args):
                        self.fresh += 1
                        v = f"v{self.fresh}"
                        return f"(match {lean} {' '.join(acc)} with | none => none | some {v} => {k(v)})"
                    return self.N(args[i], env, lambda a: go(i + 1, acc + [a]))
                return go(0, [])
            raise CannotTranslate(f"call of `{name}`")
        if t == "struct":
            name, fields = e[1], e[2]
            variant = name.split("::")[-1]
            if variant not in ERR_FIELDS or sorted(fields) != sorted(ERR_FIELDS[variant]):
                raise CannotTranslate(f"error value `{name}` with fields {sorted(fields)}")
            order = ERR_FIELDS[variant]

            def go(i, acc):
                if i == len(order):
                    return k(f"(SrcErr.{variant} {' '.join(acc)})")
                return self.N(fields[order[i]], env, lambda a: go(i + 1, acc + [a]))
            return go(0, [])
        if t == "if":
            if e[3] is None:
                raise CannotTranslate("`if` without `else` used as a value")
            return self.B(e[1], env, self.blockv(e[2], env, k), self.blockv(e[3], env, k))
        if t == "block":
            return self.blockv(e[1], env, k)
        if t == "match":
            return self.match(e, env, lambda b, en: self.blockv(b, en, k))
        if t in ("bool", "not"):
            return self.B(e, env, k("true"), k("false"))
        raise CannotTranslate(f"expression `{t}`")

    def arith(self, op, a, b, k):
        if op == "+":
            return f"if {a} + {b} < {USIZE} then {k(f'({a} + {b})')} else none"
        if op == "-":
            return f"if {b} ≤ {a} then {k(f'({a} - {b})')} else none"
        if op == "*":
            return f"if {a} * {b} < {USIZE} then {k(f'({a} * {b})')} else none"
        if op in ("%", "/"):
            return f"if {b} = 0 then none else {k(f'({a} {op} {b})')}"
        if op == "&" and b.isdigit() and (int(b) + 1) & int(b) == 0:
            return k(f"({a} % {int(b) + 1})")   # x & (2^j - 1)
        raise CannotTranslate(f"operator `{op}`")

    # branch on a boolean expression: T / F are finished Lean terms
    def B(self, e, env, T, F):
        t = e[0]
        if t == "bool":
            return T if e[1] == "true" else F
        if t == "not":
            return self.B(e[1], env, F, T)
        if t == "bin":
            op = e[1]
            if op == "&&":
                return self.B(e[2], env, self.B(e[3], env, T, F), F)
            if op == "||":
                return self.B(e[2], env, T, self.B(e[3], env, T, F))
            if op in ("==", "!=", "<", ">", "<=", ">="):
                lop = {"==": "=", "!=": "≠", "<=": "≤", ">=": "≥"}.get(op, op)
                return self.N(e[2], env, lambda a: self.N(e[3], env, lambda b: f"if {a} {lop} {b} then {T} else {F}"))
        if t == "method" and e[1] in ("is_ok", "is_err") and not e[3]:
            yes, no = (T, F) if e[1] == "is_ok" else (F, T)
            return self.N(e[2], env, lambda a: f"(match {a} with | Res.Ok _ => {yes} | Res.Err _ => {no})")
        if t == "method" and e[1] == "is_power_of_two" and not e[3]:
            return self.N(e[2], env, lambda a: f"if {a} ≠ 0 ∧ npow2 {a} = {a} then {T} else {F}")
        if t == "call" and e[1] in self.fns and self.fns[e[1]][2] == "bool":
            lean, arity, _ = self.fns[e[1]]
            args = e[2]
            if len(args) != arity:
                raise CannotTranslate(f"call of {e[1]} with {len(args)} arguments")

            def go(i, acc):
                if i == len(args):
                    return f"(match {lean} {' '.join(acc)} with | none => none | some true => {T} | some false => {F})"
                return self.N(args[i], env, lambda a: go(i + 1, acc + [a]))
            return go(0, [])
        if t == "if" and e[3] is not None:
            return self.B(e[1], env, self.blockB(e[2], env, T, F), self.blockB(e[3], env, T, F))
        if t == "block":
            return self.blockB(e[1], env, T, F)
        raise CannotTranslate(f"boolean expression `{t}`")

    def match(self, e, env, kbody):
        s, arms = e[1], e[2]
        if not (s[0] == "method" and s[1] == "cmp" and len(s[3]) == 1):
            raise CannotTranslate("`match` on something other than a.cmp(&b)")
        by = {}
        for pat, body in arms:
            p = pat.replace("std::cmp::", "").replace("cmp::", "")
            if p not in ("Ordering::Less", "Ordering::Greater", "Ordering::Equal"):
                raise CannotTranslate(f"match arm `{pat}`")
            by[p] = body
        if len(by) != 3:
            raise CannotTranslate("match on Ordering without exactly the three arms")
        return self.N(s[2], env, lambda a: self.N(s[3][0], env, lambda b:
                      f"if {a} < {b} then {kbody(by['Ordering::Less'], env)} else if {a} > {b} then "
                      f"{kbody(by['Ordering::Greater'], env)} else {kbody(by['Ordering::Equal'], env)}"))

    # a block whose value goes to k; `return` leaves through self.ret
    def blockv(self, stmts, env, k):
        return self.stmts(stmts, dict(env), k)

    def blockB(self, stmts, env, T, F):
        if not (stmts and stmts[-1][0] == "tail"):
            raise CannotTranslate("boolean block without a tail expression")
        return self.stmts(stmts[:-1] + [("tailB", stmts[-1][1], T, F)], dict(env), None)

    def stmts(self, stmts, env, k):
        if not stmts:
            if k is None:
                raise CannotTranslate("block without a value")
            return k("()")
        s, rest = stmts[0], stmts[1:]
        if s[0] == "let" and s[2][0] == "closure":
            env2 = dict(env)
            env2["closure " + s[1]] = s[2][1]
            return self.stmts(rest, env2, k)
        if s[0] == "let":
            def bind(v):
                self.fresh += 1
                n = f"{s[1]}_{self.fresh}"
                env2 = dict(env)
                env2[s[1]] = n
                return f"let {n} := {v}; {self.stmts(rest, env2, k)}"
            return self.N(s[2], env, bind)
        if s[0] == "return":
            return self.N(s[1], env, self.ret)
        if s[0] == "assert":
            return self.B(s[1], env, self.stmts(rest, env, k), "none")
        if s[0] == "ifstmt":
            body = s[2]
            if not (body and body[-1][0] == "return"):
                raise CannotTranslate("`if` statement whose body does not end in `return`")
            return self.B(s[1], env, self.stmts(body, dict(env), None), self.stmts(rest, env, k))
        if s[0] == "trystmt":
            # `f(args)?;` : an Err of the callee is returned, otherwise execution goes on
            call = s[1]
            if call[1] not in self.fns or self.fns[call[1]][2] != "res":
                raise CannotTranslate(f"`?` on a call of `{call[1]}`")
            lean, arity, _ = self.fns[call[1]]
            args = call[2]
            if len(args) != arity:
                raise CannotTranslate(f"call of {call[1]} with {len(args)} arguments")

            def go(i, acc):
                if i == len(args):
                    return (f"(match {lean} {' '.join(acc)} with | none => none | some (Res.Err e) => some (Res.Err e) "
                            f"| some (Res.Ok _) => {self.stmts(rest, env, k)})")
                return self.N(args[i], env, lambda a: go(i + 1, acc + [a]))
            return go(0, [])
        if s[0] == "workreset":
            # `work.reset(args…);` : the request is what the function returns (with its final `Ok(())`)
            if "$reset" in env:
                raise CannotTranslate("two work.reset calls")

            def go(i, acc):
                if i == len(s[1]):
                    env2 = dict(env)
                    env2["$reset"] = "(" + ", ".join(acc) + ")"
                    return self.stmts(rest, env2, k)
                return self.N(s[1][i], env, lambda a: go(i + 1, acc + [a]))
            return go(0, [])
        if s[0] == "tail":
            if rest:
                raise CannotTranslate("tail expression followed by statements")
            e = s[1]
            if "$reset" in env:
                if e == ("call", "Ok", [("unit",)]):
                    return k(f"(Res.Ok {env['$reset']})")
                raise CannotTranslate("a function that calls work.reset must end in Ok(())")
            if e[0] == "match":
                return self.match(e, env, lambda b, en: self.stmts(b, dict(en), k))
            if e[0] == "if" and e[3] is not None and not self.is_bool(e):
                return self.B(e[1], env, self.stmts(e[2], dict(env), k), self.stmts(e[3], dict(env), k))
            return self.N(e, env, k)
        if s[0] == "tailB":
            return self.B(s[1], env, s[2], s[3])
        raise CannotTranslate(f"statement `{s[0]}`")

    def function(self, lean_name, params, body_toks, extra_params=""):
        names = []
        p = P(params)
        while p.peek()[0] != "eof":
            n = p.eat()
            p.eat(":")
            ty = []
            while p.peek()[0] != "eof" and not p.at(","):
                ty.append(p.eat())
            if p.at(","):
                p.eat()
            if n == "work" and "".join(ty) in ("&mutEncoderWork", "&mutDecoderWork"):
                continue
            if "".join(ty) != "usize":
                raise CannotTranslate(f"parameter {n} of type {''.join(ty)}")
            names.append(n)
        body = P(body_toks).block_body()
        env = {n: n for n in names}
        self.ret = lambda v: f"some {v}"
        term = self.stmts(body, env, self.ret)
        return names, term


def pretty(term, width=110):
    """break the one-line if-tree into indented lines (terms with `match` stay on one line: the
    alternatives of a Lean `match` are column-sensitive)"""
    if "match" in term:
        return "  " + term
    out, depth, i = [], 1, 0
    toks = re.split(r"(\bthen\b|\belse\b)", term)
    line = "  "
    for t in toks:
        if t == "then":
            out.append(line.rstrip() + " then")
            depth += 1
            line = "  " * depth
        elif t == "else":
            out.append(line.rstrip())
            depth = max(1, depth - 1)
            line = "  " * depth + "else "
        else:
            line += t.strip() + " "
    out.append(line.rstrip())
    return "\n".join(out)


SPECS = [
    # (file, context regex, fn name, lean name, kind, extra lean params)
    ("src/rate/rate_high.rs", r"impl.*Rate\s*<\s*E\s*>\s*for\s+HighRate\b", "supports", "HighRate_supports", "bool"),
    ("src/rate/rate_low.rs", r"impl.*Rate\s*<\s*E\s*>\s*for\s+LowRate\b", "supports", "LowRate_supports", "bool"),
    ("src/rate/rate_default.rs", r"^$", "use_high_rate", "use_high_rate", "res"),
    ("src/rate/rate_default.rs", r"impl.*Rate\s*<\s*E\s*>\s*for\s+DefaultRate\b", "supports", "DefaultRate_supports", "bool"),
    ("src/rate.rs", r"trait\s+Rate\b", "validate", "Rate_validate", "res"),
    ("src/rate/rate_high.rs", r"impl.*RateEncoder\s*<\s*E\s*>\s*for\s+HighRateEncoder\b|impl.*\bHighRateEncoder\s*<\s*E\s*>$", "work_count", "HighRateEncoder_work_count", "nat"),
    ("src/rate/rate_high.rs", r"impl.*RateDecoder\s*<\s*E\s*>\s*for\s+HighRateDecoder\b|impl.*\bHighRateDecoder\s*<\s*E\s*>$", "work_count", "HighRateDecoder_work_count", "nat"),
    ("src/rate/rate_low.rs", r"impl.*RateEncoder\s*<\s*E\s*>\s*for\s+LowRateEncoder\b|impl.*\bLowRateEncoder\s*<\s*E\s*>$", "work_count", "LowRateEncoder_work_count", "nat"),
    ("src/rate/rate_low.rs", r"impl.*RateDecoder\s*<\s*E\s*>\s*for\s+LowRateDecoder\b|impl.*\bLowRateDecoder\s*<\s*E\s*>$", "work_count", "LowRateDecoder_work_count", "nat"),
]

SPECS += [
    ("src/rate/rate_high.rs", r"impl.*\bHighRateEncoder\s*<\s*E\s*>$", "reset_work", "HighRateEncoder_reset_work", "reset4"),
    ("src/rate/rate_high.rs", r"impl.*\bHighRateDecoder\s*<\s*E\s*>$", "reset_work", "HighRateDecoder_reset_work", "reset6"),
    ("src/rate/rate_low.rs", r"impl.*\bLowRateEncoder\s*<\s*E\s*>$", "reset_work", "LowRateEncoder_reset_work", "reset4"),
    ("src/rate/rate_low.rs", r"impl.*\bLowRateDecoder\s*<\s*E\s*>$", "reset_work", "LowRateDecoder_reset_work", "reset6"),
]

# `Self::validate` / `Self::work_count` inside the reset_work functions
SELF_FNS = {
    "HighRateEncoder_reset_work": {"Self::validate": ("Rate_validate HighRate_supports", 3, "res"), "Self::work_count": ("HighRateEncoder_work_count", 2, "nat")},
    "HighRateDecoder_reset_work": {"Self::validate": ("Rate_validate HighRate_supports", 3, "res"), "Self::work_count": ("HighRateDecoder_work_count", 2, "nat")},
    "LowRateEncoder_reset_work": {"Self::validate": ("Rate_validate LowRate_supports", 3, "res"), "Self::work_count": ("LowRateEncoder_work_count", 2, "nat")},
    "LowRateDecoder_reset_work": {"Self::validate": ("Rate_validate LowRate_supports", 3, "res"), "Self::work_count": ("LowRateDecoder_work_count", 2, "nat")},
}

# what `Self::supports` means inside each translated function
SELF_SUPPORTS = {
    "HighRateEncoder_work_count": "HighRate_supports", "HighRateDecoder_work_count": "HighRate_supports",
    "LowRateEncoder_work_count": "LowRate_supports", "LowRateDecoder_work_count": "LowRate_supports",
    "Rate_validate": "supports",   # trait-generic: a parameter of the Lean function
}


def main():
    repo = sys.argv[1] if len(sys.argv) > 1 else "/repo"
    out = sys.argv[2] if len(sys.argv) > 2 else "/verif/lean/RSVerif/Gen/SrcEnvelope.lean"
    try:
        eng = open(f"{repo}/src/engine.rs").read()
        m = re.search(r"pub\s+const\s+GF_ORDER\s*:\s*usize\s*=\s*([0-9_]+)\s*;", eng)
        if not m:
            raise CannotTranslate("constant GF_ORDER not found in src/engine.rs as a literal")
        CONSTS["GF_ORDER"] = int(m.group(1).replace("_", ""))
        cache = {}
        defs = []
        for (file, ctxre, fn, lean, kind) in SPECS:
            if file not in cache:
                cache[file] = find_items(tokenize(open(f"{repo}/{file}").read()))
            cands = [it for it in cache[file] if it[1] == fn and re.search(ctxre, it[0])]
            if len(cands) != 1:
                raise CannotTranslate(f"{file}: expected exactly one `fn {fn}` in a block matching /{ctxre}/, found {len(cands)}")
            ctx, _, params, body = cands[0]
            fns = {"use_high_rate": ("use_high_rate", 2, "res")}
            sup = SELF_SUPPORTS.get(lean)
            if sup:
                fns["Self::supports"] = (sup, 2, "bool")
            fns.update(SELF_FNS.get(lean, {}))
            tr = Tr(fns)
            names, term = tr.function(lean, params, body)
            ty = {"bool": "Option Bool", "nat": "Option Nat",
                  "reset4": "Option (Res (Nat × Nat × Nat × Nat))",
                  "reset6": "Option (Res (Nat × Nat × Nat × Nat × Nat × Nat))",
                  "res": "Option (Res Bool)" if lean == "use_high_rate" else "Option (Res Unit)"}[kind]
            extra = "(supports : Nat → Nat → Option Bool) " if sup == "supports" else ""
            src = " ".join(t[1] for t in body)
            defs.append(f"/-- `{file}`, `{ctx or 'top level'}`, `fn {fn}`:\n    `{src[:400]}` -/\n"
                        f"def {lean} {extra}({' '.join(names)} : Nat) : {ty} :=\n{pretty(term)}\n")
    except CannotTranslate as e:
        print(f"CANNOT-TRANSLATE: {e}")
        return 3
    text = ("/- GENERATED by /verif/translate/rs2lean.py from the current text of /repo/src/rate*.rs — do not edit.\n"
            "   `none` = a usize operation on the evaluation path would overflow / a debug_assert would fail. -/\n"
            "import RSVerif.Model.RustSem\n\nnamespace RS.Src\nopen RS.Rust\n\n"
            f"def GF_ORDER : Nat := {CONSTS['GF_ORDER']}\n\n" + "\n".join(defs) + "\nend RS.Src\n")
    old = None
    try:
        old = open(out).read()
    except OSError:
        pass
    if old != text:
        open(out, "w").write(text)
    print(f"translated {len(defs)} functions -> {out}" + (" (unchanged)" if old == text else " (CHANGED)"))
    return 0


if __name__ == "__main__":
    sys.exit(main())
