#!/usr/bin/env python3
"""rs2lean_oneshot.py - translator for the one-shot functions `reed_solomon_simd::encode` / `decode` (src/lib.rs).

Regenerates /verif/lean/RSVerif/Gen/SrcOneShot.lean from the CURRENT Rust text.  The streaming API is abstract:
   EncApi E : supports, new, add (add_original_shard), encode (encode() + recovery_iter().map(to_vec).collect())
   DecApi D : supports, new, addO, addR, decode (decode() + restored_original_iter() pairs, to_vec)
each fallible call returns `Res`, `?` returns the error.  The iterators the functions consume are lists; `.next()`
takes the head, `for x in it` runs over what is left.  The translated function says, in order, which streaming
calls the one-shot function makes with which arguments — C10 states that this is all it does.
Anything outside the recognised shapes -> exit 3 with `CANNOT-TRANSLATE: …`.
"""
import os
import re
import sys

sys.path.insert(0, os.path.dirname(os.path.abspath(__file__)))
from rs2lean import tokenize, find_items, CannotTranslate  # noqa: E402


class P:
    def __init__(self, toks):
        self.t = toks
        self.i = 0

    def peek(self, o=0):
        return self.t[self.i + o] if self.i + o < len(self.t) else ("eof", "")

    def at(self, v, o=0):
        k, x = self.peek(o)
        return k != "eof" and x == v

    def eat(self, v=None):
        k, x = self.peek()
        if k == "eof":
            raise CannotTranslate(f"unexpected end of input (expected {v!r})")
        if v is not None and x != v:
            raise CannotTranslate(f"expected {v!r}, found {x!r}")
        self.i += 1
        return x

    def block(self):
        self.eat("{")
        b = self.block_body()
        self.eat("}")
        return b

    def pattern(self):
        """`x`, `mut x`, `(a, b)`, `Some(p)` -> nested tuple/list of names"""
        if self.at("mut"):
            self.eat()
        if self.at("("):
            self.eat()
            items = []
            while not self.at(")"):
                items.append(self.pattern())
                if self.at(","):
                    self.eat()
            self.eat(")")
            return ("tuple", items)
        n = self.eat()
        if n == "Some" and self.at("("):
            self.eat()
            p = self.pattern()
            self.eat(")")
            return ("some", p)
        return ("name", n)

    def block_body(self):
        stmts = []
        while not self.at("}") and self.peek()[0] != "eof":
            if self.at("let"):
                self.eat()
                pat = self.pattern()
                self.eat("=")
                e = self.expr()
                els = None
                if self.at("else"):
                    self.eat()
                    els = self.block()
                self.eat(";")
                stmts.append(("let", pat, e, els))
            elif self.at("return"):
                self.eat()
                e = self.expr()
                self.eat(";")
                stmts.append(("return", e))
            elif self.at("for"):
                self.eat()
                pat = self.pattern()
                self.eat("in")
                it = self.expr(nostruct=True)
                stmts.append(("for", pat, it, self.block()))
            else:
                e = self.expr()
                if self.at(";"):
                    self.eat()
                    if e[0] == "if" and e[3] is None:
                        stmts.append(("ifstmt", e[1], e[2]))
                    else:
                        stmts.append(("exprstmt", e))
                elif e[0] == "if" and e[3] is None:
                    stmts.append(("ifstmt", e[1], e[2]))
                elif self.at("}") or self.peek()[0] == "eof":
                    stmts.append(("tail", e))
                else:
                    raise CannotTranslate(f"unexpected token {self.peek()[1]!r} after expression")
        return stmts

    def expr(self, nostruct=False):
        if self.at("!"):
            self.eat()
            return ("not", self.expr(nostruct))
        return self.postfix(self.primary(nostruct))

    def postfix(self, e):
        while True:
            if self.at(".") and self.peek(1)[0] in ("id", "int"):
                self.eat()
                m = self.eat()
                if self.at("("):
                    e = ("method", m, e, self.args())
                else:
                    e = ("field", e, m)
            elif self.at("?"):
                self.eat()
                e = ("try", e)
            else:
                return e

    def args(self):
        self.eat("(")
        a = []
        while not self.at(")"):
            a.append(self.expr())
            if self.at(","):
                self.eat()
        self.eat(")")
        return a

    def primary(self, nostruct):
        k, v = self.peek()
        if v == "&":
            self.eat()
            return self.expr(nostruct)
        if v == "<":
            # qualified path `<[u8]>::to_vec`
            toks = []
            while not self.at(">"):
                toks.append(self.eat())
            toks.append(self.eat(">"))
            while self.at("::"):
                toks.append(self.eat())
                toks.append(self.eat())
            return ("var", "".join(toks))
        if v == "(":
            self.eat()
            items = []
            while not self.at(")"):
                items.append(self.expr())
                if self.at(","):
                    self.eat()
            self.eat(")")
            return items[0] if len(items) == 1 else ("tuple", items)
        if k == "int":
            self.eat()
            return ("int", int(v))
        if v == "if":
            self.eat()
            if self.at("let"):
                self.eat()
                pat = self.pattern()
                self.eat("=")
                e = self.expr(nostruct=True)
                t = self.block()
                self.eat("else")
                el = self.block()
                return ("iflet", pat, e, t, el)
            c = self.expr(nostruct=True)
            t = self.block()
            el = None
            if self.at("else"):
                self.eat()
                el = self.block()
            return ("if", c, t, el)
        if k == "id":
            path = [self.eat()]
            while self.at("::"):
                self.eat()
                path.append(self.eat())
            name = "::".join(path)
            if self.at("("):
                return ("call", name, self.args())
            if self.at("{") and not nostruct and path[0] == "Error":
                self.eat()
                fields = {}
                while not self.at("}"):
                    f = self.eat()
                    if self.at(":"):
                        self.eat()
                        fields[f] = self.expr()
                    else:
                        fields[f] = ("var", f)
                    if self.at(","):
                        self.eat()
                self.eat("}")
                return ("struct", name, fields)
            return ("var", name)
        raise CannotTranslate(f"unexpected token {v!r}")


ERR = {"UnsupportedShardCount": ["original_count", "recovery_count"],
       "TooFewOriginalShards": ["original_count", "original_received_count"],
       "NotEnoughShards": ["original_count", "original_received_count", "recovery_received_count"]}


class Tr:
    """env: name -> (kind, lean term); kinds: nat, iter (List), shard (Array Nat), pair (Nat × Array Nat),
    codec, result (what api.encode / api.decode returned)"""

    def __init__(self, role):
        self.role = role        # "enc" | "dec"
        self.codec_ty = "ReedSolomonEncoder" if role == "enc" else "ReedSolomonDecoder"
        self.fresh = 0

    def new(self, b):
        self.fresh += 1
        return f"{b}_{self.fresh}"

    def nat(self, e, env):
        if e[0] == "int":
            return str(e[1])
        if e[0] == "var" and e[1] in env and env[e[1]][0] == "nat":
            return env[e[1]][1]
        # x.as_ref().len() / x.1.as_ref().len()
        if e[0] == "method" and e[1] == "len" and not e[3] and e[2][0] == "method" and e[2][1] == "as_ref":
            return f"({self.shard(e[2][2], env)}).size"
        if e[0] == "field" and e[2] == "0" and e[1][0] == "var" and e[1][1] in env and env[e[1][1]][0] == "pair":
            return f"{env[e[1][1]][1]}.1"
        raise CannotTranslate(f"number `{e}`")

    def shard(self, e, env):
        if e[0] == "var" and e[1] in env and env[e[1]][0] == "shard":
            return env[e[1]][1]
        if e[0] == "field" and e[2] == "1" and e[1][0] == "var" and e[1][1] in env and env[e[1][1]][0] == "pair":
            return f"{env[e[1][1]][1]}.2"
        raise CannotTranslate(f"shard `{e}`")

    def err(self, e, env):
        if e[0] == "struct" and e[1].startswith("Error::"):
            v = e[1][7:]
            if v in ERR and sorted(e[2]) == sorted(ERR[v]):
                return f"(WErr.{v} " + " ".join(self.nat(e[2][f], env) for f in ERR[v]) + ")"
        raise CannotTranslate(f"error value `{e}`")

    def ret(self, e, env):
        """`return X;` / tail value"""
        if e[0] == "call" and e[1] == "Err" and len(e[2]) == 1:
            return f"Res.Err {self.err(e[2][0], env)}"
        if e[0] == "call" and e[1] == "Ok" and len(e[2]) == 1:
            a = e[2][0]
            if a == ("call", "HashMap::new", []):
                return "Res.Ok []"
            if a[0] == "var" and a[1] in env and env[a[1]][0] == "collected":
                return f"Res.Ok {env[a[1]][1]}"
            # result.recovery_iter().map(<[u8]>::to_vec).collect()
            if a[0] == "method" and a[1] == "collect" and a[2][0] == "method" and a[2][1] == "map" and a[2][3] == [("var", "<[u8]>::to_vec")] \
                    and a[2][2][0] == "method" and a[2][2][1] == "recovery_iter" and a[2][2][2][0] == "var" and a[2][2][2][1] in env \
                    and env[a[2][2][2][1]][0] == "result":
                return f"Res.Ok {env[a[2][2][2][1]][1]}"
        raise CannotTranslate(f"returned value `{e[0]} {e[1] if len(e) > 1 else ''}`")

    # fallible API call under `?` -> (lean call term, kind of the Ok value)
    def call(self, e, env):
        if e[0] == "call" and e[1] == f"{self.codec_ty}::new" and len(e[2]) == 3:
            return f"api.new {' '.join(self.nat(a, env) for a in e[2])}", "codec"
        if e[0] == "method" and e[2][0] == "var" and e[2][1] in env and env[e[2][1]][0] == "codec":
            c = env[e[2][1]][1]
            m, args = e[1], e[3]
            if self.role == "enc" and m == "add_original_shard" and len(args) == 1:
                return f"api.add {c} {self.shard(args[0], env)}", "codec!"
            if self.role == "enc" and m == "encode" and not args:
                return f"api.encode {c}", "result"
            if self.role == "dec" and m in ("add_original_shard", "add_recovery_shard") and len(args) == 2:
                f = "addO" if m == "add_original_shard" else "addR"
                return f"api.{f} {c} {self.nat(args[0], env)} {self.shard(args[1], env)}", "codec!"
            if self.role == "dec" and m == "decode" and not args:
                return f"api.decode {c}", "result"
        raise CannotTranslate(f"call under `?`: `{e[0]} {e[1] if len(e) > 1 else ''}`")

    def bindpat(self, pat, term, kind, env):
        env = dict(env)
        if pat[0] == "name":
            env[pat[1]] = (kind, term)
            return env
        if pat[0] == "tuple" and kind == "pair" and len(pat[1]) == 2 and all(p[0] == "name" for p in pat[1]):
            env[pat[1][0][1]] = ("nat", f"{term}.1")
            env[pat[1][1][1]] = ("shard", f"{term}.2")
            return env
        raise CannotTranslate(f"pattern {pat} for a {kind}")

    def elem_kind(self):
        return "shard" if self.role == "enc" else "pair"

    def stmts(self, stmts, env):
        if not stmts:
            raise CannotTranslate("function body without a final value")
        s, rest = stmts[0], stmts[1:]
        kind = s[0]
        if kind == "ifstmt":
            c, body = s[1], s[2]
            if c[0] == "not" and c[1][0] == "call" and c[1][1] == f"{self.codec_ty}::supports" and len(c[1][2]) == 2 \
                    and len(body) == 1 and body[0][0] == "return":
                a = " ".join(self.nat(x, env) for x in c[1][2])
                return f"if api.supports {a} = false then {self.ret(body[0][1], env)} else {self.stmts(rest, env)}"
            raise CannotTranslate("`if` statement that is not the supports check")
        if kind == "return":
            return self.ret(s[1], env)
        if kind == "tail":
            return self.ret(s[1], env)
        if kind == "let":
            pat, e, els = s[1], s[2], s[3]
            # let mut it = it.into_iter();
            if e[0] == "method" and e[1] == "into_iter" and not e[3] and e[2][0] == "var" and e[2][1] in env and env[e[2][1]][0] == "iter" and pat[0] == "name":
                env2 = dict(env)
                env2[pat[1]] = env[e[2][1]]
                return self.stmts(rest, env2)
            # let mut result = HashMap::new();
            if e == ("call", "HashMap::new", []) and pat[0] == "name":
                env2 = dict(env)
                env2[pat[1]] = ("map", "[]")
                return self.stmts(rest, env2)
            # let x = call?;
            if e[0] == "try" and pat[0] == "name":
                ct, k = self.call(e[1], env)
                v = self.new(pat[1])
                env2 = dict(env)
                env2[pat[1]] = ("codec" if k.startswith("codec") else k, v)
                return f"(match {ct} with | Res.Err e => Res.Err e | Res.Ok {v} => {self.stmts(rest, env2)})"
            # let Some(x) = it.next() else { … };
            if pat[0] == "some" and els is not None and self.is_next(e, env):
                return self.nextcase(e, env, pat[1], lambda env2: self.stmts(rest, env2), lambda: self.stmts(els, env))
            # let (a, b) = if let Some(x) = it.next() { (A, x) } else { … };
            if pat[0] == "tuple" and e[0] == "iflet" and e[1][0] == "some" and self.is_next(e[2], env):
                tb, eb = e[3], e[4]
                if len(tb) != 1 or tb[0][0] != "tail" or tb[0][1][0] != "tuple" or len(tb[0][1][1]) != len(pat[1]):
                    raise CannotTranslate("`if let` branch that is not a tuple value")

                def some_branch(env2):
                    env3 = dict(env2)
                    out = ""
                    for p, val in zip(pat[1], tb[0][1][1]):
                        if p[0] != "name":
                            raise CannotTranslate("nested pattern")
                        if val[0] == "var" and val[1] in env2 and env2[val[1]][0] in ("shard", "pair"):
                            env3[p[1]] = env2[val[1]]
                        else:
                            n = self.new(p[1])
                            out += f"let {n} := {self.nat(val, env2)}; "
                            env3[p[1]] = ("nat", n)
                    return out + self.stmts(rest, env3)
                return self.nextcase(e[2], env, e[1][1], some_branch, lambda: self.stmts(eb, env))
            # let x = <number>;
            if pat[0] == "name" and els is None:
                n = self.new(pat[1])
                env2 = dict(env)
                env2[pat[1]] = ("nat", n)
                return f"let {n} := {self.nat(e, env)}; {self.stmts(rest, env2)}"
            raise CannotTranslate(f"`let` of `{e[0]}`")
        if kind == "exprstmt":
            e = s[1]
            if e[0] == "try":
                ct, k = self.call(e[1], env)
                if k == "codec!":
                    cname = e[1][2][1]
                    v = self.new(cname)
                    env2 = dict(env)
                    env2[cname] = ("codec", v)
                    return f"(match {ct} with | Res.Err e => Res.Err e | Res.Ok {v} => {self.stmts(rest, env2)})"
                if k == "result":
                    return f"(match {ct} with | Res.Err e => Res.Err e | Res.Ok _ => {self.stmts(rest, env)})"
            raise CannotTranslate(f"expression statement `{e[0]}`")
        if kind == "for":
            pat, it, body = s[1], s[2], s[3]
            # for x in it { codec.add…(x)?; }
            if it[0] == "var" and it[1] in env and env[it[1]][0] == "iter":
                if len(body) != 1 or body[0][0] != "exprstmt" or body[0][1][0] != "try":
                    raise CannotTranslate("`for` body that is not one fallible call")
                x = self.new("x")
                envb = self.bindpat(pat, x, self.elem_kind(), env)
                ct, k = self.call(body[0][1][1], envb)
                if k != "codec!":
                    raise CannotTranslate("`for` body that does not add a shard")
                cname = body[0][1][1][2][1]
                cur = env[cname][1]
                acc = self.new("c")
                ct2 = ct.replace(f" {cur} ", f" {acc} ", 1)
                v = self.new(cname)
                env2 = dict(env)
                env2[cname] = ("codec", v)
                return (f"(match foldRes (fun {acc} {x} => {ct2}) {cur} {env[it[1]][1]} with | Res.Err e => Res.Err e "
                        f"| Res.Ok {v} => {self.stmts(rest, env2)})")
            # for (index, original) in decoder.decode()?.restored_original_iter() { result.insert(index, original.to_vec()); }
            if it[0] == "method" and it[1] == "restored_original_iter" and it[2][0] == "try":
                ct, k = self.call(it[2][1], env)
                ok = (k == "result" and pat == ("tuple", [("name", "index"), ("name", "original")]) and len(body) == 1
                      and body[0][0] == "exprstmt" and body[0][1][0] == "method" and body[0][1][1] == "insert"
                      and body[0][1][2][0] == "var" and body[0][1][2][1] in env and env[body[0][1][2][1]][0] == "map"
                      and body[0][1][3] == [("var", "index"), ("method", "to_vec", ("var", "original"), [])])
                if not ok:
                    raise CannotTranslate("the loop over restored_original_iter() is not `result.insert(index, original.to_vec())`")
                v = self.new("restored")
                env2 = dict(env)
                env2[body[0][1][2][1]] = ("collected", v)
                return f"(match {ct} with | Res.Err e => Res.Err e | Res.Ok {v} => {self.stmts(rest, env2)})"
            raise CannotTranslate("`for` over something else")
        raise CannotTranslate(f"statement `{kind}`")

    def is_next(self, e, env):
        return e[0] == "method" and e[1] == "next" and not e[3] and e[2][0] == "var" and e[2][1] in env and env[e[2][1]][0] == "iter"

    def nextcase(self, e, env, pat, some_k, none_k):
        it = e[2][1]
        h, t = self.new("head"), self.new("tail")
        env2 = self.bindpat(pat, h, self.elem_kind(), env)
        env2[it] = ("iter", t)
        return f"(match {env[it][1]} with | [] => {none_k()} | {h} :: {t} => {some_k(env2)})"


def main():
    repo = sys.argv[1] if len(sys.argv) > 1 else "/repo"
    out = sys.argv[2] if len(sys.argv) > 2 else "/verif/lean/RSVerif/Gen/SrcOneShot.lean"
    try:
        items = [it for it in find_items(tokenize(open(f"{repo}/src/lib.rs").read())) if it[0] == ""]
        parts = []
        for fn, role in (("encode", "enc"), ("decode", "dec")):
            cands = [it for it in items if it[1] == fn]
            if len(cands) != 1:
                raise CannotTranslate(f"expected exactly one top-level `fn {fn}` in src/lib.rs, found {len(cands)}")
            body = P(cands[0][3]).block_body()
            tr = Tr(role)
            env = {"original_count": ("nat", "original_count"), "recovery_count": ("nat", "recovery_count"),
                   "original": ("iter", "original")}
            if role == "dec":
                env["recovery"] = ("iter", "recovery")
            term = tr.stmts(body, env)
            src = " ".join(t[1] for t in cands[0][3])
            if role == "enc":
                parts.append(f"/-- `reed_solomon_simd::encode`: `{src[:220]} …` -/\n"
                             f"def encode {{E : Type}} (api : EncApi E) (original_count recovery_count : Nat) (original : List (Array Nat)) :\n"
                             f"    Res (List (Array Nat)) :=\n  {term}\n")
            else:
                parts.append(f"/-- `reed_solomon_simd::decode`: `{src[:220]} …` -/\n"
                             f"def decode {{D : Type}} (api : DecApi D) (original_count recovery_count : Nat)\n"
                             f"    (original recovery : List (Nat × Array Nat)) : Res (List (Nat × Array Nat)) :=\n  {term}\n")
    except CannotTranslate as e:
        print(f"CANNOT-TRANSLATE: {e}")
        return 3
    text = ("/- GENERATED by /verif/translate/rs2lean_oneshot.py from the current text of src/lib.rs — do not edit.\n"
            "   The one-shot functions as sequences of calls of the (abstract) streaming API. -/\n"
            "import RSVerif.Model.RustOneShot\n\nset_option linter.unusedVariables false\n\nnamespace RS.SrcO\nopen RS.SrcW RS.RustO\n\n" +
            "\n".join(parts) + "\nend RS.SrcO\n")
    old = None
    try:
        old = open(out).read()
    except OSError:
        pass
    if old != text:
        open(out, "w").write(text)
    print(f"translated 2 functions -> {out}" + (" (unchanged)" if old == text else " (CHANGED)"))
    return 0


if __name__ == "__main__":
    sys.exit(main())
