#!/usr/bin/env python3
"""rs2lean_shards.py - translator for the index arithmetic of the flat working memory, src/engine/shards.rs.

Regenerates /verif/lean/RSVerif/Gen/SrcShards.lean from the CURRENT Rust text of

  ShardsRefMut::{dist2_mut, dist4_mut, new, split_at_mut, zero, copy_within, flat2_mut, is_empty, len}
  Index / IndexMut for ShardsRefMut and for Shards, Shards::{new, as_ref_mut, resize}

A slice of blocks is a VIEW (offset, length) into the backing `Vec<[u8; 64]>`; `&v[a..b]`, `&v[a..]`, `&v[..b]` and
`v.split_at_mut(m)` are the partial functions of Model/RustShards.lean (`none` = the panic Rust raises), so every
translated accessor returns the exact block ranges it hands out — or `none` where it panics.  `usize` arithmetic
is checked (`none` on overflow / underflow).  Anything outside the recognised shapes -> exit 3, `CANNOT-TRANSLATE: …`.
"""
import os
import re
import sys

sys.path.insert(0, os.path.dirname(os.path.abspath(__file__)))
from rs2lean import tokenize, match_brace, CannotTranslate, USIZE  # noqa: E402
from rs2lean_kernel import KP  # noqa: E402


def find_items(toks):
    """(impl header, fn name, parameter tokens, body tokens) for every fn directly inside an impl block or at top level;
    unlike rs2lean.find_items, return types may contain `;` (`[u8; 64]`)"""
    items = []

    def scan(lo, hi, ctx):
        i = lo
        while i < hi:
            k, v = toks[i]
            if k == "id" and v == "impl" and ctx == "":
                j = i
                while toks[j] != ("op", "{"):
                    j += 1
                e = match_brace(toks, j)
                scan(j + 1, e, " ".join(t[1] for t in toks[i:j]).replace("' ", "'"))
                i = e + 1
            elif k == "id" and v in ("struct", "mod", "enum", "trait"):
                j = i
                while toks[j] not in (("op", "{"), ("op", ";")):
                    j += 1
                i = match_brace(toks, j) + 1 if toks[j] == ("op", "{") else j + 1
            elif k == "id" and v == "fn":
                name = toks[i + 1][1]
                j = i + 2
                if toks[j] == ("op", "<"):
                    d = 0
                    while True:
                        if toks[j] == ("op", "<"):
                            d += 1
                        if toks[j] == ("op", ">"):
                            d -= 1
                            if d == 0:
                                break
                        j += 1
                    j += 1
                d, p0 = 0, j
                while True:
                    if toks[j] == ("op", "("):
                        d += 1
                    if toks[j] == ("op", ")"):
                        d -= 1
                        if d == 0:
                            break
                    j += 1
                params = toks[p0 + 1:j]
                d = 0
                j += 1
                while not (toks[j] == ("op", "{") and d == 0):
                    if toks[j][1] in ("[", "("):
                        d += 1
                    if toks[j][1] in ("]", ")"):
                        d -= 1
                    j += 1
                e = match_brace(toks, j)
                items.append((ctx, name, params, toks[j + 1:e]))
                i = e + 1
            else:
                i += 1
    scan(0, len(toks), "")
    return items


class SP(KP):
    """adds ranges (`a..b`, `a..`, `..b`), `if`/`else` values, `match x.start_bound() { … }`, `*=`, assert!"""

    def body(self):
        out = []
        while not self.at("}") and self.peek()[0] != "eof":
            if self.at("#"):
                toks = []
                self.eat("#")
                self.eat("[")
                while not self.at("]"):
                    toks.append(self.eat())
                self.eat("]")
                if "".join(toks) != 'cfg(feature="verif-hooks")':
                    raise CannotTranslate(f"attribute #[{' '.join(toks)}]")
                self.expr()
                self.eat(";")
                continue
            if self.peek()[0] == "id" and self.peek()[1] in ("assert", "debug_assert") and self.at("!", 1):
                name = self.eat()
                self.eat("!")
                self.eat("(")
                c = self.cmp()
                self.eat(")")
                self.eat(";")
                if name == "assert":
                    out.append(("assert", c))
                continue
            if self.peek()[0] == "id" and self.peek()[1].startswith("debug_assert") and self.at("!", 1):
                self.eat()
                self.eat("!")
                d = 0
                while True:
                    v = self.eat()
                    if v == "(":
                        d += 1
                    if v == ")":
                        d -= 1
                        if d == 0:
                            break
                self.eat(";")
                continue
            if self.at("let"):
                self.eat()
                pat = self.pattern()
                if self.at(":"):
                    self.eat()
                    self.skip_type()
                self.eat("=")
                e = self.expr()
                self.eat(";")
                out.append(("let", pat, e))
                continue
            e = self.expr()
            if self.at("*") and self.at("=", 1):
                self.eat()
                self.eat()
                rhs = self.expr()
                self.eat(";")
                out.append(("mulassign", e, rhs))
            elif self.at("="):
                self.eat()
                rhs = self.expr()
                self.eat(";")
                out.append(("assign", e, rhs))
            elif self.at(";"):
                self.eat()
                out.append(("expr", e))
            elif self.at("}") or self.peek()[0] == "eof":
                out.append(("tail", e))
            elif e[0] in ("if", "match"):
                out.append(("tail", e))
            else:
                raise CannotTranslate(f"unexpected token {self.peek()[1]!r} after expression")
        return out

    def cmp(self):
        a = self.expr()
        for op in (">=", "<=", "<", ">", "=="):
            if self.at(op):
                self.eat()
                return ("cmp", op, a, self.expr())
        raise CannotTranslate("comparison expected")

    def binop_at(self):
        if self.at("*") and self.at("=", 1):
            return None, 0
        return super().binop_at()

    def expr(self, nostruct=False, level=0):
        if level == 0 and self.at(".."):
            self.eat()
            hi = KP.expr(self, nostruct, 0)
            return ("range", None, hi)
        e = KP.expr(self, nostruct, level)
        if level == 0 and self.at(".."):
            self.eat()
            if self.at("]") or self.at(")") or self.at(","):
                return ("range", e, None)
            hi = KP.expr(self, nostruct, 0)
            return ("range", e, hi)
        return e

    def primary(self, nostruct):
        if self.at("if"):
            self.eat()
            c = self.cmp_nostruct()
            t = self.block()
            self.eat("else")
            el = self.block()
            return ("if", c, t, el)
        if self.at("match"):
            self.eat()
            scrut = KP.expr(self, True, 0)
            self.eat("{")
            arms = []
            while not self.at("}"):
                # Bound::Included(x) => e,
                path = [self.eat()]
                while self.at("::"):
                    self.eat()
                    path.append(self.eat())
                var = None
                if self.at("("):
                    self.eat()
                    var = self.eat()
                    self.eat(")")
                self.eat("=>")
                e = self.expr()
                if self.at(","):
                    self.eat()
                arms.append((path, var, e))
            self.eat("}")
            return ("match", scrut, arms)
        if self.at("["):
            # [0; 64]
            self.eat()
            a = self.expr()
            self.eat(";")
            b = self.expr()
            self.eat("]")
            return ("arrayrep", a, b)
        return super().primary(nostruct)

    def cmp_nostruct(self):
        a = KP.expr(self, True, 0)
        for op in (">=", "<=", "<", ">", "=="):
            if self.at(op):
                self.eat()
                return ("cmp", op, a, KP.expr(self, True, 0))
        raise CannotTranslate("comparison expected in `if`")


LEANKW = {"end": "end_", "from": "from_", "at": "at_", "open": "open_", "in": "in_", "then": "then_", "fun": "fun_", "by": "by_"}


class Tr:
    """one function body -> a Lean term of type `Option ρ` built from `.bind`s (layout-insensitive)"""

    def __init__(self, name):
        self.name = name
        self.n = 0

    def fresh(self, b):
        self.n += 1
        return f"{b}_{self.n}"

    # numbers: (lean term) with checked arithmetic threaded through continuation k : str -> str
    def num(self, e, env, k):
        if e[0] == "int":
            return k(str(e[1]))
        if e[0] == "var":
            v = env.get(e[1])
            if v and v[0] == "num":
                return k(LEANKW.get(v[1], v[1]))
            raise CannotTranslate(f"{self.name}: `{e[1]}` is not a number")
        if e[0] == "field" and e[1] == ("var", "self") and e[2] in ("shard_count", "shard_len_64"):
            return k(f"self.{e[2]}")
        if e[0] == "method" and e[2] == "len" and not e[4]:
            return self.view(e[1], env, lambda v: k(f"{v}.len"))
        if e[0] == "bin" and e[1] in ("*", "+", "-"):
            op = e[1]

            def k1(a):
                def k2(b):
                    r = self.fresh("n")
                    if op == "-":
                        return f"(if {b} ≤ {a} then some ({a} - {b}) else none).bind fun {r} =>\n  {k(r)}"
                    return f"(if {a} {op} {b} < {USIZE} then some ({a} {op} {b}) else none).bind fun {r} =>\n  {k(r)}"
                return self.num(e[3], env, k2)
            return self.num(e[2], env, k1)
        raise CannotTranslate(f"{self.name}: number `{e}`")

    # views
    def view(self, e, env, k):
        if e[0] == "ref":
            return self.view(e[1], env, k)
        if e[0] == "var":
            v = env.get(e[1])
            if v and v[0] == "view":
                return k(v[1])
            raise CannotTranslate(f"{self.name}: `{e[1]}` is not a slice")
        if e[0] == "field" and e[1] == ("var", "self") and e[2] == "data":
            return k("self.data")
        if e[0] == "method" and e[2] in ("as_mut", "as_ref") and not e[4]:
            return self.view(e[1], env, k)
        if e[0] == "index" and e[2][0] == "range":
            lo, hi = e[2][1], e[2][2]

            def kv(v):
                r = self.fresh("v")
                if lo is None:
                    return self.num(hi, env, lambda b: f"(View.upTo {v} {b}).bind fun {r} =>\n  {k(r)}")
                if hi is None:
                    return self.num(lo, env, lambda a: f"(View.from {v} {a}).bind fun {r} =>\n  {k(r)}")
                return self.num(lo, env, lambda a: self.num(hi, env, lambda b: f"(View.range {v} {a} {b}).bind fun {r} =>\n  {k(r)}"))
            return self.view(e[1], env, kv)
        raise CannotTranslate(f"{self.name}: slice expression `{e[0]}`")

    def stmts(self, body, env, ret):
        """ret(value-expression, env) -> Lean term for the function result"""
        if not body:
            raise CannotTranslate(f"{self.name}: no result")
        s, rest = body[0], body[1:]
        kind = s[0]
        if kind == "mulassign":
            lhs, rhs = s[1], s[2]
            if lhs[0] != "var" or env.get(lhs[1], ("",))[0] != "num":
                raise CannotTranslate(f"{self.name}: `*=` on `{lhs}`")

            def k(v):
                e2 = dict(env)
                e2[lhs[1]] = ("num", v)
                return self.stmts(rest, e2, ret)
            return self.num(("bin", "*", lhs, rhs), env, k)
        if kind == "assert":
            c = s[1]
            return self.num(c[2], env, lambda a: self.num(c[3], env, lambda b: f"(if {a} {self.cmpop(c[1])} {b} then some () else none).bind fun _ =>\n  {self.stmts(rest, env, ret)}"))
        if kind == "let":
            pat, e = s[1], s[2]
            if pat[0] == "tuple" and len(pat[1]) == 2 and e[0] == "method" and e[2] == "split_at_mut" and len(e[4]) == 1:
                a, b = pat[1][0][1], pat[1][1][1]

                def kv(v):
                    def km(m):
                        p = self.fresh("p")
                        e2 = dict(env)
                        e2[a] = ("view", f"{p}.1")
                        e2[b] = ("view", f"{p}.2")
                        return f"(View.splitAt {v} {m}).bind fun {p} =>\n  {self.stmts(rest, e2, ret)}"
                    return self.num(e[4][0], env, km)
                return self.view(e[1], env, kv)
            if pat[0] == "name" and e[0] == "match":
                def k(v):
                    e2 = dict(env)
                    e2[pat[1]] = ("num", v)
                    return self.stmts(rest, e2, ret)
                return self.match_bound(e, env, k)
            if pat[0] == "name":
                def k(v):
                    e2 = dict(env)
                    e2[pat[1]] = ("num", v)
                    return self.stmts(rest, e2, ret)
                return self.num(e, env, k)
            raise CannotTranslate(f"{self.name}: let pattern")
        if kind == "assign":
            lhs, rhs = s[1], s[2]
            if lhs[0] == "field" and lhs[1] == ("var", "self") and lhs[2] in ("shard_count", "shard_len_64"):
                def k(v):
                    n = self.fresh("self")
                    e2 = dict(env)
                    return f"(some {{ self with {lhs[2]} := {v} }}).bind fun self =>\n  {self.stmts(rest, e2, ret)}"
                return self.num(rhs, env, k)
            raise CannotTranslate(f"{self.name}: assignment to `{lhs}`")
        if kind == "expr":
            e = s[1]
            # effects on the backing memory end the function in this subset
            if rest:
                raise CannotTranslate(f"{self.name}: statement after an effect")
            return ret(e, env)
        if kind == "tail":
            if rest:
                raise CannotTranslate(f"{self.name}: statements after the value")
            e = s[1]
            if e[0] == "if":
                c = e[1]
                return self.num(c[2], env, lambda a: self.num(c[3], env, lambda b: f"if {a} {self.cmpop(c[1])} {b} then\n  ({self.stmts(e[2], env, ret)})\n  else\n  ({self.stmts(e[3], env, ret)})"))
            return ret(e, env)
        raise CannotTranslate(f"{self.name}: statement `{kind}`")

    @staticmethod
    def cmpop(op):
        return {">=": "≥", "<=": "≤", "<": "<", ">": ">", "==": "="}[op]

    def match_bound(self, e, env, k):
        """match range.start_bound() / end_bound() { Bound::Included(x) => e1, Bound::Excluded(x) => e2, Bound::Unbounded => e3 }"""
        scrut = e[1]
        if not (scrut[0] == "method" and scrut[2] in ("start_bound", "end_bound") and scrut[1][0] == "var" and env.get(scrut[1][1], ("",))[0] == "range"):
            raise CannotTranslate(f"{self.name}: match on `{scrut}`")
        which = "lo" if scrut[2] == "start_bound" else "hi"
        arms = {}
        for path, var, body in e[2]:
            if path[0] != "Bound" or len(path) != 2:
                raise CannotTranslate("match arm")
            arms[path[1]] = (var, body)
        if set(arms) != {"Included", "Excluded", "Unbounded"}:
            raise CannotTranslate("match on a bound does not list Included / Excluded / Unbounded")
        r = self.fresh("b")

        def arm(name):
            var, body = arms[name]
            e2 = dict(env)
            if var:
                e2[var] = ("num", LEANKW.get(var, var))
            return self.num(body, e2, lambda v: f"some {v}")
        iv, ev = (LEANKW.get(arms[a][0], arms[a][0]) for a in ("Included", "Excluded"))
        return (f"(Bound.cases range.{which} (fun {iv} => {arm('Included')}) (fun {ev} => {arm('Excluded')}) "
                f"({arm('Unbounded')})).bind fun {r} =>\n  {k(r)}")


def params_of(ptoks):
    out, cur, depth = [], [], 0
    for k, v in ptoks:
        if v in ("<", "[", "("):
            depth += 1
        if v in (">", "]", ")"):
            depth -= 1
        if v == "," and depth == 0:
            out.append(cur)
            cur = []
        else:
            cur.append(v)
    if cur:
        out.append(cur)
    res = []
    for p in out:
        if p[-1] == "self":
            continue
        if p[0] == "mut":
            p = p[1:]
        res.append((p[0], "".join(p[2:])))
    return res


def main():
    repo = sys.argv[1] if len(sys.argv) > 1 else "/repo"
    out = sys.argv[2] if len(sys.argv) > 2 else "/verif/lean/RSVerif/Gen/SrcShards.lean"
    try:
        src = open(f"{repo}/src/engine/shards.rs").read()
        items = find_items(tokenize(src))
        parts = []
        # every function of the file is either translated here or modelled by hand at byte level (Model/Blocks.lean:
        # `insert`, `undo_last_chunk_encoding`); a function this list does not know makes the file untranslatable
        known = {"as_ref_mut", "new", "resize", "insert", "undo_last_chunk_encoding", "index", "index_mut", "is_empty", "len",
                 "split_at_mut", "zero", "copy_within", "flat2_mut", "dist2_mut", "dist4_mut"}
        extra = sorted({x[1] for x in items} - known)
        if extra:
            raise CannotTranslate(f"shards.rs: functions outside the translated set: {', '.join(extra)}")
        fields = re.findall(r"struct\s+(\w+)[^{;]*\{([^}]*)\}", src)
        for sname, body in fields:
            fs = re.findall(r"(\w+)\s*:", re.sub(r"//[^\n]*", "", body))
            if sname in ("Shards", "ShardsRefMut") and fs != ["shard_count", "shard_len_64", "data"]:
                raise CannotTranslate(f"struct {sname} has fields {fs}, not shard_count / shard_len_64 / data")
        if re.search(r"\bstatic\b|thread_local!|impl\s+Drop\b", re.sub(r"//[^\n]*", "", src)):
            raise CannotTranslate("shards.rs: static / thread_local / Drop")

        def pick(hdr, name):
            c = [x for x in items if x[1] == name and re.search(hdr, x[0].strip())]
            if len(c) != 1:
                raise CannotTranslate(f"shards.rs: expected exactly one `{name}` in `{hdr}`, found {len(c)}")
            return c[0]

        def doc(item):
            return " ".join(t[1] for t in item[3])[:170].replace("/-", "/ -").replace("-/", "- /")

        # ---- view-returning accessors of ShardsRefMut
        def views_ret(tr, n):
            def ret(e, env):
                if e[0] != "tuple" or len(e[1]) != n:
                    raise CannotTranslate(f"{tr.name}: result is not a {n}-tuple of slices")

                def go(i, acc):
                    if i == n:
                        return f"some ({', '.join(acc)})"
                    return tr.view(e[1][i], env, lambda v: go(i + 1, acc + [v]))
                return go(0, [])
            return ret

        for (name, n) in (("dist2_mut", 2), ("dist4_mut", 4), ("flat2_mut", 2)):
            it = pick(r"^impl.*ShardsRefMut < '", name) if name != "flat2_mut" else pick(r"^impl ShardsRefMut < '_ >$", name)
            ps = params_of(it[2])
            if any(t != "usize" for _, t in ps):
                raise CannotTranslate(f"{name}: parameter types")
            tr = Tr(name)
            env = {p: ("num", p) for p, _ in ps}
            term = tr.stmts(SP(it[3]).body(), env, views_ret(tr, n))
            ty = " × ".join(["View"] * n)
            parts.append(f"/-- `ShardsRefMut::{name}`: `{doc(it)} …` -/\ndef ShardsRefMut_{name} (self : ShardsS) {' '.join(f'({p} : Nat)' for p, _ in ps)} : Option ({ty}) :=\n  {term}\n")

        # ---- Index / IndexMut
        for (hdr, fn, lean) in ((r"^impl Index < usize > for ShardsRefMut", "index", "ShardsRefMut_index"),
                                (r"^impl IndexMut < usize > for ShardsRefMut", "index_mut", "ShardsRefMut_index_mut"),
                                (r"^impl Index < usize > for Shards$", "index", "Shards_index"),
                                (r"^impl IndexMut < usize > for Shards$", "index_mut", "Shards_index_mut")):
            it = pick(hdr, fn)
            tr = Tr(lean)
            term = tr.stmts(SP(it[3]).body(), {"index": ("num", "index")}, lambda e, env: tr.view(e, env, lambda v: f"some {v}"))
            parts.append(f"/-- `{lean}`: `{doc(it)}` -/\ndef {lean} (self : ShardsS) (index : Nat) : Option View :=\n  {term}\n")

        # ---- ShardsRefMut::new
        it = pick(r"^impl < 'a > ShardsRefMut < 'a >$", "new")
        ps = params_of(it[2])
        if [p for p, _ in ps] != ["shard_count", "shard_len_64", "data"]:
            raise CannotTranslate("ShardsRefMut::new parameters")
        tr = Tr("new")

        def ret_new(e, env):
            if e[0] != "struct" or e[1] != ["Self"]:
                raise CannotTranslate("ShardsRefMut::new does not end in `Self { … }`")
            f = dict(e[2])
            if set(f) != {"shard_count", "shard_len_64", "data"}:
                raise CannotTranslate("ShardsRefMut::new: fields")
            return tr.num(f["shard_count"], env, lambda a: tr.num(f["shard_len_64"], env, lambda b: tr.view(f["data"], env, lambda v: f"some {{ shard_count := {a}, shard_len_64 := {b}, data := {v} }}")))

        class SPs(SP):
            def primary(self, nostruct):
                k, v = self.peek()
                if v == "Self" and self.at("{", 1):
                    self.eat()
                    self.eat("{")
                    fields = []
                    while not self.at("}"):
                        f = self.eat()
                        if self.at(":"):
                            self.eat()
                            fields.append((f, self.expr()))
                        else:
                            fields.append((f, ("var", f)))
                        if self.at(","):
                            self.eat()
                    self.eat("}")
                    return ("struct", ["Self"], fields)
                return super().primary(nostruct)

        env = {"shard_count": ("num", "shard_count"), "shard_len_64": ("num", "shard_len_64"), "data": ("view", "data")}
        term = tr.stmts(SPs(it[3]).body(), env, ret_new)
        parts.append(f"/-- `ShardsRefMut::new`: `{doc(it)} …` -/\ndef ShardsRefMut_new (shard_count shard_len_64 : Nat) (data : View) : Option ShardsS :=\n  {term}\n")

        # ---- split_at_mut: two `ShardsRefMut::new(n, len, view)`
        it = pick(r"^impl < 'a > ShardsRefMut < 'a >$", "split_at_mut")
        tr = Tr("split_at_mut")

        def ret_split(e, env):
            if e[0] != "tuple" or len(e[1]) != 2:
                raise CannotTranslate("split_at_mut: result")

            def one(x, k):
                if not (x[0] == "call" and x[1] == ("path", ["ShardsRefMut", "new"], None) and len(x[2]) == 3):
                    raise CannotTranslate("split_at_mut: result is not `ShardsRefMut::new(…)`")
                r = tr.fresh("s")
                return tr.num(x[2][0], env, lambda a: tr.num(x[2][1], env, lambda b: tr.view(x[2][2], env, lambda v: f"(ShardsRefMut_new {a} {b} {v}).bind fun {r} =>\n  {k(r)}")))
            return one(e[1][0], lambda l: one(e[1][1], lambda r: f"some ({l}, {r})"))
        term = tr.stmts(SP(it[3]).body(), {"mid": ("num", "mid")}, ret_split)
        parts.append(f"/-- `ShardsRefMut::split_at_mut`: `{doc(it)} …` -/\ndef ShardsRefMut_split_at_mut (self : ShardsS) (mid : Nat) : Option (ShardsS × ShardsS) :=\n  {term}\n")

        # ---- zero: fill of a view
        it = pick(r"^impl < 'a > ShardsRefMut < 'a >$", "zero")
        tr = Tr("zero")

        def ret_zero(e, env):
            if not (e[0] == "method" and e[2] == "fill" and e[4] == [("arrayrep", ("int", 0), ("int", 64))]):
                raise CannotTranslate("zero: effect is not `….fill([0; 64])`")
            return tr.view(e[1], env, lambda v: f"some {v}")
        term = tr.stmts(SP(it[3]).body(), {"range": ("range",)}, ret_zero)
        parts.append(f"/-- `ShardsRefMut::zero`: the view that is filled with `[0; 64]`: `{doc(it)} …` -/\ndef ShardsRefMut_zero (self : ShardsS) (range : RangeB) : Option View :=\n  {term}\n")

        # ---- copy_within
        it = pick(r"^impl ShardsRefMut < '_ >$", "copy_within")
        tr = Tr("copy_within")

        def ret_copy(e, env):
            if not (e[0] == "method" and e[2] == "copy_within" and len(e[4]) == 2 and e[4][0][0] == "range" and e[1] == ("field", ("var", "self"), "data")):
                raise CannotTranslate("copy_within: effect is not `self.data.copy_within(a..b, d)`")
            lo, hi = e[4][0][1], e[4][0][2]
            return tr.num(lo, env, lambda a: tr.num(hi, env, lambda b: tr.num(e[4][1], env, lambda d: f"View.copyWithin self.data {a} {b} {d}")))
        ps = params_of(it[2])
        term = tr.stmts(SP(it[3]).body(), {p: ("num", p) for p, _ in ps}, ret_copy)
        parts.append(f"/-- `ShardsRefMut::copy_within`: (source view, destination offset) of the memmove: `{doc(it)} …` -/\ndef ShardsRefMut_copy_within (self : ShardsS) {' '.join(f'({p} : Nat)' for p, _ in ps)} : Option (View × Nat) :=\n  {term}\n")

        # ---- len / is_empty
        for (fn, want, lean) in (("len", "self . shard_count", "self.shard_count"), ("is_empty", "self . shard_count == 0", "decide (self.shard_count = 0)")):
            it = pick(r"^impl < 'a > ShardsRefMut < 'a >$", fn)
            txt = " ".join(t[1] for t in it[3])
            if txt != want:
                raise CannotTranslate(f"ShardsRefMut::{fn} is not `{want}`: `{txt}`")
            parts.append(f"/-- `ShardsRefMut::{fn}`: `{txt}` -/\ndef ShardsRefMut_{fn} (self : ShardsS) := {lean}\n")

        # ---- Shards::new, as_ref_mut, resize
        it = pick(r"^impl Shards$", "new")
        txt = " ".join(t[1] for t in it[3])
        if txt != "Self { shard_count : 0 , shard_len_64 : 0 , data : Vec :: new ( ) , }":
            raise CannotTranslate(f"Shards::new: `{txt}`")
        parts.append(f"/-- `Shards::new`: `{txt}` -/\ndef Shards_new : ShardsS := {{ shard_count := 0, shard_len_64 := 0, data := ⟨0, 0⟩ }}\n")
        it = pick(r"^impl Shards$", "as_ref_mut")
        txt = " ".join(t[1] for t in it[3])
        if txt != "ShardsRefMut :: new ( self . shard_count , self . shard_len_64 , self . data . as_mut ( ) )":
            raise CannotTranslate(f"Shards::as_ref_mut: `{txt}`")
        parts.append(f"/-- `Shards::as_ref_mut`: `{txt}` -/\ndef Shards_as_ref_mut (self : ShardsS) : Option ShardsS :=\n  ShardsRefMut_new self.shard_count self.shard_len_64 self.data\n")
        it = pick(r"^impl Shards$", "resize")
        tr = Tr("resize")

        def ret_resize(e, env):
            if not (e[0] == "method" and e[2] == "resize" and e[1] == ("field", ("var", "self"), "data") and len(e[4]) == 2 and e[4][1] == ("arrayrep", ("int", 0), ("int", 64))):
                raise CannotTranslate("Shards::resize: effect is not `self.data.resize(n, [0; 64])`")
            return tr.num(e[4][0], env, lambda n: f"some ({{ self with data := ⟨0, {n}⟩ }}, {n})")
        term = tr.stmts(SP(it[3]).body(), {"shard_count": ("num", "shard_count"), "shard_len_64": ("num", "shard_len_64")}, ret_resize)
        parts.append(f"/-- `Shards::resize`: new header and the length the `Vec` is resized to (zero-extended): `{doc(it)} …` -/\ndef Shards_resize (self : ShardsS) (shard_count shard_len_64 : Nat) : Option (ShardsS × Nat) :=\n  {term}\n")
    except CannotTranslate as e:
        print(f"CANNOT-TRANSLATE: {e}")
        return 3
    text = ("/- GENERATED by /verif/translate/rs2lean_shards.py from the current text of src/engine/shards.rs — do not edit. -/\n"
            "import RSVerif.Model.RustShards\n\nset_option linter.unusedVariables false\n\nnamespace RS.SrcS\nopen RS.RustS\n\n" +
            "\n".join(parts) + "\nend RS.SrcS\n")
    old = None
    try:
        old = open(out).read()
    except OSError:
        pass
    if old != text:
        open(out, "w").write(text)
    print(f"translated {len(parts)} functions of shards.rs -> {out}" + (" (unchanged)" if old == text else " (CHANGED)"))
    return 0


if __name__ == "__main__":
    sys.exit(main())
