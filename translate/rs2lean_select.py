#!/usr/bin/env python3
"""rs2lean_select.py - translator for the run-time engine selection, src/engine/engine_default.rs.

Regenerates /verif/lean/RSVerif/Gen/SrcSelect.lean from the CURRENT Rust text of `DefaultEngine::new` and
`DefaultEngine::eval_poly` (the `#[cfg(target_arch = …)] { if is_…_feature_detected!("f") { return …; } }` cascades
ending in the portable engine) and checks that `fft` / `ifft` / `mul` / `default` forward to the selected engine.
The result: two functions `arch → (feature → Bool) → engine name`.  Anything else -> exit 3, `CANNOT-TRANSLATE: …`.
"""
import os
import re
import sys

sys.path.insert(0, os.path.dirname(os.path.abspath(__file__)))
from rs2lean import tokenize, match_brace, CannotTranslate  # noqa: E402
from rs2lean_shards import find_items  # noqa: E402


def txt(toks):
    return " ".join(t[1] for t in toks)


def parse_cfg(s):
    """`any ( target_arch = "x86" , target_arch = "x86_64" )` | `target_arch = "aarch64"` -> list of archs"""
    m = re.fullmatch(r'cfg \( any \( (.*) \) \)', s)
    inner = m.group(1) if m else (re.fullmatch(r'cfg \( (.*) \)', s) or [None, None])[1]
    if inner is None:
        raise CannotTranslate(f"attribute `{s}`")
    archs = []
    for part in inner.split(" , "):
        mm = re.fullmatch(r'target_arch = "(\w+)"', part.strip())
        if not mm:
            raise CannotTranslate(f"cfg condition `{part}`")
        archs.append(mm.group(1))
    return archs


def cascade(toks, result_re):
    """-> list of (archs or None, feature-kind, feature, engine) + final engine"""
    out = []
    i = 0

    def stmts(lo, hi, archs):
        nonlocal out
        i = lo
        while i < hi:
            if toks[i] == ("op", "#"):
                j = i + 2
                d = 1
                while d:
                    if toks[j][1] == "[":
                        d += 1
                    if toks[j][1] == "]":
                        d -= 1
                    j += 1
                a = parse_cfg(txt(toks[i + 2:j - 1]))
                if archs is not None:
                    raise CannotTranslate("nested cfg blocks")
                if toks[j] != ("op", "{"):
                    raise CannotTranslate("cfg attribute not followed by a block")
                e = match_brace(toks, j)
                stmts(j + 1, e, a)
                i = e + 1
                continue
            if toks[i] == ("id", "if"):
                j = i + 1
                while toks[j] != ("op", "{"):
                    j += 1
                cond = txt(toks[i + 1:j])
                m = re.fullmatch(r'(?:std :: arch :: )?(is_x86_feature_detected|is_aarch64_feature_detected) ! \( ("\w+") \)', cond)
                if not m:
                    raise CannotTranslate(f"condition `{cond}`")
                e = match_brace(toks, j)
                body = txt(toks[j + 1:e])
                mm = re.fullmatch(r"return " + result_re + r" ;", body)
                if not mm:
                    raise CannotTranslate(f"selected branch `{body}`")
                kind = "x86" if "x86" in m.group(1) else "arm"
                if archs is None:
                    raise CannotTranslate("feature test outside a cfg(target_arch) block")
                if (kind == "x86") != all(a in ("x86", "x86_64") for a in archs) or (kind == "arm") != all(a == "aarch64" for a in archs):
                    raise CannotTranslate(f"{m.group(1)} under cfg({archs})")
                out.append((archs, kind, m.group(2).strip('"'), mm.group(1)))
                i = e + 1
                continue
            if archs is not None:
                raise CannotTranslate(f"statement `{txt(toks[i:i+6])} …` inside a cfg block")
            rest = txt(toks[i:hi])
            mm = re.fullmatch(result_re + r"(?: ;)?", rest)
            if not mm:
                raise CannotTranslate(f"final statement `{rest}`")
            out.append((None, None, None, mm.group(1)))
            i = hi
    stmts(0, len(toks), None)
    if not out or out[-1][0] is not None:
        raise CannotTranslate("no unconditional fallback")
    return out


def lean_fn(name, casc, doc):
    lines = [f"/-- `{doc}` -/", f"def {name} (arch : Arch) (x86 arm : String → Bool) : String :="]
    for (archs, kind, feat, eng) in casc[:-1]:
        cond = " ∨ ".join(f"arch = .{a}" for a in archs)
        lines.append(f'  if ({cond}) ∧ {kind} "{feat}" = true then "{eng}" else')
    lines.append(f'  "{casc[-1][3]}"')
    return "\n".join(lines) + "\n"


def main():
    repo = sys.argv[1] if len(sys.argv) > 1 else "/repo"
    out = sys.argv[2] if len(sys.argv) > 2 else "/verif/lean/RSVerif/Gen/SrcSelect.lean"
    try:
        src = open(f"{repo}/src/engine/engine_default.rs").read()
        items = find_items(tokenize(src))

        def pick(hdr, name):
            c = [x for x in items if x[1] == name and re.search(hdr, x[0].strip())]
            if len(c) != 1:
                raise CannotTranslate(f"engine_default.rs: expected exactly one `{name}` in `{hdr}`, found {len(c)}")
            return c[0]
        known = {"new", "default", "fft", "ifft", "mul", "eval_poly"}
        extra = sorted({x[1] for x in items} - known)
        if extra:
            raise CannotTranslate(f"engine_default.rs: functions outside the translated set: {', '.join(extra)}")
        m = re.search(r"pub struct DefaultEngine\s*\(([^)]*)\)\s*;", src)
        if not m or re.sub(r"\s+", "", m.group(1)) != "Box<dynEngine+Send+Sync>":
            raise CannotTranslate("struct DefaultEngine is not a single boxed engine")
        new = cascade(pick(r"^impl DefaultEngine$", "new")[3], r"Self \( Box :: new \( (\w+) :: new \( \) \) \)")
        ev = cascade(pick(r"^impl Engine for DefaultEngine$", "eval_poly")[3], r"(\w+) :: eval_poly \( erasures , truncated_size \)")
        parts = [lean_fn("DefaultEngine_new", new, "DefaultEngine::new: which engine is boxed"),
                 lean_fn("DefaultEngine_eval_poly", ev, "DefaultEngine::eval_poly: whose eval_poly runs")]
        for (hdr, fn, want) in ((r"^impl Engine for DefaultEngine$", "fft", "self . 0 . fft ( data , pos , size , truncated_size , skew_delta ) ;"),
                                (r"^impl Engine for DefaultEngine$", "ifft", "self . 0 . ifft ( data , pos , size , truncated_size , skew_delta ) ;"),
                                (r"^impl Engine for DefaultEngine$", "mul", "self . 0 . mul ( x , log_m ) ;"),
                                (r"^impl Default for DefaultEngine$", "default", "Self :: new ( )")):
            t = txt(pick(hdr, fn)[3])
            if t != want:
                raise CannotTranslate(f"DefaultEngine::{fn} is not `{want}`: `{t}`")
            parts.append(f"/-- `DefaultEngine::{fn}`: `{t}` -/\ndef DefaultEngine_{fn}_forwards : Bool := true\n")
        # the only feature macros allowed are the std ones, or the hook shadow that ANDs the std one with a mask
        for mm in re.finditer(r"macro_rules!\s*(\w+)", src):
            if mm.group(1) != "is_x86_feature_detected":
                raise CannotTranslate(f"macro `{mm.group(1)}`")
        for arm in re.finditer(r'\("(\w+)"\)\s*=>\s*\{([^}]*)\}', src):
            body = re.sub(r"\s+", "", arm.group(2))
            isa = {"avx2": "ISA_AVX2", "ssse3": "ISA_SSSE3"}.get(arm.group(1))
            if isa is None or body != f'(crate::verif_hooks::allowed(crate::verif_hooks::{isa})&&std::is_x86_feature_detected!("{arm.group(1)}"))':
                raise CannotTranslate(f"feature macro arm for {arm.group(1)}: `{body}`")
    except CannotTranslate as e:
        print(f"CANNOT-TRANSLATE: {e}")
        return 3
    text = ("/- GENERATED by /verif/translate/rs2lean_select.py from the current text of src/engine/engine_default.rs — do not edit. -/\n"
            "namespace RS.SrcSel\n\n/-- `target_arch` -/\ninductive Arch where\n  | x86\n  | x86_64\n  | aarch64\n  | other\nderiving DecidableEq, Repr\n\n" +
            "\n".join(parts) + "\nend RS.SrcSel\n")
    old = None
    try:
        old = open(out).read()
    except OSError:
        pass
    if old != text:
        open(out, "w").write(text)
    print(f"translated the engine selection -> {out}" + (" (unchanged)" if old == text else " (CHANGED)"))
    return 0


if __name__ == "__main__":
    sys.exit(main())
