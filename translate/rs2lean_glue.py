#!/usr/bin/env python3
"""rs2lean_glue.py - translator for the thin API layers ("glue"): which method of which inner object a wrapper method
calls, with which of its parameters in which order.

Regenerates /verif/lean/RSVerif/Gen/SrcGlue.lean from the CURRENT Rust text of

  src/reed_solomon.rs        ReedSolomonEncoder / ReedSolomonDecoder (all methods)
  src/rate.rs                provided methods of the traits Rate (encoder, decoder), RateEncoder / RateDecoder (supports, validate)
  src/rate/rate_high.rs      HighRateEncoder / HighRateDecoder: add_*_shard, into_parts, new, reset
  src/rate/rate_low.rs       LowRateEncoder / LowRateDecoder: the same
  src/rate/rate_default.rs   DefaultRateEncoder / DefaultRateDecoder: add_*_shard, encode, decode, into_parts

Every body becomes a term of the inductive type `G` (Model/RustGlue.lean): parameters by POSITION, let-bound locals
by order of introduction, calls / method calls / `?` / `Ok(..)` / `Self(..)` / `Self { .. }` / `match` on the inner
codec.  Anything else -> exit 3 with `CANNOT-TRANSLATE: …`.
"""
import os
import re
import sys

sys.path.insert(0, os.path.dirname(os.path.abspath(__file__)))
from rs2lean import tokenize, CannotTranslate  # noqa: E402
from rs2lean_kernel import KP  # noqa: E402
from rs2lean_shards import find_items  # noqa: E402


class GP(KP):
    """adds `?`, `match e { P => e, … }`, `unreachable!()`, `Self { a, b }`, `Self(e)`"""

    def body(self):
        out = []
        while not self.at("}") and self.peek()[0] != "eof":
            if self.at("#"):
                toks = []
                self.eat("#")
                self.eat("[")
                while not self.at("]"):
                    toks.append(self.eat())
                self.eat("]")
                if "".join(toks) != 'cfg(feature="verif-hooks")':
                    raise CannotTranslate(f"attribute #[{' '.join(toks)}] inside a wrapper")
                self.expr()
                self.eat(";")
                continue
            if self.at("unsafe") and self.at("{", 1):
                self.eat()
                inner = self.block()
                out.extend(inner)
                continue
            if self.at("let"):
                self.eat()
                pat = self.pattern()
                if self.at(":"):
                    self.eat()
                    self.skip_type()
                self.eat("=")
                e = self.expr()
                self.eat(";")
                out.append(("let", pat, e))
                continue
            e = self.expr()
            if self.at(";"):
                self.eat()
                out.append(("expr", e))
            elif self.at("}") or self.peek()[0] == "eof":
                out.append(("tail", e))
            else:
                raise CannotTranslate(f"unexpected token {self.peek()[1]!r} after expression")
        return out

    def postfix(self, e):
        while True:
            if self.at("?"):
                self.eat()
                e = ("try", e)
            elif self.at(".") and self.peek(1)[0] in ("id", "int"):
                self.eat()
                m = self.eat()
                tf = self.turbofish()
                if self.at("("):
                    e = ("method", e, m, tf, self.args())
                else:
                    e = ("field", e, m)
            elif self.at("("):
                e = ("call", e, self.args())
            else:
                return e

    def primary(self, nostruct):
        k, v = self.peek()
        if v == "match" and k == "id":
            self.eat()
            scrut = self.expr(True)
            self.eat("{")
            arms = []
            while not self.at("}"):
                path = [self.eat()]
                while self.at("::"):
                    self.eat()
                    path.append(self.eat())
                binder = None
                if self.at("("):
                    self.eat()
                    if self.at("mut"):
                        self.eat()
                    binder = self.eat()
                    self.eat(")")
                self.eat("=>")
                body = self.expr()
                if self.at(","):
                    self.eat()
                arms.append(("::".join(path), binder, body))
            self.eat("}")
            return ("match", scrut, arms)
        if v == "unreachable" and self.at("!", 1):
            self.eat()
            self.eat("!")
            self.eat("(")
            self.eat(")")
            return ("unreachable",)
        if v == "Self" and self.at("{", 1) and not nostruct:
            self.eat()
            self.eat("{")
            fields = []
            while not self.at("}"):
                f = self.eat()
                if self.at(":"):
                    raise CannotTranslate("`Self { f: e }` with an explicit value")
                fields.append(f)
                if self.at(","):
                    self.eat()
            self.eat("}")
            return ("selfstruct", fields)
        if k == "id":
            # paths with generic arguments in the middle: DefaultRate::<DefaultEngine>::supports
            path = [self.eat()]
            while self.at("::"):
                self.eat()
                if self.at("<"):
                    d = 0
                    while True:
                        t = self.eat()
                        if t == "<":
                            d += 1
                        if t == ">":
                            d -= 1
                            if d == 0:
                                break
                    continue
                path.append(self.eat())
            return ("var", path[0]) if len(path) == 1 else ("path", path, None)
        return super().primary(nostruct)


def lstr(s):
    return '"' + s + '"'


class Conv:
    def __init__(self, params):
        self.params = params
        self.locals = {}

    def g(self, e):
        k = e[0]
        if k == "var":
            n = e[1]
            if n in self.locals:
                return f"(.l {self.locals[n]})"
            if n in self.params:
                return f"(.p {self.params.index(n)})"
            if n == "self":
                return ".self_"
            if n == "None":
                return ".none_"
            return f"(.path {lstr(n)})"
        if k == "path":
            return f"(.path {lstr('::'.join(e[1]))})"
        if k == "field":
            return f"(.field {self.g(e[1])} {lstr(e[2])})"
        if k == "ref":
            return self.g(e[1])
        if k == "try":
            return f"(.try_ {self.g(e[1])})"
        if k == "call":
            f = e[1]
            args = "[" + ", ".join(self.g(a) for a in e[2]) + "]"
            if f == ("var", "Ok") and len(e[2]) == 1:
                return f"(.ok {self.g(e[2][0])})"
            if f == ("var", "Some") and len(e[2]) == 1:
                return f"(.some_ {self.g(e[2][0])})"
            if f == ("var", "Self") and len(e[2]) == 1:
                return f"(.selfTuple {self.g(e[2][0])})"
            return f"(.call {self.g(f)} {args})"
        if k == "method":
            args = "[" + ", ".join(self.g(a) for a in e[4]) + "]"
            return f"(.method {self.g(e[1])} {lstr(e[2])} {args})"
        if k == "tuple":
            return "(.tuple [" + ", ".join(self.g(a) for a in e[1]) + "])"
        if k == "selfstruct":
            items = []
            for f in e[1]:
                items.append(f"({lstr(f)}, {self.g(('var', f))})")
            return "(.selfStruct [" + ", ".join(items) + "])"
        if k == "unreachable":
            return ".unreachable"
        if k == "match":
            arms = []
            for (variant, binder, body) in e[2]:
                saved = dict(self.locals)
                if binder:
                    self.locals[binder] = len(self.locals)
                arms.append(f"({lstr(variant)}, {'true' if binder else 'false'}, {self.g(body)})")
                self.locals = saved
            return f"(.match_ {self.g(e[1])} [" + ", ".join(arms) + "])"
        raise CannotTranslate(f"expression `{k}` in a wrapper")

    def body(self, stmts):
        binds = []
        for s in stmts[:-1]:
            if s[0] == "let" and s[1][0] == "name":
                binds.append(f"(.bind {self.g(s[2])})")
                self.locals[s[1][1]] = len(self.locals)
            elif s[0] == "expr":
                binds.append(f"(.eff {self.g(s[1])})")
            else:
                raise CannotTranslate(f"statement `{s[0]}` in a wrapper")
        if stmts and stmts[-1][0] == "expr":
            stmts = stmts[:-1] + [("tail", stmts[-1][1])]   # unit function: the last call is what it does
        if not stmts or stmts[-1][0] != "tail":
            raise CannotTranslate("wrapper without a value")
        t = self.g(stmts[-1][1])
        return t if not binds else f"(.seq [{', '.join(binds)}] {t})"


def param_names(ptoks):
    out, cur, depth = [], [], 0
    for k, v in ptoks:
        if v in ("<", "[", "("):
            depth += 1
        if v in (">", "]", ")"):
            depth -= 1
        if v == "," and depth == 0:
            out.append(cur)
            cur = []
        else:
            cur.append(v)
    if cur:
        out.append(cur)
    names = []
    for p in out:
        if p[-1] == "self":
            continue
        if p[0] == "mut":
            p = p[1:]
        names.append(p[0])
    return names


WANTED = [
    ("src/reed_solomon.rs", r"^impl ReedSolomonEncoder$", "ReedSolomonEncoder", ["add_original_shard", "encode", "new", "reset", "supports"]),
    ("src/reed_solomon.rs", r"^impl ReedSolomonDecoder$", "ReedSolomonDecoder", ["add_original_shard", "add_recovery_shard", "decode", "new", "reset", "supports"]),
    ("src/rate.rs", r"^trait Rate <", "Rate", ["encoder", "decoder"]),
    ("src/rate.rs", r"^trait RateEncoder <", "RateEncoder", ["supports", "validate"]),
    ("src/rate.rs", r"^trait RateDecoder <", "RateDecoder", ["supports", "validate"]),
    ("src/rate/rate_high.rs", r"RateEncoder < E > for HighRateEncoder", "HighRateEncoder", ["add_original_shard", "into_parts", "new", "reset"]),
    ("src/rate/rate_high.rs", r"RateDecoder < E > for HighRateDecoder", "HighRateDecoder", ["add_original_shard", "add_recovery_shard", "into_parts", "new", "reset"]),
    ("src/rate/rate_low.rs", r"RateEncoder < E > for LowRateEncoder", "LowRateEncoder", ["add_original_shard", "into_parts", "new", "reset"]),
    ("src/rate/rate_low.rs", r"RateDecoder < E > for LowRateDecoder", "LowRateDecoder", ["add_original_shard", "add_recovery_shard", "into_parts", "new", "reset"]),
    ("src/rate/rate_default.rs", r"RateEncoder < E > for DefaultRateEncoder", "DefaultRateEncoder", ["add_original_shard", "encode", "into_parts"]),
    ("src/rate/rate_default.rs", r"RateDecoder < E > for DefaultRateDecoder", "DefaultRateDecoder", ["add_original_shard", "add_recovery_shard", "decode", "into_parts"]),
    # the engines: public primitive -> `#[target_feature]` entry point -> safe body / generic function
    ("src/engine/engine_ssse3.rs", r"^impl Engine for Ssse3$", "Ssse3", ["fft", "ifft", "mul", "eval_poly"]),
    ("src/engine/engine_ssse3.rs", r"^impl Ssse3$", "Ssse3", ["fft_private_ssse3", "ifft_private_ssse3", "eval_poly_ssse3"]),
    ("src/engine/engine_avx2.rs", r"^impl Engine for Avx2$", "Avx2", ["fft", "ifft", "mul", "eval_poly"]),
    ("src/engine/engine_avx2.rs", r"^impl Avx2$", "Avx2", ["fft_private_avx2", "ifft_private_avx2", "eval_poly_avx2"]),
    ("src/engine/engine_neon.rs", r"^impl Engine for Neon$", "Neon", ["fft", "ifft", "mul", "eval_poly"]),
    ("src/engine/engine_neon.rs", r"^impl Neon$", "Neon", ["fft_private_neon", "ifft_private_neon", "eval_poly_neon"]),
    ("src/engine/engine_nosimd.rs", r"^impl Engine for NoSimd$", "NoSimd", ["fft", "ifft"]),
    ("src/engine.rs", r"^trait Engine$", "Engine", ["eval_poly"]),
]


def trait_items(toks):
    """find_items of rs2lean_shards skips `trait` blocks; here the provided methods of a trait are wanted"""
    from rs2lean import match_brace
    items = []
    i = 0
    while i < len(toks):
        if toks[i] == ("id", "trait") and (i == 0 or toks[i - 1][1] != "::"):
            j = i
            while toks[j] != ("op", "{"):
                j += 1
            hdr = " ".join(t[1] for t in toks[i:j])
            e = match_brace(toks, j)
            sub = [("id", "impl"), ("id", "X"), ("op", "{")] + toks[j + 1:e] + [("op", "}")]
            # functions without a body (`fn f(..) -> T;`) must be skipped: cut them out
            k, cleaned = 3, sub[:3]
            while k < len(sub) - 1:
                if sub[k] == ("id", "fn"):
                    m, d = k, 0
                    while True:
                        if sub[m][1] in ("(", "[", "<"):
                            d += 1
                        if sub[m][1] in (")", "]", ">") and not (sub[m][1] == ">" and sub[m - 1][1] == "-"):
                            d -= 1
                        if d == 0 and sub[m][1] in ("{", ";"):
                            break
                        m += 1
                    if sub[m][1] == ";":
                        k = m + 1
                        continue
                    e2 = match_brace(sub, m)
                    cleaned.extend(sub[k:e2 + 1])
                    k = e2 + 1
                else:
                    k += 1
            cleaned.append(("op", "}"))
            for it in find_items(cleaned):
                items.append((hdr, it[1], it[2], it[3]))
            i = e + 1
        else:
            i += 1
    return items


def main():
    repo = sys.argv[1] if len(sys.argv) > 1 else "/repo"
    out = sys.argv[2] if len(sys.argv) > 2 else "/verif/lean/RSVerif/Gen/SrcGlue.lean"
    entries = []
    try:
        cache = {}
        for (file, hdr, owner, fns) in WANTED:
            if file not in cache:
                toks = tokenize(open(f"{repo}/{file}").read())
                cache[file] = find_items(toks) + trait_items(toks)
            for fn in fns:
                c = [x for x in cache[file] if x[1] == fn and re.search(hdr, x[0].strip())]
                if len(c) != 1:
                    raise CannotTranslate(f"{file}: expected exactly one `{owner}::{fn}`, found {len(c)}")
                ps = param_names(c[0][2])
                term = Conv(ps).body(GP(c[0][3]).body())
                entries.append((f"{owner}::{fn}", len(ps), term, " ".join(t[1] for t in c[0][3])[:140]))
    except CannotTranslate as e:
        print(f"CANNOT-TRANSLATE: {e}")
        return 3
    # associated types: which `Rate` a codec belongs to, which codecs a `Rate` builds (they decide what the provided
    # trait methods `supports` / `validate` / `encoder` / `decoder` resolve to)
    assoc = []
    try:
        for file in ("src/rate/rate_high.rs", "src/rate/rate_low.rs", "src/rate/rate_default.rs"):
            src = re.sub(r"//[^\n]*", "", open(f"{repo}/{file}").read())
            for m in re.finditer(r"impl\s*<\s*E\s*:\s*Engine\s*>\s*(Rate|RateEncoder|RateDecoder)\s*<\s*E\s*>\s*for\s+(\w+)\s*<\s*E\s*>\s*\{", src):
                trait, ty = m.group(1), m.group(2)
                # the impl block up to its matching brace
                i, d = m.end(), 1
                while d and i < len(src):
                    d += {"{": 1, "}": -1}.get(src[i], 0)
                    i += 1
                block = src[m.end():i]
                # only the top level of the impl block
                top, d2 = [], 0
                for ch in block:
                    if ch == "{":
                        d2 += 1
                    elif ch == "}":
                        d2 -= 1
                    elif d2 == 0:
                        top.append(ch)
                for am in re.finditer(r"type\s+(\w+)\s*=\s*(\w+)\s*<\s*E\s*>\s*;", "".join(top)):
                    assoc.append((ty, trait, am.group(1), am.group(2)))
        if len(assoc) != 12:
            raise CannotTranslate(f"expected 12 associated types in the rate impls, found {len(assoc)}: {assoc}")
    except CannotTranslate as e:
        print(f"CANNOT-TRANSLATE: {e}")
        return 3
    body = ",\n".join(f"  -- {doc}\n  ({lstr(n)}, {k}, {t})" for (n, k, t, doc) in entries)
    text = ("/- GENERATED by /verif/translate/rs2lean_glue.py from the current text of src/reed_solomon.rs, src/rate.rs,\n"
            "   src/rate/rate_high.rs, src/rate/rate_low.rs, src/rate/rate_default.rs — do not edit. -/\n"
            "import RSVerif.Model.RustGlue\n\nnamespace RS.SrcG\nopen RS.RustG\n\n"
            "/-- (wrapper, number of parameters besides self, body) -/\ndef glue : List (String × Nat × G) := [\n" + body + "\n]\n\n"
            "/-- `impl Trait<E> for Type<E> { type Name = Value<E>; }`: (Type, Trait, Name, Value) -/\n"
            "def assocTypes : List (String × String × String × String) := [" + ", ".join(f"({lstr(a)}, {lstr(b)}, {lstr(c)}, {lstr(d)})" for a, b, c, d in assoc) + "]\n\nend RS.SrcG\n")
    old = None
    try:
        old = open(out).read()
    except OSError:
        pass
    if old != text:
        open(out, "w").write(text)
    print(f"translated {len(entries)} wrapper methods -> {out}" + (" (unchanged)" if old == text else " (CHANGED)"))
    return 0


if __name__ == "__main__":
    sys.exit(main())
