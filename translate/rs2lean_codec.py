#!/usr/bin/env python3
"""rs2lean_codec.py - translator for the codec bodies: `HighRateEncoder::encode`, `LowRateEncoder::encode`,
`HighRateDecoder::decode`, `LowRateDecoder::decode` (src/rate/rate_high.rs, src/rate/rate_low.rs) and the
two helpers `fft_skew_end` / `ifft_skew_end` (src/engine/utils.rs).

Regenerates /verif/lean/RSVerif/Gen/SrcCodec.lean from the CURRENT Rust text.  A body becomes a Lean function
that runs the control flow of the Rust code (lets, `usize` arithmetic with overflow checks, `if`, `while`
with one mutable counter, `for i in a..b`, tests of `received[i]`) and RETURNS THE PROGRAM OF ENGINE / MEMORY
OPERATIONS it performs, in order, as an `Array Op` (`none` = a `usize` operation would overflow or a loop
runs out of fuel).  `Proofs/SrcCodecSpec.lean` interprets such programs with the model's primitives and
proves them equal to `encodeHigh` / `encodeLow` / `decodeHigh` / `decodeLow`.
Anything outside the subset -> exit 3 with `CANNOT-TRANSLATE: …`.
"""
import os
import re
import sys

sys.path.insert(0, os.path.dirname(os.path.abspath(__file__)))
from rs2lean import tokenize, find_items, CannotTranslate, USIZE, HALF  # noqa: E402
import rs2lean_work as W  # noqa: E402

FUEL = 70000


class P(W.P):
    """statement parser with while / for / let mut / destructuring prologues"""

    def block_body(self):
        stmts = []
        while not self.at("}") and self.peek()[0] != "eof":
            if self.at("let"):
                self.eat()
                if self.at("Some") or self.at("("):
                    # destructuring prologue: `let (mut work, a, b) = self.work.encode_begin()?;`
                    #                      or `let Some((mut work, a, b, received)) = self.work.decode_begin()? else { … };`
                    pat = []
                    while not self.at("="):
                        pat.append(self.eat())
                    self.eat("=")
                    e = self.expr_try()
                    if self.at("else"):
                        # `else { return Ok(DecoderResult::new(&mut self.work)); }` : the early exit of the
                        # "nothing to restore" case, not part of the translated body
                        self.eat()
                        self.eat("{")
                        depth = 1
                        while depth > 0:
                            x = self.eat()
                            if x == "{":
                                depth += 1
                            elif x == "}":
                                depth -= 1
                    self.eat(";")
                    names = [x for x in pat if re.match(r"^[a-z_][a-z0-9_]*$", x) and x != "mut"]
                    stmts.append(("prologue", names, e))
                    continue
                mut = False
                if self.at("mut"):
                    self.eat()
                    mut = True
                name = self.eat()
                if self.at(":"):
                    self.eat()
                    while not self.at("="):
                        self.eat()
                self.eat("=")
                e = self.expr()
                self.eat(";")
                stmts.append(("letmut" if mut else "let", name, e))
            elif self.at("while"):
                self.eat()
                c = self.expr(nostruct=True)
                b = self.block()
                stmts.append(("while", c, b))
            elif self.at("for"):
                self.eat()
                v = self.eat()
                self.eat("in")
                r = self.expr(nostruct=True)
                b = self.block()
                if r[0] != "range" or r[1] is None or r[2] is None:
                    raise CannotTranslate("`for` over something other than a..b")
                stmts.append(("for", v, r[1], r[2], b))
            elif self.at("return"):
                raise CannotTranslate("`return` outside the prologue")
            else:
                e = self.expr_try()
                if self.at("=") or (self.at("+") and self.at("=", 1)):
                    op = ""
                    if not self.at("="):
                        op = self.eat()
                    self.eat("=")
                    rhs = self.expr()
                    self.eat(";")
                    stmts.append(("assign", e, op, rhs))
                elif self.at(";"):
                    self.eat()
                    if e[0] == "if":
                        stmts.append(("if", e[1], e[2], e[3]))
                    else:
                        stmts.append(("exprstmt", e))
                elif e[0] == "if":
                    stmts.append(("if", e[1], e[2], e[3]))
                elif self.at("}") or self.peek()[0] == "eof":
                    stmts.append(("tail", e))
                else:
                    raise CannotTranslate(f"unexpected token {self.peek()[1]!r} after expression")
        return stmts

    def expr_try(self):
        e = self.expr()
        return e

    def postfix(self, e):
        while True:
            if self.at(".") and self.peek(1)[0] == "id":
                self.eat()
                m = self.eat()
                if self.at("("):
                    e = ("method", m, e, self.args())
                else:
                    e = ("field", e, m)
            elif self.at("["):
                self.eat()
                i = self.expr()
                self.eat("]")
                e = ("index", e, i)
            elif self.at("?"):
                self.eat()
                e = ("try", e)
            else:
                return e

    def primary(self, nostruct):
        k, v = self.peek()
        if v == "[":
            # array literal `[0; N]`
            self.eat()
            a = self.expr()
            self.eat(";")
            b = self.expr()
            self.eat("]")
            return ("arrayrep", a, b)
        return super().primary(nostruct)


class Tr:
    def __init__(self, consts):
        self.consts = consts
        self.fresh = 0

    def new(self, base):
        self.fresh += 1
        return f"{base}_{self.fresh}"

    # ---- values
    def N(self, e, env, k):
        t = e[0]
        if t == "int":
            return k(str(e[1]))
        if t == "var":
            n = e[1]
            if n in env:
                return k(env[n])
            if n in self.consts:
                return k(str(self.consts[n]))
            raise CannotTranslate(f"unknown name `{n}`")
        if t == "bin":
            op = e[1]
            if op in ("+", "-", "*", "%", "/"):
                return self.N(e[2], env, lambda a: self.N(e[3], env, lambda b: self.arith(op, a, b, k)))
            raise CannotTranslate(f"operator `{op}` in a value")
        if t == "method":
            m, recv, args = e[1], e[2], e[3]
            if m == "next_power_of_two" and not args:
                return self.N(recv, env, lambda a: f"if {a} ≤ {HALF} then {k(f'(npow2 {a})')} else none")
            if m == "len" and not args and recv == ("var", "work"):
                return k("work_count")
            raise CannotTranslate(f"method .{m}()")
        if t == "call":
            name, args = e[1], e[2]
            if name in ("std::cmp::min", "std::cmp::max") and len(args) == 2:
                f = name.split("::")[-1]
                return self.N(args[0], env, lambda a: self.N(args[1], env, lambda b: k(f"({f} {a} {b})")))
            raise CannotTranslate(f"call of `{name}` in a value")
        raise CannotTranslate(f"expression `{t}` in a value")

    def arith(self, op, a, b, k):
        if op == "+":
            return f"if {a} + {b} < {USIZE} then {k(f'({a} + {b})')} else none"
        if op == "-":
            return f"if {b} ≤ {a} then {k(f'({a} - {b})')} else none"
        if op == "*":
            return f"if {a} * {b} < {USIZE} then {k(f'({a} * {b})')} else none"
        return f"if {b} = 0 then none else {k(f'({a} {op} {b})')}"

    def B(self, e, env, T, F):
        t = e[0]
        if t == "not":
            return self.B(e[1], env, F, T)
        if t == "bin":
            op = e[1]
            if op == "&&":
                return self.B(e[2], env, self.B(e[3], env, T, F), F)
            if op == "||":
                return self.B(e[2], env, T, self.B(e[3], env, T, F))
            if op in ("==", "!=", "<", ">", "<=", ">="):
                # one spelling for "is not zero" on `usize`: `x != 0`, `0 != x`, `0 < x` are emitted as `x > 0`
                zero = ("int", 0)
                def is_zero(x):
                    return x[0] in ("int", "num", "lit") and str(x[1]).replace("_", "") in ("0", "0usize")
                if op == "!=" and is_zero(e[3]):
                    return self.B(("bin", ">", e[2], e[3]), env, T, F)
                if op in ("!=", "<") and is_zero(e[2]):
                    return self.B(("bin", ">", e[3], e[2]), env, T, F)
                lop = {"==": "=", "!=": "≠", "<=": "≤", ">=": "≥"}.get(op, op)
                return self.N(e[2], env, lambda a: self.N(e[3], env, lambda b: f"if {a} {lop} {b} then {T} else {F}"))
        if t == "index" and e[1] == ("var", "received"):
            return self.N(e[2], env, lambda i: f"if recv {i} = true then {T} else {F}")
        raise CannotTranslate(f"condition `{t}`")

    # ---- operations
    def op_of(self, e, env, k):
        """statement-level expression -> k(op term)"""
        t = e[0]
        if t == "try":
            raise CannotTranslate("`?` outside the prologue")
        if t == "method":
            m, recv, args = e[1], e[2], e[3]
            # work.zero(a..b) / work.zero(a..)
            if recv == ("var", "work") and m == "zero" and len(args) == 1 and args[0][0] == "range" and args[0][1] is not None:
                if args[0][2] is None:
                    return self.N(args[0][1], env, lambda a: k(f"Op.zeroFrom {a}"))
                return self.N(args[0][1], env, lambda a: self.N(args[0][2], env, lambda b: k(f"Op.zero {a} {b}")))
            if recv == ("var", "work") and m == "copy_within" and len(args) == 3:
                return self.nargs(args, env, lambda a: k(f"Op.copyWithin {' '.join(a)}"))
            # engine.fft(&mut work, …) / self.engine.ifft(&mut work, …)
            if m in ("fft", "ifft") and recv in (("var", "engine"), ("field", ("var", "self"), "engine")) and len(args) == 5 and args[0] == ("var", "work"):
                return self.nargs(args[1:], env, lambda a: k(f"Op.{m} {' '.join(a)}"))
            # self.engine.mul(&mut work[i], erasures[i]) / … GF_MODULUS - erasures[i]
            if m == "mul" and recv in (("var", "engine"), ("field", ("var", "self"), "engine")) and len(args) == 2 \
                    and args[0][0] == "index" and args[0][1] == ("var", "work"):
                idx = args[0][2]
                f = args[1]
                if f == ("index", ("var", "erasures"), idx):
                    return self.N(idx, env, lambda i: k(f"Op.mulE {i}"))
                if f[0] == "bin" and f[1] == "-" and f[2] == ("var", "GF_MODULUS") and f[3] == ("index", ("var", "erasures"), idx):
                    return self.N(idx, env, lambda i: k(f"Op.mulNegE {i}"))
                raise CannotTranslate("engine.mul with a factor other than erasures[i] / GF_MODULUS - erasures[i] of the same index")
            # work[i].fill([0; 64])
            if m == "fill" and recv[0] == "index" and recv[1] == ("var", "work") and len(args) == 1 and args[0] == ("arrayrep", ("int", 0), ("int", 64)):
                return self.N(recv[2], env, lambda i: k(f"Op.fill0 {i}"))
            # erasures[a..b].fill(1) / erasures[a..].fill(1)
            if m == "fill" and recv[0] == "index" and recv[1] == ("var", "erasures") and recv[2][0] == "range" and recv[2][1] is not None and args == [("int", 1)]:
                if recv[2][2] is None:
                    return self.N(recv[2][1], env, lambda a: k(f"Op.markFrom {a}"))
                return self.N(recv[2][1], env, lambda a: self.N(recv[2][2], env, lambda b: k(f"Op.markRange {a} {b}")))
            if m == "undo_last_chunk_encoding" and recv == ("field", ("var", "self"), "work") and not args:
                return k("Op.undoLast")
            raise CannotTranslate(f"statement call .{m}()")
        if t == "call":
            name, args = e[1], e[2]
            if name in ("engine::fft_skew_end", "engine::ifft_skew_end") and len(args) == 5 and args[0] == ("var", "engine") and args[1] == ("var", "work"):
                c = "fftSkewEnd" if "::fft" in name else "ifftSkewEnd"
                return self.nargs(args[2:], env, lambda a: k(f"Op.{c} {' '.join(a)}"))
            if name == "engine::xor_within" and len(args) == 4 and args[0] == ("var", "work"):
                return self.nargs(args[1:], env, lambda a: k(f"Op.xorWithin {' '.join(a)}"))
            if name == "engine::formal_derivative" and args == [("var", "work")]:
                return k("Op.formalDerivative")
            if name == "E::eval_poly" and len(args) == 2 and args[0] == ("var", "erasures"):
                return self.N(args[1], env, lambda n: k(f"Op.evalPoly {n}"))
            raise CannotTranslate(f"statement call `{name}`")
        raise CannotTranslate(f"expression statement `{t}`")

    def nargs(self, args, env, k):
        def go(i, acc):
            if i == len(args):
                return k(acc)
            return self.N(args[i], env, lambda a: go(i + 1, acc + [a]))
        return go(0, [])

    # ---- statements: `fin(env)` gives the final value of the enclosing construct
    def stmts(self, stmts, env, fin):
        if not stmts:
            return fin(env)
        s, rest = stmts[0], stmts[1:]
        kind = s[0]
        if kind == "prologue":
            e = s[2]
            ok = e[0] == "try" and e[1][0] == "method" and e[1][1] in ("encode_begin", "decode_begin") and e[1][2] == ("field", ("var", "self"), "work")
            if not ok:
                raise CannotTranslate("destructuring `let` that is not the encode_begin / decode_begin prologue")
            want = ["work", "original_count", "recovery_count"] + (["received"] if e[1][1] == "decode_begin" else [])
            if s[1] != want:
                raise CannotTranslate(f"prologue binds {s[1]}, expected {want}")
            return self.stmts(rest, env, fin)
        if kind == "let":
            name, e = s[1], s[2]
            if name == "engine" and e == ("field", ("var", "self"), "engine"):
                return self.stmts(rest, env, fin)

            def bind(v):
                n = self.new(name)
                env2 = dict(env)
                env2[name] = n
                return f"let {n} := {v}; {self.stmts(rest, env2, fin)}"
            return self.N(e, env, bind)
        if kind == "letmut":
            name, e = s[1], s[2]
            if name == "erasures" and e == ("arrayrep", ("int", 0), ("var", "GF_ORDER")):
                return self.stmts(rest, env, fin)      # the interpreter starts from the all-zero array

            def bind(v):
                n = self.new(name)
                env2 = dict(env)
                env2[name] = n
                env2["mut " + name] = True
                return f"let {n} := {v}; {self.stmts(rest, env2, fin)}"
            return self.N(e, env, bind)
        if kind == "assign":
            lhs, op, rhs = s[1], s[2], s[3]
            if lhs[0] == "index" and lhs[1] == ("var", "erasures") and op == "" and rhs == ("int", 1):
                return self.N(lhs[2], env, lambda i: self.push(f"Op.mark {i}", env, lambda env2: self.stmts(rest, env2, fin)))
            if lhs[0] == "var" and env.get("mut " + lhs[1]):
                full = rhs if op == "" else ("bin", op, lhs, rhs)

                def upd(v):
                    n = self.new(lhs[1])
                    env2 = dict(env)
                    env2[lhs[1]] = n
                    return f"let {n} := {v}; {self.stmts(rest, env2, fin)}"
                return self.N(full, env, upd)
            raise CannotTranslate("assignment to something other than a `let mut` counter or erasures[i] = 1")
        if kind == "exprstmt":
            return self.op_of(s[1], env, lambda op: self.push(op, env, lambda env2: self.stmts(rest, env2, fin)))
        if kind == "if":
            c, tb, eb = s[1], s[2], s[3]
            cont = lambda env_in: self.stmts(rest, self.merge(env, env_in), fin)   # noqa: E731
            th = self.stmts(tb, dict(env), cont)
            el = self.stmts(eb, dict(env), cont) if eb is not None else self.stmts(rest, env, fin)
            return self.B(c, env, th, el)
        if kind == "while":
            c, body = s[1], s[2]
            muts = sorted({st[1][1] for st in self.assigned(body) if st[1][0] == "var"})
            muts = [m for m in muts if env.get("mut " + m)]
            if len(muts) != 1:
                raise CannotTranslate(f"`while` must update exactly one `let mut` counter, found {muts}")
            x = muts[0]
            xv = self.new(x)
            ov = self.new("ops")
            envc = dict(env)
            envc[x] = xv
            cond = self.B(c, envc, "some true", "some false")
            envb = dict(env)
            envb[x] = xv
            envb["ops"] = ov
            bodyt = self.stmts(body, envb, lambda e2: f"some ({e2[x]}, {e2['ops']})")
            x2, o2 = self.new(x), self.new("ops")
            env2 = dict(env)
            env2[x] = x2
            env2["ops"] = o2
            return (f"(match whileNat {FUEL} (fun {xv} => {cond}) (fun {xv} {ov} => {bodyt}) {env[x]} {env['ops']} with "
                    f"| none => none | some ({x2}, {o2}) => {self.stmts(rest, env2, fin)})")
        if kind == "for":
            v, lo, hi, body = s[1], s[2], s[3], s[4]
            if self.assigned_vars(body):
                raise CannotTranslate("`for` body assigns a local")
            iv, ov = self.new(v), self.new("ops")
            envb = dict(env)
            envb[v] = iv
            envb["ops"] = ov
            bodyt = self.stmts(body, envb, lambda e2: f"some {e2['ops']}")
            o2 = self.new("ops")
            env2 = dict(env)
            env2["ops"] = o2
            return self.N(lo, env, lambda a: self.N(hi, env, lambda b:
                          f"(match forRange {a} {b} (fun {iv} {ov} => {bodyt}) {env['ops']} with | none => none | some {o2} => {self.stmts(rest, env2, fin)})"))
        if kind == "tail":
            e = s[1]
            if e[0] == "call" and e[1] == "Ok" and len(e[2]) == 1 and e[2][0][0] == "call" and e[2][0][1] in ("EncoderResult::new", "DecoderResult::new"):
                return fin(env)
            raise CannotTranslate("a codec body must end in Ok(EncoderResult::new(..)) / Ok(DecoderResult::new(..))")
        raise CannotTranslate(f"statement `{kind}`")

    def push(self, op, env, k):
        n = self.new("ops")
        env2 = dict(env)
        env2["ops"] = n
        return f"let {n} := {env['ops']}.push ({op}); {k(env2)}"

    def merge(self, outer, inner):
        env = dict(outer)
        env["ops"] = inner["ops"]
        for kx in outer:
            if kx.startswith("mut "):
                env[kx[4:]] = inner.get(kx[4:], outer[kx[4:]])
        return env

    def assigned(self, stmts):
        out = []
        for s in stmts:
            if s[0] == "assign":
                out.append(s)
            elif s[0] == "if":
                out += self.assigned(s[2]) + (self.assigned(s[3]) if s[3] else [])
            elif s[0] in ("while",):
                out += self.assigned(s[2])
            elif s[0] == "for":
                out += self.assigned(s[4])
        return out

    def assigned_vars(self, stmts):
        return [s for s in self.assigned(stmts) if s[1][0] == "var"]


SPECS = [
    ("src/rate/rate_high.rs", r"impl.*RateEncoder\s*<\s*E\s*>\s*for\s+HighRateEncoder\b", "encode", "HighRateEncoder_encode", False),
    ("src/rate/rate_low.rs", r"impl.*RateEncoder\s*<\s*E\s*>\s*for\s+LowRateEncoder\b", "encode", "LowRateEncoder_encode", False),
    ("src/rate/rate_high.rs", r"impl.*RateDecoder\s*<\s*E\s*>\s*for\s+HighRateDecoder\b", "decode", "HighRateDecoder_decode", True),
    ("src/rate/rate_low.rs", r"impl.*RateDecoder\s*<\s*E\s*>\s*for\s+LowRateDecoder\b", "decode", "LowRateDecoder_decode", True),
]


def skew_end_delta(repo, name):
    """`pub fn fft_skew_end(engine, data, pos, size, truncated_size) { engine.fft(data, pos, size, truncated_size, pos + size) }`
    -> Lean term of the 5th argument"""
    text = open(f"{repo}/src/engine/utils.rs").read()
    toks = tokenize(text)
    items = [it for it in find_items(toks) if it[1] == name and it[0] == ""]
    if len(items) != 1:
        raise CannotTranslate(f"src/engine/utils.rs: expected exactly one top-level `fn {name}`")
    body = P(items[0][3]).block_body()
    m = "fft" if name.startswith("fft") else "ifft"
    if len(body) != 1 or body[0][0] not in ("exprstmt", "tail"):
        raise CannotTranslate(f"{name}: body is not a single call")
    e = body[0][1]
    ok = e[0] == "method" and e[1] == m and e[2] == ("var", "engine") and len(e[3]) == 5 and \
        e[3][:4] == [("var", "data"), ("var", "pos"), ("var", "size"), ("var", "truncated_size")]
    if not ok:
        raise CannotTranslate(f"{name}: body is not engine.{m}(data, pos, size, truncated_size, …)")
    tr = Tr({})
    return tr.N(e[3][4], {"pos": "pos", "size": "size"}, lambda v: f"some {v}")


def main():
    repo = sys.argv[1] if len(sys.argv) > 1 else "/repo"
    out = sys.argv[2] if len(sys.argv) > 2 else "/verif/lean/RSVerif/Gen/SrcCodec.lean"
    try:
        eng = open(f"{repo}/src/engine.rs").read()
        consts = {}
        for c in ("GF_ORDER", "GF_MODULUS"):
            m = re.search(rf"pub\s+const\s+{c}\s*:\s*[A-Za-z0-9_]+\s*=\s*([0-9_]+)\s*;", eng)
            if not m:
                raise CannotTranslate(f"constant {c} not found in src/engine.rs as a literal")
            consts[c] = int(m.group(1).replace("_", ""))
        parts = []
        for nm in ("fft_skew_end", "ifft_skew_end"):
            parts.append(f"/-- skew offset that `{nm}` passes on (5th argument of its single call) -/\n"
                         f"def {nm}_delta (pos size : Nat) : Option Nat :=\n  {skew_end_delta(repo, nm)}\n")
        cache = {}
        for (file, ctxre, fn, lean, dec) in SPECS:
            if file not in cache:
                cache[file] = find_items(tokenize(open(f"{repo}/{file}").read()))
            cands = [it for it in cache[file] if it[1] == fn and re.search(ctxre, it[0])]
            if len(cands) != 1:
                raise CannotTranslate(f"{file}: expected exactly one `fn {fn}` in a block matching /{ctxre}/, found {len(cands)}")
            _, _, params, body = cands[0]
            stm = P(body).block_body()
            tr = Tr(consts)
            env = {"original_count": "original_count", "recovery_count": "recovery_count", "ops": "ops0"}
            term = tr.stmts(stm, env, lambda e2: f"some {e2['ops']}")
            src = " ".join(t[1] for t in body)
            sig = "(original_count recovery_count work_count : Nat) (recv : Nat → Bool)" if dec else "(original_count recovery_count : Nat)"
            parts.append(f"/-- `{file}`, `fn {fn}`: `{src[:260]} …` -/\n"
                         f"def {lean} {sig} : Option (Array Op) :=\n  let ops0 : Array Op := #[]; {term}\n")
    except CannotTranslate as e:
        print(f"CANNOT-TRANSLATE: {e}")
        return 3
    text = ("/- GENERATED by /verif/translate/rs2lean_codec.py from the current text of src/rate/rate_high.rs,\n"
            "   src/rate/rate_low.rs and src/engine/utils.rs — do not edit.\n"
            "   Each function runs the control flow of the Rust body and returns the engine / memory operations it\n"
            "   performs, in order (`none` = usize overflow or loop fuel exhausted). -/\n"
            "import RSVerif.Model.RustCodec\n\nset_option linter.unusedVariables false\n\nnamespace RS.SrcC\nopen RS.RustC\n\n" +
            "\n".join(parts) + "\nend RS.SrcC\n")
    old = None
    try:
        old = open(out).read()
    except OSError:
        pass
    if old != text:
        open(out, "w").write(text)
    print(f"translated {len(SPECS)} codec bodies + 2 helpers -> {out}" + (" (unchanged)" if old == text else " (CHANGED)"))
    return 0


if __name__ == "__main__":
    sys.exit(main())
