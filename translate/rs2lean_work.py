#!/usr/bin/env python3
"""rs2lean_work.py - translator for the bookkeeping methods of `EncoderWork` and `DecoderWork`
(src/rate/encoder_work.rs, src/rate/decoder_work.rs) and the `Error` enum (src/lib.rs).

Regenerates /verif/lean/RSVerif/Gen/SrcWork.lean from the CURRENT Rust text.  A method becomes a pure
function  `(ops) (self : <Struct>S σ) (args…) : Option (result × <Struct>S σ)`:
  * `usize` fields -> `Nat` fields of a generated structure; `FixedBitSet` -> `BitSet` (= `Array Bool`) with
    the semantics of fixedbitset (`[i]` false out of range, `set` panics out of range, `clear` keeps the
    length, `grow` only extends); `Shards` -> an abstract memory `σ` with the operations `ShardsOps σ`
    (insert / resize / undo_last_chunk_encoding / slice; each may panic = `none`);
  * statements run in state-passing style, `none` = panic (assert!, usize overflow, out-of-range set,
    memory op) — the same checked-usize reading as rs2lean.py;
  * opaque borrows in results (`self.shards.as_ref_mut()`, `&self.received`) become `()`.
Anything outside the subset -> exit 3 with `CANNOT-TRANSLATE: …`.
"""
import re
import sys
import os

sys.path.insert(0, os.path.dirname(os.path.abspath(__file__)))
from rs2lean import tokenize, find_items, match_brace, CannotTranslate, USIZE, HALF  # noqa: E402


# ---------------------------------------------------------------- parser
class P:
    def __init__(self, toks):
        self.t = toks
        self.i = 0

    def peek(self, o=0):
        return self.t[self.i + o] if self.i + o < len(self.t) else ("eof", "")

    def at(self, v, o=0):
        k, x = self.peek(o)
        return k != "eof" and x == v

    def eat(self, v=None):
        k, x = self.peek()
        if k == "eof":
            raise CannotTranslate(f"unexpected end of input (expected {v!r})")
        if v is not None and x != v:
            raise CannotTranslate(f"expected {v!r}, found {x!r}")
        self.i += 1
        return x

    def block(self):
        self.eat("{")
        b = self.block_body()
        self.eat("}")
        return b

    def block_body(self):
        stmts = []
        while not self.at("}") and self.peek()[0] != "eof":
            if self.at("let"):
                self.eat()
                if self.at("mut"):
                    raise CannotTranslate("`let mut`")
                name = self.eat()
                if self.at(":"):
                    self.eat()
                    while not self.at("="):
                        self.eat()
                self.eat("=")
                e = self.expr()
                self.eat(";")
                stmts.append(("let", name, e))
            elif self.at("return"):
                self.eat()
                e = self.expr()
                if self.at(";"):
                    self.eat()
                stmts.append(("return", e))
            elif (self.at("assert") or self.at("debug_assert")) and self.at("!", 1):
                self.eat()
                self.eat("!")
                self.eat("(")
                e = self.expr()
                if self.at(","):
                    raise CannotTranslate("assert! with a message")
                self.eat(")")
                self.eat(";")
                stmts.append(("assert", e))
            else:
                e = self.expr()
                if self.at("=") or (self.at("+") and self.at("=", 1)) or (self.at("-") and self.at("=", 1)):
                    op = ""
                    if not self.at("="):
                        op = self.eat()
                    self.eat("=")
                    rhs = self.expr()
                    self.eat(";")
                    stmts.append(("assign", e, op, rhs))
                elif self.at(";"):
                    self.eat()
                    if e[0] == "if":
                        stmts.append(("if", e[1], e[2], e[3]))
                    else:
                        stmts.append(("exprstmt", e))
                elif self.at("}") or self.peek()[0] == "eof":
                    stmts.append(("tail", e))
                elif e[0] == "if":
                    stmts.append(("if", e[1], e[2], e[3]))
                else:
                    raise CannotTranslate(f"unexpected token {self.peek()[1]!r} after expression")
        return stmts

    PREC = [("..",), ("||",), ("&&",), ("==", "!=", "<", ">", "<=", ">="), ("|",), ("&",), ("+", "-"), ("*", "/", "%")]

    def expr(self, level=0, nostruct=False):
        if level == len(self.PREC):
            return self.unary(nostruct)
        if level == 0 and self.at(".."):
            self.eat()
            return ("range", None, self.expr(1, nostruct))
        lhs = self.expr(level + 1, nostruct)
        while self.peek()[0] == "op" and self.peek()[1] in self.PREC[level]:
            # `a += b` / `a -= b` are statements, not binary operators
            if self.peek()[1] in ("+", "-") and self.at("=", 1):
                break
            op = self.eat()
            if op == "..":
                if self.at(")") or self.at("]") or self.at(","):
                    return ("range", lhs, None)
                return ("range", lhs, self.expr(level + 1, nostruct))
            rhs = self.expr(level + 1, nostruct)
            lhs = ("bin", op, lhs, rhs)
            if level == 3:
                break
        return lhs

    def unary(self, nostruct):
        if self.at("!"):
            self.eat()
            return ("not", self.unary(nostruct))
        if self.at("&"):
            self.eat()
            if self.at("mut"):
                self.eat()
            return self.unary(nostruct)
        if self.at("*"):
            self.eat()
            return self.unary(nostruct)
        return self.postfix(self.primary(nostruct))

    def postfix(self, e):
        while True:
            if self.at(".") and self.peek(1)[0] == "id":
                self.eat()
                m = self.eat()
                if self.at("("):
                    e = ("method", m, e, self.args())
                else:
                    e = ("field", e, m)
            elif self.at("["):
                self.eat()
                i = self.expr()
                self.eat("]")
                e = ("index", e, i)
            elif self.at("?"):
                raise CannotTranslate("`?` operator")
            else:
                return e

    def args(self):
        self.eat("(")
        a = []
        while not self.at(")"):
            a.append(self.expr())
            if self.at(","):
                self.eat()
        self.eat(")")
        return a

    def primary(self, nostruct):
        k, v = self.peek()
        if k == "int":
            self.eat()
            return ("int", int(re.sub(r"[a-z].*$", "", v.replace("_", ""))))
        if v == "(":
            self.eat()
            if self.at(")"):
                self.eat()
                return ("unit",)
            items = [self.expr()]
            while self.at(","):
                self.eat()
                if self.at(")"):
                    break
                items.append(self.expr())
            self.eat(")")
            return items[0] if len(items) == 1 else ("tuple", items)
        if v == "{":
            return ("block", self.block())
        if v == "if":
            self.eat()
            c = self.expr(nostruct=True)
            t = self.block()
            el = None
            if self.at("else"):
                self.eat()
                el = [("tail", self.primary(False))] if self.at("if") else self.block()
            return ("if", c, t, el)
        if k == "id":
            path = [self.eat()]
            while self.at("::"):
                self.eat()
                path.append(self.eat())
            name = "::".join(path)
            if name in ("true", "false"):
                return ("bool", name)
            if self.at("("):
                return ("call", name, self.args())
            if self.at("{") and not nostruct and path[0] in ("Error", "Self"):
                self.eat()
                fields = {}
                while not self.at("}"):
                    f = self.eat()
                    if self.at(":"):
                        self.eat()
                        fields[f] = self.expr()
                    else:
                        fields[f] = ("var", f)
                    if self.at(","):
                        self.eat()
                self.eat("}")
                return ("struct", name, fields)
            return ("var", name)
        raise CannotTranslate(f"unexpected token {v!r}")


# ---------------------------------------------------------------- translation
class Tr:
    """state-passing CPS translation; env maps Rust locals to Lean terms; `self` is env['self']"""

    def __init__(self, struct_fields, errs):
        self.fields = struct_fields      # name -> 'nat' | 'bitset' | 'shards'
        self.errs = errs                 # variant -> [field names]
        self.fresh = 0
        self.bytes_params = set()

    def new(self, base):
        self.fresh += 1
        return f"{base}_{self.fresh}"

    def is_bool(self, e, env):
        t = e[0]
        if t in ("bool", "not"):
            return True
        if t == "bin":
            return e[1] in ("||", "&&", "==", "!=", "<", ">", "<=", ">=")
        if t == "index":
            return self.kind_of(e[1], env) == "bitset"
        return False

    def kind_of(self, e, env):
        if e[0] == "field" and e[1] == ("var", "self"):
            return self.fields.get(e[2])
        return None

    # value of a pure-or-checked expression -> continuation k(term)
    def N(self, e, env, k):
        t = e[0]
        if t == "int":
            return k(str(e[1]))
        if t == "unit":
            return k("()")
        if t == "var":
            n = e[1]
            if n in env:
                return k(env[n])
            if n == "None":
                return k("none")
            raise CannotTranslate(f"unknown name `{n}`")
        if t == "field":
            if e[1] == ("var", "self"):
                kind = self.fields.get(e[2])
                if kind is None:
                    raise CannotTranslate(f"unknown field self.{e[2]}")
                return k(f"{env['self']}.{e[2]}")
            raise CannotTranslate("field access on something other than self")
        if t == "bin":
            if self.is_bool(e, env):
                return self.B(e, env, k("true"), k("false"))
            return self.N(e[2], env, lambda a: self.N(e[3], env, lambda b: self.arith(e[1], a, b, k)))
        if t in ("bool", "not"):
            return self.B(e, env, k("true"), k("false"))
        if t == "index":
            if self.kind_of(e[1], env) == "bitset":
                return self.B(e, env, k("true"), k("false"))
            raise CannotTranslate("index expression")
        if t == "method":
            m, recv, args = e[1], e[2], e[3]
            if m == "as_ref" and not args:
                return self.N(recv, env, k)
            if m == "len" and not args:
                if recv[0] == "var" and recv[1] in self.bytes_params:
                    return self.N(recv, env, lambda a: k(f"{a}.size"))
                if self.kind_of(recv, env) == "bitset":
                    return self.N(recv, env, lambda a: k(f"(BitSet.len {a})"))
                raise CannotTranslate(".len() of something unknown")
            if m == "div_ceil" and len(args) == 1 and args[0][0] == "int" and args[0][1] > 0:
                d = args[0][1]
                return self.N(recv, env, lambda a: k(f"(({a} + {d - 1}) / {d})"))
            if m == "as_ref_mut" and self.kind_of(recv, env) == "shards":
                return k("()")
            if m in ("min", "max") and len(args) == 1:
                return self.N(recv, env, lambda a: self.N(args[0], env, lambda b: k(f"({m} {a} {b})")))
            raise CannotTranslate(f"method .{m}() in a value position")
        if t == "call":
            name, args = e[1], e[2]
            if name in ("std::cmp::min", "std::cmp::max", "cmp::min", "cmp::max") and len(args) == 2:
                f = name.split("::")[-1]
                return self.N(args[0], env, lambda a: self.N(args[1], env, lambda b: k(f"({f} {a} {b})")))
            if name in ("Ok", "Err", "Some") and len(args) == 1:
                ctor = {"Ok": "Res.Ok", "Err": "Res.Err", "Some": "some"}[name]
                return self.N(args[0], env, lambda a: k(f"({ctor} {a})"))
            raise CannotTranslate(f"call of `{name}`")
        if t == "struct":
            variant = e[1].split("::")[-1]
            if e[1].split("::")[0] != "Error" or variant not in self.errs or sorted(e[2]) != sorted(self.errs[variant]):
                raise CannotTranslate(f"struct literal `{e[1]}` with fields {sorted(e[2])}")
            order = self.errs[variant]

            def go(i, acc):
                if i == len(order):
                    return k(f"(WErr.{variant} {' '.join(acc)})" if acc else f"WErr.{variant}")
                return self.N(e[2][order[i]], env, lambda a: go(i + 1, acc + [a]))
            return go(0, [])
        if t == "tuple":
            def go(i, acc):
                if i == len(e[1]):
                    return k("(" + ", ".join(acc) + ")")
                it = e[1][i]
                # opaque borrows
                if self.kind_of(it, env) in ("bitset", "shards"):
                    return go(i + 1, acc + ["()"])
                return self.N(it, env, lambda a: go(i + 1, acc + [a]))
            return go(0, [])
        raise CannotTranslate(f"expression `{t}`")

    def arith(self, op, a, b, k):
        if op == "+":
            return f"if {a} + {b} < {USIZE} then {k(f'({a} + {b})')} else none"
        if op == "-":
            return f"if {b} ≤ {a} then {k(f'({a} - {b})')} else none"
        if op == "*":
            return f"if {a} * {b} < {USIZE} then {k(f'({a} * {b})')} else none"
        if op in ("%", "/"):
            return f"if {b} = 0 then none else {k(f'({a} {op} {b})')}"
        raise CannotTranslate(f"operator `{op}`")

    def B(self, e, env, T, F):
        t = e[0]
        if t == "bool":
            return T if e[1] == "true" else F
        if t == "not":
            return self.B(e[1], env, F, T)
        if t == "bin":
            op = e[1]
            if op == "&&":
                return self.B(e[2], env, self.B(e[3], env, T, F), F)
            if op == "||":
                return self.B(e[2], env, T, self.B(e[3], env, T, F))
            if op in ("==", "!=", "<", ">", "<=", ">="):
                lop = {"==": "=", "!=": "≠", "<=": "≤", ">=": "≥"}.get(op, op)
                return self.N(e[2], env, lambda a: self.N(e[3], env, lambda b: f"if {a} {lop} {b} then {T} else {F}"))
        if t == "index" and self.kind_of(e[1], env) == "bitset":
            return self.N(e[1], env, lambda bs: self.N(e[2], env, lambda i: f"if BitSet.get {bs} {i} = true then {T} else {F}"))
        raise CannotTranslate(f"boolean expression `{t}`")

    # ---- statements (state passing).  `k(env)` continues after the statement list with the final env
    def stmts(self, stmts, env, ret, k):
        if not stmts:
            return k(env, None)
        s, rest = stmts[0], stmts[1:]
        kind = s[0]
        if kind == "let":
            if s[2][0] == "method" and s[2][1] == "as_ref" and s[2][2] == ("var", s[1]):
                return self.stmts(rest, env, ret, k)     # `let x = x.as_ref();`

            def bind(v):
                n = self.new(s[1])
                env2 = dict(env)
                env2[s[1]] = n
                return f"let {n} := {v}; {self.stmts(rest, env2, ret, k)}"
            return self.N(s[2], env, bind)
        if kind == "return":
            return self.N(s[1], env, lambda v: ret(v, env))
        if kind == "assert":
            return self.B(s[1], env, self.stmts(rest, env, ret, k), "none")
        if kind == "assign":
            lhs, op, rhs = s[1], s[2], s[3]
            if not (lhs[0] == "field" and lhs[1] == ("var", "self") and self.fields.get(lhs[2]) == "nat"):
                raise CannotTranslate("assignment to something other than a usize field of self")
            f = lhs[2]
            full = rhs if op == "" else ("bin", op, lhs, rhs)

            def upd(v):
                n = self.new("self")
                env2 = dict(env)
                env2["self"] = n
                return f"let {n} := {{ {env['self']} with {f} := {v} }}; {self.stmts(rest, env2, ret, k)}"
            return self.N(full, env, upd)
        if kind == "exprstmt":
            return self.effect(s[1], env, lambda env2: self.stmts(rest, env2, ret, k))
        if kind == "if":
            c, tb, eb = s[1], s[2], s[3]
            if rest == [] and eb is not None:
                # if/else as the tail of the block
                return self.B(c, env, self.stmts(tb, dict(env), ret, k), self.stmts(eb, dict(env), ret, k))
            cont = lambda env2, v: self.stmts(rest, self.merge(env, env2), ret, k)   # noqa: E731
            th = self.stmts(tb, dict(env), ret, cont)
            el = self.stmts(eb, dict(env), ret, cont) if eb is not None else self.stmts(rest, env, ret, k)
            return self.B(c, env, th, el)
        if kind == "tail":
            if rest:
                raise CannotTranslate("tail expression followed by statements")
            e = s[1]
            if e[0] == "if" and e[3] is not None:
                return self.B(e[1], env, self.stmts(e[2], dict(env), ret, k), self.stmts(e[3], dict(env), ret, k))
            if e[0] == "block":
                return self.stmts(e[1], dict(env), ret, k)
            return self.value(e, env, lambda v, env2: k(env2, v))
        raise CannotTranslate(f"statement `{kind}`")

    def merge(self, outer, inner):
        """after a nested block: keep outer locals, take the inner `self`"""
        env = dict(outer)
        env["self"] = inner["self"]
        return env

    # value of a tail / returned expression (may contain the `Some(&self.shards[..]…)` pattern)
    def value(self, e, env, k):
        if e[0] == "call" and e[1] == "Some" and len(e[2]) == 1:
            sl = self.slice_pattern(e[2][0], env)
            if sl is not None:
                idx, n = sl
                return self.N(idx, env, lambda i: self.N(n, env, lambda m:
                              f"(match ops.slice {env['self']}.shards {i} {m} with | none => none | some v => {k('(some v)', env)})"))
        return self.N(e, env, lambda v: k(v, env))

    def slice_pattern(self, e, env):
        # &self.shards[IDX].as_flattened()[..N]
        if e[0] == "index" and e[2][0] == "range" and e[2][1] is None and e[2][2] is not None:
            inner = e[1]
            if inner[0] == "method" and inner[1] == "as_flattened" and not inner[3]:
                base = inner[2]
                if base[0] == "index" and self.kind_of(base[1], env) == "shards":
                    return base[2], e[2][2]
        return None

    # statement-level method calls with an effect on self
    def effect(self, e, env, k):
        if e[0] != "method":
            raise CannotTranslate(f"expression statement `{e[0]}`")
        m, recv, args = e[1], e[2], e[3]
        kind = self.kind_of(recv, env)
        if kind is None:
            raise CannotTranslate(f"statement call .{m}() on something other than a field of self")
        f = recv[2]
        cur = env["self"]

        def with_field(v):
            n = self.new("self")
            env2 = dict(env)
            env2["self"] = n
            return f"let {n} := {{ {cur} with {f} := {v} }}; {k(env2)}"

        if kind == "bitset":
            if m == "set" and len(args) == 2 and args[1] == ("bool", "true"):
                return self.N(args[0], env, lambda i: f"(match BitSet.set {cur}.{f} {i} with | none => none | some bs => {with_field('bs')})")
            if m == "insert" and len(args) == 1:
                return self.N(args[0], env, lambda i: f"(match BitSet.set {cur}.{f} {i} with | none => none | some bs => {with_field('bs')})")
            if m == "clear" and not args:
                return with_field(f"(BitSet.clear {cur}.{f})")
            if m == "grow" and len(args) == 1:
                return self.N(args[0], env, lambda n: with_field(f"(BitSet.grow {cur}.{f} {n})"))
            raise CannotTranslate(f"FixedBitSet method .{m}()")
        if kind == "shards":
            if m == "insert" and len(args) == 2:
                return self.N(args[0], env, lambda i: self.N(args[1], env, lambda sh:
                              f"(match ops.insert {cur}.{f} {i} {sh} with | none => none | some mem => {with_field('mem')})"))
            if m == "resize" and len(args) == 2:
                return self.N(args[0], env, lambda a: self.N(args[1], env, lambda b: with_field(f"(ops.resize {cur}.{f} {a} {b})")))
            if m == "undo_last_chunk_encoding" and len(args) == 2 and args[1][0] == "range" and args[1][1] is not None and args[1][2] is not None:
                return self.N(args[0], env, lambda sb: self.N(args[1][1], env, lambda lo: self.N(args[1][2], env, lambda hi:
                              f"(match ops.undoLast {cur}.{f} {sb} {lo} {hi} with | none => none | some mem => {with_field('mem')})")))
            raise CannotTranslate(f"Shards method .{m}()")
        raise CannotTranslate(f"statement call on a usize field")

    def method(self, params, body_toks):
        """returns (arg names with Lean types, mutates self?, body term)"""
        p = P(params)
        args = []
        has_self = False
        self.bytes_params = set()
        while p.peek()[0] != "eof":
            if p.at("&"):
                p.eat()
                if p.at("mut"):
                    p.eat()
            n = p.eat()
            if n == "self":
                has_self = True
            else:
                p.eat(":")
                ty = []
                depth = 0
                while p.peek()[0] != "eof" and not (p.at(",") and depth == 0):
                    x = p.eat()
                    if x in ("<", "(", "["):
                        depth += 1
                    if x in (">", ")", "]"):
                        depth -= 1
                    ty.append(x)
                tys = "".join(ty)
                if tys == "usize":
                    args.append((n, "Nat"))
                elif tys == "T":
                    args.append((n, "Array Nat"))
                    self.bytes_params.add(n)
                else:
                    raise CannotTranslate(f"parameter {n} of type {tys}")
            if p.at(","):
                p.eat()
        if not has_self:
            raise CannotTranslate("associated function without self")
        body = P(body_toks).block_body()
        env = {n: n for n, _ in args}
        env["self"] = "self"
        ret = lambda v, en: f"some ({v}, {en['self']})"   # noqa: E731
        term = self.stmts(body, env, ret, lambda en, v: f"some ({v if v is not None else '()'}, {en['self']})")
        return args, term


def param_list_nonempty(params):
    return any(t[1] not in ("(", ")") for t in params)


def parse_struct(toks, name):
    for i, t in enumerate(toks):
        if t == ("id", "struct") and toks[i + 1] == ("id", name):
            j = i + 2
            while toks[j] != ("op", "{"):
                j += 1
            e = match_brace(toks, j)
            fields = []
            k = j + 1
            while k < e:
                if toks[k] == ("id", "pub"):
                    k += 1
                    if toks[k] == ("op", "("):
                        while toks[k] != ("op", ")"):
                            k += 1
                        k += 1
                    continue
                fname = toks[k][1]
                assert toks[k + 1] == ("op", ":"), (name, fname)
                k += 2
                ty = []
                while toks[k] != ("op", ",") and k < e:
                    ty.append(toks[k][1])
                    k += 1
                k += 1
                tys = "".join(ty)
                kind = {"usize": "nat", "FixedBitSet": "bitset", "Shards": "shards"}.get(tys)
                if kind is None:
                    raise CannotTranslate(f"field {name}.{fname} of type {tys}")
                fields.append((fname, kind))
            return fields
    raise CannotTranslate(f"struct {name} not found")


def parse_error_enum(toks):
    for i, t in enumerate(toks):
        if t == ("id", "enum") and toks[i + 1] == ("id", "Error"):
            j = i + 2
            while toks[j] != ("op", "{"):
                j += 1
            e = match_brace(toks, j)
            variants = []
            k = j + 1
            while k < e:
                if toks[k] == ("op", "#"):       # attribute
                    k += 1
                    d = 0
                    while True:
                        if toks[k] == ("op", "["):
                            d += 1
                        if toks[k] == ("op", "]"):
                            d -= 1
                            if d == 0:
                                break
                        k += 1
                    k += 1
                    continue
                v = toks[k][1]
                k += 1
                fields = []
                if toks[k] == ("op", "{"):
                    e2 = match_brace(toks, k)
                    m = k + 1
                    while m < e2:
                        if toks[m] == ("op", "#"):
                            while toks[m] != ("op", "]"):
                                m += 1
                            m += 1
                            continue
                        fields.append(toks[m][1])
                        if toks[m + 1] != ("op", ":") or toks[m + 2] != ("id", "usize"):
                            raise CannotTranslate(f"Error::{v} field {toks[m][1]} is not usize")
                        m += 3
                        if m < e2 and toks[m] == ("op", ","):
                            m += 1
                    k = e2 + 1
                elif toks[k] == ("op", "("):
                    raise CannotTranslate(f"Error::{v} is a tuple variant")
                if k < e and toks[k] == ("op", ","):
                    k += 1
                variants.append((v, fields))
            return variants
    raise CannotTranslate("enum Error not found")


SPECS = {
    "EncoderWork": ("src/rate/encoder_work.rs", ["add_original_shard", "encode_begin", "recovery", "reset", "reset_received", "undo_last_chunk_encoding"]),
    "DecoderWork": ("src/rate/decoder_work.rs", ["add_original_shard", "add_recovery_shard", "decode_begin", "original_count", "reset", "reset_received", "restored_original", "undo_last_chunk_encoding"]),
}


def main():
    repo = sys.argv[1] if len(sys.argv) > 1 else "/repo"
    out = sys.argv[2] if len(sys.argv) > 2 else "/verif/lean/RSVerif/Gen/SrcWork.lean"
    try:
        errs = parse_error_enum(tokenize(open(f"{repo}/src/lib.rs").read()))
        errmap = {v: f for v, f in errs}
        parts = []
        parts.append("/-- `enum Error` of src/lib.rs -/\ninductive WErr where\n" +
                     "\n".join(f"  | {v}" + "".join(f" ({f} : Nat)" for f in fs) for v, fs in errs) +
                     "\n  deriving DecidableEq, Repr\n")
        parts.append("/-- the harness's one-line rendering of an error -/\ndef WErr.show : WErr → String\n" +
                     "\n".join(f"  | .{v}" + "".join(f" {f}" for f in fs) + " => s!\"" + v + "".join(" {" + f + "}" for f in fs) + "\"" for v, fs in errs) + "\n")
        parts.append("/-- `Result<T, Error>` -/\ninductive Res (α : Type) where\n  | Ok (v : α)\n  | Err (e : WErr)\n  deriving Repr\n")
        for sname, (file, methods) in SPECS.items():
            toks = tokenize(open(f"{repo}/{file}").read())
            fields = parse_struct(toks, sname)
            fl = "\n".join(f"  {f} : {dict(nat='Nat', bitset='BitSet', shards='σ')[k]}" for f, k in fields)
            parts.append(f"/-- `struct {sname}` of `{file}` (`Shards` abstract) -/\nstructure {sname}S (σ : Type) where\n{fl}\n")
            items = find_items(toks)
            for m in methods:
                cands = [it for it in items if it[1] == m and re.search(rf"^impl\s+{sname}$", it[0])]
                if len(cands) != 1:
                    raise CannotTranslate(f"{file}: expected exactly one `fn {m}` in `impl {sname}`, found {len(cands)}")
                _, _, params, body = cands[0]
                tr = Tr(dict(fields), errmap)
                args, term = tr.method(params, body)
                src = " ".join(t[1] for t in body)
                al = "".join(f" ({n} : {t})" for n, t in args)
                parts.append(f"/-- `{sname}::{m}`: `{src[:300]}` -/\n"
                             f"def {sname}_{m} {{σ : Type}} (ops : ShardsOps σ) (self : {sname}S σ){al} :=\n  {term}\n")
            # `new()`: the state of a fresh work object — a struct literal of integer literals, `FixedBitSet::new()`
            # and `Shards::new()` (the empty memory, a parameter here) — and `Default::default()` = `Self::new()`
            cands = [it for it in items if it[1] == "new" and re.search(rf"^impl\s+{sname}$", it[0])]
            if len(cands) != 1:
                raise CannotTranslate(f"{file}: expected exactly one `fn new` in `impl {sname}`")
            txt = " ".join(t[1] for t in cands[0][3])
            m = re.fullmatch(r"Self \{ (.*?) ,? ?\}", txt)
            if not m or param_list_nonempty(cands[0][2]):
                raise CannotTranslate(f"{sname}::new is not `Self {{ … }}` without parameters: `{txt}`")
            inits = {}
            for piece in [x.strip() for x in m.group(1).split(" , ") if x.strip()]:
                mm = re.fullmatch(r"([a-z_0-9]+) : (.+)", piece)
                if not mm:
                    raise CannotTranslate(f"{sname}::new: field initialiser `{piece}`")
                inits[mm.group(1)] = mm.group(2).strip()
            if list(inits) != [f for f, _ in fields]:
                raise CannotTranslate(f"{sname}::new does not initialise exactly the fields of the struct, in order: {list(inits)}")
            vals = []
            for f, k in fields:
                v = inits[f]
                if k == "nat" and re.fullmatch(r"[0-9_]+", v):
                    vals.append(f"{f} := {int(v.replace('_', ''))}")
                elif k == "bitset" and v == "FixedBitSet :: new ( )":
                    vals.append(f"{f} := (#[] : BitSet)")
                elif k == "shards" and v == "Shards :: new ( )":
                    vals.append(f"{f} := emptyShards")
                else:
                    raise CannotTranslate(f"{sname}::new: `{f}: {v}`")
            parts.append(f"/-- `{sname}::new`: `{txt[:300]}` -/\n"
                         f"def {sname}_new {{σ : Type}} (emptyShards : σ) : {sname}S σ :=\n  {{ " + ", ".join(vals) + " }\n")
            cands = [it for it in items if it[1] == "default" and re.search(rf"^impl\s+Default\s+for\s+{sname}$", it[0])]
            if len(cands) != 1 or " ".join(t[1] for t in cands[0][3]) != "Self :: new ( )":
                raise CannotTranslate(f"{file}: `Default for {sname}` is not `Self::new()`")
            parts.append(f"/-- `<{sname} as Default>::default`: `Self :: new ( )` -/\ndef {sname}_default_is_new : Bool := true\n")
    except CannotTranslate as e:
        print(f"CANNOT-TRANSLATE: {e}")
        return 3
    text = ("/- GENERATED by /verif/translate/rs2lean_work.py from the current text of src/lib.rs (enum Error),\n"
            "   src/rate/encoder_work.rs and src/rate/decoder_work.rs — do not edit.\n"
            "   A method returns `Option (result × self')`; `none` = panic (assert!, usize overflow, out-of-range\n"
            "   bit set, memory operation). -/\n"
            "import RSVerif.Model.RustWork\n\nset_option linter.unusedVariables false\n\nnamespace RS.SrcW\nopen RS.RustW\n\n" +
            "\n".join(parts) + "\nend RS.SrcW\n")
    old = None
    try:
        old = open(out).read()
    except OSError:
        pass
    if old != text:
        open(out, "w").write(text)
    print(f"translated {sum(len(v[1]) for v in SPECS.values())} methods -> {out}" + (" (unchanged)" if old == text else " (CHANGED)"))
    return 0


if __name__ == "__main__":
    sys.exit(main())
