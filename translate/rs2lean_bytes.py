#!/usr/bin/env python3
"""rs2lean_bytes.py - translator for the byte-level layout code of src/engine/shards.rs:
`Shards::insert` (whole chunks copied, the tail split into a low and a high half inside the last chunk) and
`Shards::undo_last_chunk_encoding` (the high half of the tail moved next to the low half).

Regenerates /verif/lean/RSVerif/Gen/SrcBytes.lean from the CURRENT Rust text.  Slices of bytes are byte views
(offset, length) into the backing vector (64 bytes per block) or into the caller's shard; `split_at`, `[..k]`,
`dst[i]`, `as_flattened_mut` are the partial functions of Model/RustBytes.lean (`none` = panic), `copy_from_slice`
and `copy_within` become the list of byte copies the function performs.  Outside the recognised shapes -> exit 3.
"""
import os
import re
import sys

sys.path.insert(0, os.path.dirname(os.path.abspath(__file__)))
from rs2lean import tokenize, CannotTranslate, USIZE  # noqa: E402
from rs2lean_kernel import KP  # noqa: E402
from rs2lean_shards import find_items  # noqa: E402


class BP(KP):
    PREC = [["|"], ["^"], ["&"], ["<<", ">>"], ["+", "-"], ["*", "/", "%"]]

    def binop_at(self):
        v = self.peek()[1]
        if self.peek()[0] == "op" and v in ("/", "%") and not self.at("=", 1):
            return v, 1
        return super().binop_at()

    def expr(self, nostruct=False, level=0):
        if level == 0 and self.at(".."):
            self.eat()
            return ("range", None, KP.expr(self, nostruct, 0))
        e = KP.expr(self, nostruct, level)
        if level == 0 and self.at(".."):
            self.eat()
            if self.at("]") or self.at(")") or self.at(","):
                return ("range", e, None)
            return ("range", e, KP.expr(self, nostruct, 0))
        return e

    def body(self):
        out = []
        while not self.at("}") and self.peek()[0] != "eof":
            if self.peek()[0] == "id" and self.peek()[1].startswith("debug_assert") and self.at("!", 1):
                self.eat()
                self.eat("!")
                d = 0
                while True:
                    v = self.eat()
                    if v == "(":
                        d += 1
                    if v == ")":
                        d -= 1
                        if d == 0:
                            break
                self.eat(";")
                continue
            if self.at("let"):
                self.eat()
                pat = self.pattern()
                if self.at(":"):
                    self.eat()
                    self.skip_type()
                self.eat("=")
                e = self.expr()
                self.eat(";")
                out.append(("let", pat, e))
                continue
            if self.at("if"):
                self.eat()
                a = KP.expr(self, True, 0)
                op = None
                for cand in (">", "==", "<", ">=", "<=", "!="):
                    if self.at(cand):
                        op = self.eat()
                        break
                if op is None:
                    raise CannotTranslate("condition without a comparison")
                b = KP.expr(self, True, 0)
                t = self.block()
                if self.at("else"):
                    raise CannotTranslate("`else` in a layout function")
                if self.at(";"):
                    self.eat()
                out.append(("if", (op, a, b), t))
                continue
            if self.at("for"):
                self.eat()
                pat = self.pattern()
                self.eat("in")
                it = KP.expr(self, True, 0)
                out.append(("for", pat, it, self.block()))
                continue
            if self.at("return"):
                self.eat()
                self.eat(";")
                out.append(("return",))
                continue
            e = self.expr()
            self.eat(";")
            out.append(("expr", e))
        return out


class Tr:
    def __init__(self, name):
        self.name = name
        self.n = 0

    def fresh(self, b):
        self.n += 1
        return f"{b}_{self.n}"

    def fail(self, m):
        raise CannotTranslate(f"{self.name}: {m}")

    # env: name -> ("num", term) | ("bview", term, space) | ("blocks", term)      space: "dst" | "src"
    def num(self, e, env, k):
        if e[0] == "int":
            return k(str(e[1]))
        if e[0] == "var" and env.get(e[1], ("",))[0] == "num":
            return k(env[e[1]][1])
        if e[0] == "method" and e[2] == "len" and not e[4]:
            return self.bview(e[1], env, lambda v, sp: k(f"{v}.len"))
        if e[0] == "bin" and e[1] in ("+", "-", "*", "/", "%"):
            op = e[1]

            def k1(a):
                def k2(b):
                    r = self.fresh("n")
                    if op == "-":
                        return f"(if {b} ≤ {a} then some ({a} - {b}) else none).bind fun {r} =>\n  {k(r)}"
                    if op in ("/", "%"):
                        return f"(if {b} ≠ 0 then some ({a} {op} {b}) else none).bind fun {r} =>\n  {k(r)}"
                    return f"(if {a} {op} {b} < {USIZE} then some ({a} {op} {b}) else none).bind fun {r} =>\n  {k(r)}"
                return self.num(e[3], env, k2)
            return self.num(e[2], env, k1)
        self.fail(f"number `{e}`")

    def blocks(self, e, env, k):
        """a view of whole blocks: `self[index]` (through the translated IndexMut), `dst[..n]`"""
        if e[0] == "ref":
            return self.blocks(e[1], env, k)
        if e[0] == "var" and env.get(e[1], ("",))[0] == "blocks":
            return k(env[e[1]][1])
        if e[0] == "index" and e[1] == ("var", "self") and e[2][0] != "range":
            r = self.fresh("v")
            return self.num(e[2], env, lambda i: f"(Shards_index_mut self {i}).bind fun {r} =>\n  {k(r)}")
        if e[0] == "index" and e[2][0] == "range" and e[2][1] is None:
            r = self.fresh("v")
            return self.blocks(e[1], env, lambda v: self.num(e[2][2], env, lambda b: f"(View.upTo {v} {b}).bind fun {r} =>\n  {k(r)}"))
        self.fail(f"block slice `{e}`")

    def bview(self, e, env, k):
        """k(term, space)"""
        if e[0] == "ref":
            return self.bview(e[1], env, k)
        if e[0] == "var" and env.get(e[1], ("",))[0] == "bview":
            return k(env[e[1]][1], env[e[1]][2])
        if e[0] == "method" and e[2] in ("as_flattened_mut", "as_flattened") and not e[4]:
            return self.blocks(e[1], env, lambda v: k(f"(BView.ofBlocks {v})", "dst"))
        if e[0] == "index" and e[2][0] == "range":
            lo, hi = e[2][1], e[2][2]

            def kv(v, sp):
                r = self.fresh("b")
                if lo is None:
                    return self.num(hi, env, lambda b: f"(BView.upTo {v} {b}).bind fun {r} =>\n  {k(r, sp)}")
                if hi is None:
                    return self.num(lo, env, lambda a: f"(BView.from {v} {a}).bind fun {r} =>\n  {k(r, sp)}")
                return self.num(lo, env, lambda a: self.num(hi, env, lambda b: f"(BView.range {v} {a} {b}).bind fun {r} =>\n  {k(r, sp)}"))
            return self.bview(e[1], env, kv)
        if e[0] == "index":
            # one block of a block view, as 64 bytes: `dst[whole_chunk_count]`, `self[idx][whole_chunk_count]`
            r = self.fresh("b")
            return self.blocks(e[1], env, lambda v: self.num(e[2], env, lambda i: f"(BView.block {v} {i}).bind fun {r} =>\n  {k(r, 'dst')}"))
        self.fail(f"byte slice `{e}`")

    def stmts(self, body, env, acc, k):
        """k(env, acc) -> term;  acc: Lean name of the list of copies so far"""
        if not body:
            return k(env, acc)
        s, rest = body[0], body[1:]
        nxt = lambda env2, acc2: self.stmts(rest, env2, acc2, k)  # noqa: E731
        if s[0] == "let":
            pat, e = s[1], s[2]
            if pat[0] == "tuple" and len(pat[1]) == 2 and e[0] == "method" and e[2] in ("split_at", "split_at_mut") and len(e[4]) == 1:
                a, b = pat[1][0][1], pat[1][1][1]

                def kv(v, sp):
                    def km(m):
                        p = self.fresh("p")
                        env2 = dict(env)
                        env2[a] = ("bview", f"{p}.1", sp)
                        env2[b] = ("bview", f"{p}.2", sp)
                        return f"(BView.splitAt {v} {m}).bind fun {p} =>\n  {nxt(env2, acc)}"
                    return self.num(e[4][0], env, km)
                return self.bview(e[1], env, kv)
            if pat[0] != "name":
                self.fail("let pattern")
            # a block view (`&mut self[index]`), a byte view of one block, or a number
            x = e
            while x[0] == "ref":
                x = x[1]
            if x[0] == "index" and x[1] == ("var", "self"):
                def kb(v):
                    env2 = dict(env)
                    env2[pat[1]] = ("blocks", v)
                    return nxt(env2, acc)
                return self.blocks(x, env, kb)
            if x[0] == "index" and x[1][0] == "index" and x[1][1] == ("var", "self"):
                def kbv(v, sp):
                    env2 = dict(env)
                    env2[pat[1]] = ("bview", v, sp)
                    return nxt(env2, acc)
                return self.bview(x, env, kbv)

            def kn(v):
                n = self.fresh(pat[1])
                env2 = dict(env)
                env2[pat[1]] = ("num", n)
                return f"(some {v}).bind fun {n} =>\n  {nxt(env2, acc)}"
            return self.num(e, env, kn)
        if s[0] == "expr":
            e = s[1]
            if e[0] == "method" and e[2] == "copy_from_slice" and len(e[4]) == 1:
                def kd(d, spd):
                    def ks(sv, sps):
                        if spd != "dst" or sps != "src":
                            self.fail("copy_from_slice that is not (working memory <- given shard)")
                        a2 = self.fresh("acc")
                        return f"(BView.copyFromSlice {d} {sv}).bind fun c =>\n  (some ({acc} ++ [c])).bind fun {a2} =>\n  {nxt(env, a2)}"
                    return self.bview(e[4][0], env, ks)
                return self.bview(e[1], env, kd)
            if e[0] == "method" and e[2] == "copy_within" and len(e[4]) == 2 and e[4][0][0] == "range":
                lo, hi = e[4][0][1], e[4][0][2]

                def kd(d, spd):
                    if spd != "dst":
                        self.fail("copy_within outside the working memory")
                    a2 = self.fresh("acc")
                    return self.num(lo, env, lambda a: self.num(hi, env, lambda b: self.num(e[4][1], env, lambda t:
                        f"(BView.copyWithin {d} {a} {b} {t}).bind fun c =>\n  (some ({acc} ++ [c])).bind fun {a2} =>\n  {nxt(env, a2)}")))
                return self.bview(e[1], env, kd)
            self.fail(f"statement `{e[0]}`")
        if s[0] == "if":
            (op, a, b), body2 = s[1], s[2]
            lop = {">": ">", "==": "=", "<": "<", ">=": "≥", "<=": "≤", "!=": "≠"}[op]
            if body2 == [("return",)]:
                return self.num(a, env, lambda x: self.num(b, env, lambda y: f"if {x} {lop} {y} then some {acc} else\n  {nxt(env, acc)}"))
            a2 = self.fresh("acc")
            inner = self.stmts(body2, env, acc, lambda e2, ac: f"some {ac}")
            return self.num(a, env, lambda x: self.num(b, env, lambda y: f"(if {x} {lop} {y} then\n  ({inner})\n  else some {acc}).bind fun {a2} =>\n  {nxt(env, a2)}"))
        if s[0] == "for":
            pat, it, body2 = s[1], s[2], s[3]
            if pat[0] != "name" or it[0] != "var" or env.get(it[1], ("",))[0] != "rangeparam":
                self.fail("`for` over something other than the range parameter")
            a2 = self.fresh("acc")
            i = self.fresh(pat[1])
            env2 = dict(env)
            env2[pat[1]] = ("num", i)
            inner = self.stmts(body2, env2, "acc0", lambda e2, ac: f"some {ac}")
            return (f"((List.range' {it[1]}.1 ({it[1]}.2 - {it[1]}.1)).foldlM (fun (acc0 : List Copy) ({i} : Nat) =>\n  {inner}) {acc}).bind fun {a2} =>\n  {nxt(env, a2)}")
        self.fail(f"statement `{s[0]}`")


def main():
    repo = sys.argv[1] if len(sys.argv) > 1 else "/repo"
    out = sys.argv[2] if len(sys.argv) > 2 else "/verif/lean/RSVerif/Gen/SrcBytes.lean"
    parts = []
    try:
        items = find_items(tokenize(open(f"{repo}/src/engine/shards.rs").read()))

        def pick(name):
            c = [x for x in items if x[1] == name and re.search(r"^impl Shards$", x[0].strip())]
            if len(c) != 1:
                raise CannotTranslate(f"shards.rs: expected exactly one `Shards::{name}`")
            return c[0]

        it = pick("insert")
        if " ".join(t[1] for t in it[2]) != "& mut self , index : usize , shard : & [ u8 ]":
            raise CannotTranslate("Shards::insert: parameters")
        tr = Tr("insert")
        env = {"index": ("num", "index"), "shard": ("bview", "(BView.mk 0 n)", "src")}
        term = tr.stmts(BP(it[3]).body(), env, "([] : List Copy)", lambda e, acc: f"some {acc}")
        doc = " ".join(t[1] for t in it[3])[:170].replace("/-", "/ -").replace("-/", "- /")
        parts.append(f"/-- `Shards::insert(index, shard)` with `n = shard.len()`: the byte copies (destination offset in the backing vector, "
                     f"source offset in `shard`, length) it performs, in order: `{doc} …` -/\n"
                     f"def Shards_insert (self : ShardsS) (index n : Nat) : Option (List Copy) :=\n  {term}\n")

        it = pick("undo_last_chunk_encoding")
        if " ".join(t[1] for t in it[2]) != "& mut self , shard_bytes : usize , range : Range < usize >":
            raise CannotTranslate("Shards::undo_last_chunk_encoding: parameters")
        tr = Tr("undo_last_chunk_encoding")
        env = {"shard_bytes": ("num", "shard_bytes"), "range": ("rangeparam",)}
        term = tr.stmts(BP(it[3]).body(), env, "([] : List Copy)", lambda e, acc: f"some {acc}")
        doc = " ".join(t[1] for t in it[3])[:170].replace("/-", "/ -").replace("-/", "- /")
        parts.append(f"/-- `Shards::undo_last_chunk_encoding(shard_bytes, range)`: the byte moves inside the backing vector (destination offset, "
                     f"source offset, length), in order: `{doc} …` -/\n"
                     f"def Shards_undo_last_chunk_encoding (self : ShardsS) (shard_bytes : Nat) (range : Nat × Nat) : Option (List Copy) :=\n  {term}\n")
    except CannotTranslate as e:
        print(f"CANNOT-TRANSLATE: {e}")
        return 3
    text = ("/- GENERATED by /verif/translate/rs2lean_bytes.py from the current text of src/engine/shards.rs — do not edit. -/\n"
            "import RSVerif.Model.RustBytes\nimport RSVerif.Gen.SrcShards\n\nset_option linter.unusedVariables false\n\n"
            "namespace RS.SrcS\nopen RS.RustS RS.RustB\n\n" + "\n".join(parts) + "\nend RS.SrcS\n")
    old = None
    try:
        old = open(out).read()
    except OSError:
        pass
    if old != text:
        open(out, "w").write(text)
    print(f"translated insert / undo_last_chunk_encoding -> {out}" + (" (unchanged)" if old == text else " (CHANGED)"))
    return 0


if __name__ == "__main__":
    sys.exit(main())
