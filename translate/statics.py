#!/usr/bin/env python3
"""statics.py - regenerates /verif/lean/RSVerif/Gen/Statics.lean: every piece of process-global or
thread-global state declared in the crate's source (static items, thread_local!, UnsafeCell, static mut),
outside test modules and the verification hooks.  The models of C05 (history independence) and C16
(lazy tables) ASSUME that the only such state is the five LazyLock tables; the Lean theorem
`source_global_state` re-checks that assumption against today's source on every run.
"""
import os
import re
import sys

KNOWN = ["EXP_LOG", "LOG_WALSH", "MUL16", "MUL128", "SKEW"]

# APIs through which the environment of the process could influence a result (threads and their number, environment
# variables, clocks, files, sockets, child processes, random numbers, allocator statistics, panicking state)
AMBIENT = [
    r"\bstd\s*::\s*env\b", r"\benv\s*::\s*(?:var|vars|args)\b", r"\bavailable_parallelism\b",
    r"\bthread\s*::\s*(?:spawn|scope|current|sleep|park|Builder|yield_now)\b", r"\bstd\s*::\s*thread\b",
    r"\bstd\s*::\s*time\b", r"\b(?:Instant|SystemTime)\s*::", r"\bstd\s*::\s*fs\b", r"\bstd\s*::\s*net\b",
    r"\bstd\s*::\s*process\b", r"\bstd\s*::\s*io\b", r"\brand(?:_chacha|_core)?\s*::", r"\bgetrandom\b",
    r"\bRandomState\b", r"\bstd\s*::\s*panic\b", r"\bpanicking\s*\(",
    r"\bas_ptr\s*\(\s*\)\s*as\s+usize\b", r"\bnum_cpus\b", r"\brayon\b",
]


def strip_tests(text):
    """remove `#[cfg(test)] mod x { … }` blocks (brace-matched) and `#[cfg(test)] mod x;` declarations"""
    out = []
    i = 0
    pat = re.compile(r"#\[cfg\(test\)\]\s*(?:#\[[^\]]*\]\s*)*(?:pub\s+)?mod\s+[A-Za-z_0-9]+\s*([;{])")
    while True:
        m = pat.search(text, i)
        if not m:
            out.append(text[i:])
            break
        out.append(text[i:m.start()])
        if m.group(1) == ";":
            i = m.end()
            continue
        depth, j = 1, m.end()
        while j < len(text) and depth > 0:
            if text[j] == "{":
                depth += 1
            elif text[j] == "}":
                depth -= 1
            j += 1
        i = j
    return "".join(out)


def main():
    repo = sys.argv[1] if len(sys.argv) > 1 else "/repo"
    out = sys.argv[2] if len(sys.argv) > 2 else "/verif/lean/RSVerif/Gen/Statics.lean"
    items = []
    tls = uc = sm = 0
    notes = []
    ambient = []
    cfg_atoms = []
    detect_outside = 0
    # whole files that are test-only modules (`#[cfg(test)] mod x;`)
    test_files = set()
    for root, _, files in os.walk(os.path.join(repo, "src")):
        for f in files:
            if f.endswith(".rs"):
                for m in re.finditer(r"#\[cfg\(test\)\]\s*(?:#\[[^\]]*\]\s*)*(?:pub(?:\([^)]*\))?\s+)?mod\s+([A-Za-z_0-9]+)\s*;", open(os.path.join(root, f)).read()):
                    test_files.add(os.path.normpath(os.path.join(root, m.group(1) + ".rs")))
                    test_files.add(os.path.normpath(os.path.join(root, m.group(1), "mod.rs")))
    for root, _, files in os.walk(os.path.join(repo, "src")):
        for f in sorted(files):
            if not f.endswith(".rs") or f == "verif_hooks.rs":
                continue
            path = os.path.join(root, f)
            rel = os.path.relpath(path, repo)
            text = strip_tests(open(path).read())
            text = re.sub(r"//[^\n]*", "", text)
            text = re.sub(r"/\*.*?\*/", "", text, flags=re.S)
            for m in re.finditer(r"(?m)^\s*(?:pub(?:\([^)]*\))?\s+)?static\s+(mut\s+)?([A-Za-z_][A-Za-z0-9_]*)\s*:\s*([^=;]+)[=;]", text):
                mut, name, ty = m.group(1), m.group(2), " ".join(m.group(3).split())
                if mut:
                    sm += 1
                items.append((rel, name, ty))
            # AMBIENT INPUTS: anything the process environment could feed into a result.  The models treat every
            # function of the crate as a function of its arguments, the object and (for DefaultEngine, in
            # engine_default.rs only) the CPU features reported at run time.
            if os.path.normpath(path) not in test_files:
                for pat in AMBIENT:
                    for m in re.finditer(pat, text):
                        ambient.append((rel, m.group(0)))
                nd = len(re.findall(r"is_(?:x86|aarch64)_feature_detected\s*!", text)) + len(re.findall(r"\bcpuid\b|__cpuid", text))
                if nd and rel != os.path.join("src", "engine", "engine_default.rs"):
                    detect_outside += nd
                    notes.append(f"{rel}: {nd} CPU feature detections outside engine_default.rs")
            # conditional compilation: every predicate atom of `#[cfg(…)]`, `#[cfg_attr(…)]`, `cfg!(…)` other than
            # `test`, `target_arch = …` and the hooks' feature — what the crate IS must not depend on anything else
            # (compile-time `target_feature`, `debug_assertions`, `target_os`, other cargo features …)
            for m in re.finditer(r"cfg(?:_attr)?\s*!?\s*\(", text):
                depth, j = 1, m.end()
                while j < len(text) and depth > 0:
                    depth += (text[j] == "(") - (text[j] == ")")
                    j += 1
                pred = text[m.end():j - 1]
                if m.group(0).startswith("cfg_attr"):
                    # only the condition (up to the first top-level comma)
                    d2 = 0
                    for k2, ch in enumerate(pred):
                        d2 += (ch == "(") - (ch == ")")
                        if ch == "," and d2 == 0:
                            pred = pred[:k2]
                            break
                for atom in re.findall(r"[A-Za-z_][A-Za-z_0-9]*(?:\s*=\s*\"[^\"]*\")?", pred):
                    a = re.sub(r"\s+", " ", atom.strip())
                    if a in ("any", "all", "not", "test") or a.startswith("target_arch =") or a == 'feature = "verif-hooks"':
                        continue
                    cfg_atoms.append((rel, a))
            n = len(re.findall(r"\bthread_local\s*!", text))
            if n:
                tls += n
                notes.append(f"{rel}: {n} thread_local!")
            n = len(re.findall(r"\bUnsafeCell\b", text))
            if n:
                uc += n
                notes.append(f"{rel}: UnsafeCell")
    # #[target_feature(enable = "…")] attributes of the SIMD engines: (engine of the file, feature enabled)
    isa = {"avx2": 1, "ssse3": 2, "neon": 4}
    tf = []
    for eng in ("ssse3", "avx2", "neon"):
        path = os.path.join(repo, "src", "engine", f"engine_{eng}.rs")
        if not os.path.exists(path):
            continue
        text = strip_tests(open(path).read())
        text = re.sub(r"//[^\n]*", "", text)
        for m in re.finditer(r"#\[\s*target_feature\s*\(\s*enable\s*=\s*\"([^\"]*)\"\s*\)\s*\]\s*(?:#\[[^\]]*\]\s*)*(?:pub(?:\([^)]*\))?\s+)?(?:unsafe\s+)?fn\s+([A-Za-z_0-9]+)", text):
            tf.append((eng, m.group(2), m.group(1)))
    items.sort()
    def code(name):
        return KNOWN.index(name) if name in KNOWN else 99
    def kind(ty):
        return 0 if ty.startswith("LazyLock<") else 1
    lines = ["/- GENERATED by /verif/translate/statics.py from the current source of /repo — do not edit.",
             "   Global state declared in src/**/*.rs outside test modules and verif_hooks.rs:"]
    for rel, name, ty in items:
        lines.append(f"     {rel}: static {name}: {ty}")
    for n in notes:
        lines.append(f"     {n}")
    lines.append("-/")
    lines.append("namespace RS.Gen")
    lines.append("/-- (table index 0..4 = EXP_LOG, LOG_WALSH, MUL16, MUL128, SKEW; 99 = anything else, kind 0 = LazyLock) -/")
    lines.append("def statics : List (Nat × Nat) := [" + ", ".join(f"({code(n)}, {kind(t)})" for _, n, t in items) + "]")
    lines.append(f"def threadLocals : Nat := {tls}")
    lines.append(f"def unsafeCells : Nat := {uc}")
    lines.append(f"def staticMuts : Nat := {sm}")
    lines.append("/-- uses of APIs through which the process environment could reach a result (threads / CPU count, environment")
    lines.append("    variables, clocks, files, sockets, processes, random numbers, hash-order, addresses) outside test modules: -/")
    lines.append("def ambientUses : List String := [" + ", ".join('"' + f"{rel}: {' '.join(tok.split())}".replace('"', "'") + '"' for rel, tok in ambient) + "]")
    lines.append("/-- conditional-compilation predicates other than `test`, `target_arch = …` and the hooks' feature -/")
    lines.append("def otherCfgPredicates : List String := [" + ", ".join('"' + f"{rel}: {a}".replace('"', "'") + '"' for rel, a in cfg_atoms) + "]")
    lines.append("/-- run-time CPU feature detections outside `src/engine/engine_default.rs` -/")
    lines.append(f"def featureDetectionsOutsideDefaultEngine : Nat := {detect_outside}")
    lines.append("/-- every `#[target_feature(enable = F)]` function of the SIMD engines: (ISA of the engine whose file it is in,")
    lines.append("    ISA `F` it is compiled for, does its name end in `_<engine>`); avx2 = 1, ssse3 = 2, neon = 4, other = 0:")
    for eng, fn, feat in tf:
        lines.append(f"      engine_{eng}.rs: fn {fn}: enable = \"{feat}\"")
    lines.append("-/")
    lines.append("def targetFeatures : List (Nat × Nat × Bool) := [" + ", ".join(
        f"({isa[eng]}, {isa.get(feat, 0)}, {'true' if fn.endswith('_' + eng) else 'false'})" for eng, fn, feat in tf) + "]")
    lines.append("end RS.Gen")
    text = "\n".join(lines) + "\n"
    old = None
    try:
        old = open(out).read()
    except OSError:
        pass
    if old != text:
        open(out, "w").write(text)
    print(f"{len(items)} statics, {len(ambient)} ambient uses, {tls} thread_local!, {uc} UnsafeCell, {sm} static mut, {len(tf)} target_feature fns -> {out}" + (" (unchanged)" if old == text else " (CHANGED)"))
    return 0


if __name__ == "__main__":
    sys.exit(main())
