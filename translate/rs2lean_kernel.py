#!/usr/bin/env python3
"""rs2lean_kernel.py - translator for the per-chunk multiply / butterfly KERNELS of the four engine families.

Regenerates /verif/lean/RSVerif/Gen/SrcKernel.lean from the CURRENT Rust text of

  src/engine/engine_ssse3.rs   mul_128, muladd_128, mul_ssse3, fftb_128, ifftb_128, fft/ifft_butterfly_partial, Engine::mul
  src/engine/engine_avx2.rs    struct LutAvx2, LutAvx2::from, mul_256, muladd_256, mul_avx2, fftb_256, ifftb_256, …partial, Engine::mul
  src/engine/engine_neon.rs    mul_128, muladd_128, mul_neon, fftb_128, ifftb_128, …partial, Engine::mul
  src/engine/engine_nosimd.rs  Engine::mul, mul_add, fft/ifft_butterfly_partial
  src/engine/utils.rs          xor

The code is straight-line SIMD (or `for i in 0..32` byte loops): every Rust binding becomes a Lean `let`, every
intrinsic the Lean function that models its documented semantics (Model/Simd.lean, Model/SimdBlock.lean), loads and
stores through `x_ptr.add(k)` become quarter / half accesses of a 64-byte block with store tracking, loops over chunks
become maps over lists of blocks.  `lut` (= `&self.mul128[log_m]` / `&self.mul16[log_m]`) is a parameter.
Anything outside the recognised subset -> exit 3 with `CANNOT-TRANSLATE: …`.
"""
import os
import re
import sys

sys.path.insert(0, os.path.dirname(os.path.abspath(__file__)))
from rs2lean import tokenize, find_items, CannotTranslate  # noqa: E402


# ------------------------------------------------------------------------------------------------ parser
class KP:
    def __init__(self, toks):
        self.t = toks
        self.i = 0

    def peek(self, o=0):
        return self.t[self.i + o] if self.i + o < len(self.t) else ("eof", "")

    def at(self, v, o=0):
        k, x = self.peek(o)
        return k != "eof" and k != "str" and x == v

    def eat(self, v=None):
        k, x = self.peek()
        if k == "eof":
            raise CannotTranslate(f"unexpected end of input (expected {v!r})")
        if v is not None and x != v:
            raise CannotTranslate(f"expected {v!r}, found {x!r}")
        self.i += 1
        return x

    def skip_type(self):
        """skip a type after `:` in a let"""
        depth = 0
        while True:
            k, v = self.peek()
            if k == "eof":
                raise CannotTranslate("type runs to end of input")
            if depth == 0 and v in ("=", ";"):
                return
            if v in ("<", "[", "("):
                depth += 1
            if v in (">", "]", ")"):
                depth -= 1
            self.eat()

    def pattern(self):
        if self.at("mut"):
            self.eat()
        if self.at("("):
            self.eat()
            items = []
            while not self.at(")"):
                items.append(self.pattern())
                if self.at(","):
                    self.eat()
            self.eat(")")
            return ("tuple", items)
        return ("name", self.eat())

    def block(self):
        self.eat("{")
        b = self.body()
        self.eat("}")
        return b

    def body(self):
        out = []
        while not self.at("}") and self.peek()[0] != "eof":
            if self.at("#"):
                # attribute: only the hook guard is accepted, together with the statement it guards
                toks = []
                self.eat("#")
                self.eat("[")
                while not self.at("]"):
                    toks.append(self.eat())
                self.eat("]")
                if "".join(toks) != 'cfg(feature="verif-hooks")':
                    raise CannotTranslate(f"attribute #[{' '.join(toks)}] inside a kernel")
                self.expr()
                self.eat(";")
                continue
            if self.at("unsafe") and self.at("{", 1):
                self.eat()
                out.extend(self.block())
                continue
            if self.at("let"):
                self.eat()
                pat = self.pattern()
                if self.at(":"):
                    self.eat()
                    self.skip_type()
                e = None
                if self.at("="):
                    self.eat()
                    e = self.expr()
                self.eat(";")
                out.append(("let", pat, e))
                continue
            if self.at("for"):
                self.eat()
                pat = self.pattern()
                self.eat("in")
                it = self.expr(nostruct=True)
                out.append(("for", pat, it, self.block()))
                continue
            if self.peek()[0] == "id" and self.peek()[1].startswith("debug_assert") and self.at("!", 1):
                # debug assertions do not change what the function computes
                self.eat()
                self.eat("!")
                d = 0
                while True:
                    v = self.eat()
                    if v == "(":
                        d += 1
                    if v == ")":
                        d -= 1
                        if d == 0:
                            break
                self.eat(";")
                continue
            e = self.expr()
            if self.at("="):
                self.eat()
                rhs = self.expr()
                self.eat(";")
                out.append(("assign", e, rhs))
            elif self.peek()[1] in ("^", "&", "|", "+") and self.at("=", 1):
                op = self.eat()
                self.eat("=")
                rhs = self.expr()
                self.eat(";")
                out.append(("opassign", e, op, rhs))
            elif self.at(";"):
                self.eat()
                out.append(("expr", e))
            elif self.at("}") or self.peek()[0] == "eof":
                out.append(("tail", e))
            else:
                raise CannotTranslate(f"unexpected token {self.peek()[1]!r} after expression")
        return out

    # precedence climbing: | ^ & << >> + - * as
    PREC = [["|"], ["^"], ["&"], ["<<", ">>"], ["+", "-"], ["*"]]

    def binop_at(self):
        if self.at("<") and self.at("<", 1):
            return "<<", 2
        if self.at(">") and self.at(">", 1):
            return ">>", 2
        v = self.peek()[1]
        if self.peek()[0] == "op" and v in ("|", "^", "&", "+", "-", "*") and not self.at("=", 1):
            return v, 1
        return None, 0

    def expr(self, nostruct=False, level=0):
        if level == len(self.PREC):
            return self.cast(nostruct)
        lhs = self.expr(nostruct, level + 1)
        while True:
            op, n = self.binop_at()
            if op is None or op not in self.PREC[level]:
                return lhs
            for _ in range(n):
                self.eat()
            rhs = self.expr(nostruct, level + 1)
            lhs = ("bin", op, lhs, rhs)

    def cast(self, nostruct):
        e = self.unary(nostruct)
        while self.at("as"):
            self.eat()
            e = ("cast", e, self.eat())
        return e

    def unary(self, nostruct):
        if self.at("&"):
            self.eat()
            if self.at("mut"):
                self.eat()
            return ("ref", self.unary(nostruct))
        if self.at("*"):
            self.eat()
            return ("deref", self.unary(nostruct))
        return self.postfix(self.primary(nostruct))

    def turbofish(self):
        if self.at("::") and self.at("<", 1):
            self.eat()
            self.eat()
            ty = []
            d = 1
            while True:
                v = self.eat()
                if v == "<":
                    d += 1
                if v == ">":
                    d -= 1
                    if d == 0:
                        break
                ty.append(v)
            return "".join(ty)
        return None

    def args(self):
        self.eat("(")
        a = []
        while not self.at(")"):
            a.append(self.expr())
            if self.at(","):
                self.eat()
        self.eat(")")
        return a

    def postfix(self, e):
        while True:
            if self.at(".") and self.peek(1)[0] in ("id", "int"):
                self.eat()
                m = self.eat()
                tf = self.turbofish()
                if self.at("("):
                    e = ("method", e, m, tf, self.args())
                else:
                    e = ("field", e, m)
            elif self.at("["):
                self.eat()
                i = self.expr()
                self.eat("]")
                e = ("index", e, i)
            elif self.at("("):
                e = ("call", e, self.args())
            else:
                return e

    def primary(self, nostruct):
        k, v = self.peek()
        if v == "(" and k == "op":
            self.eat()
            items = []
            while not self.at(")"):
                items.append(self.expr())
                if self.at(","):
                    self.eat()
            self.eat(")")
            return items[0] if len(items) == 1 else ("tuple", items)
        if k == "int":
            self.eat()
            if v == "0" and self.peek()[0] == "id" and re.fullmatch(r"x[0-9a-fA-F_]+", self.peek()[1]):
                return ("int", int(self.eat()[1:].replace("_", ""), 16))
            return ("int", int(re.sub(r"[a-z_].*$", "", v.replace("_", "")) or "0"))
        if k == "id":
            path = [self.eat()]
            while self.at("::") and not self.at("<", 1):
                self.eat()
                path.append(self.eat())
            tf = self.turbofish()
            while self.at("::"):
                self.eat()
                path.append(self.eat())
            if len(path) == 1 and tf is None:
                e = ("var", path[0])
            else:
                e = ("path", path, tf)
            if self.at("{") and not nostruct and path[-1][0].isupper():
                self.eat()
                fields = []
                while not self.at("}"):
                    f = self.eat()
                    self.eat(":")
                    fields.append((f, self.expr()))
                    if self.at(","):
                        self.eat()
                self.eat("}")
                return ("struct", path, fields)
            return e
        if v == "0":
            pass
        raise CannotTranslate(f"unexpected token {v!r}")


# ------------------------------------------------------------------------------------------------ families
FAM = {
    "Ssse3": dict(file="src/engine/engine_ssse3.rs", width=16, vec="V128",
                  load="_mm_loadu_si128", store="_mm_storeu_si128", ptr_unit=16,
                  intr={"_mm_set1_epi8": ("v128set1", "b"), "_mm_and_si128": ("v128and", "vv"), "_mm_xor_si128": ("v128xor", "vv"),
                        "_mm_shuffle_epi8": ("v128shuffle", "vv"), "_mm_srli_epi64": ("v128srli64", "vn")}),
    "Avx2": dict(file="src/engine/engine_avx2.rs", width=32, vec="V256",
                 load="_mm256_loadu_si256", store="_mm256_storeu_si256", ptr_unit=32,
                 intr={"_mm256_set1_epi8": ("v256set1", "b"), "_mm256_and_si256": ("v256and", "vv"), "_mm256_xor_si256": ("v256xor", "vv"),
                       "_mm256_shuffle_epi8": ("v256shuffle", "vv"), "_mm256_srli_epi64": ("v256srli64", "vn"),
                       "_mm256_broadcastsi128_si256": ("v256broadcast", "w")}),
    "Neon": dict(file="src/engine/engine_neon.rs", width=16, vec="V128",
                 load="vld1q_u8", store="vst1q_u8", ptr_unit=1,
                 intr={"vdupq_n_u8": ("v128set1", "b"), "vandq_u8": ("v128and", "vv"), "veorq_u8": ("v128xor", "vv"),
                       "vqtbl1q_u8": ("vqtbl1q", "vv"), "vshrq_n_u8": ("vshrq4", "v4")}),
    "NoSimd": dict(file="src/engine/engine_nosimd.rs", width=None, vec=None, load=None, store=None, ptr_unit=None, intr={}),
    "Naive": dict(file="src/engine/engine_naive.rs", width=None, vec=None, load=None, store=None, ptr_unit=None, intr={}),
    "Utils": dict(file="src/engine/utils.rs", width=None, vec=None, load=None, store=None, ptr_unit=None, intr={}),
}

# per family: (impl header regex, fn name)
WANTED = {
    "Ssse3": [("impl Ssse3$", "mul_128"), ("impl Ssse3$", "muladd_128"), ("impl Ssse3$", "mul_ssse3"), ("impl Ssse3$", "fftb_128"),
              ("impl Ssse3$", "ifftb_128"), ("impl Ssse3$", "fft_butterfly_partial"), ("impl Ssse3$", "ifft_butterfly_partial"),
              ("impl Engine for Ssse3$", "mul")],
    "Avx2": [("impl From < & Multiply128lutT > for LutAvx2$", "from"), ("impl Avx2$", "mul_256"), ("impl Avx2$", "muladd_256"),
             ("impl Avx2$", "mul_avx2"), ("impl Avx2$", "fftb_256"), ("impl Avx2$", "ifftb_256"),
             ("impl Avx2$", "fft_butterfly_partial"), ("impl Avx2$", "ifft_butterfly_partial"), ("impl Engine for Avx2$", "mul")],
    "Neon": [("impl Neon$", "mul_128"), ("impl Neon$", "muladd_128"), ("impl Neon$", "mul_neon"), ("impl Neon$", "fftb_128"),
             ("impl Neon$", "ifftb_128"), ("impl Neon$", "fft_butterfly_partial"), ("impl Neon$", "ifft_butterfly_partial"),
             ("impl Engine for Neon$", "mul")],
    "Utils": [("^$", "xor")],
    "NoSimd": [("impl Engine for NoSimd$", "mul"), ("impl NoSimd$", "mul_add"), ("impl NoSimd$", "fft_butterfly_partial"),
               ("impl NoSimd$", "ifft_butterfly_partial")],
    "Naive": [("impl Engine for Naive$", "mul"), ("impl Naive$", "mul_add")],
}


def split_params(ptoks):
    """-> list of (name, type-string, is_mut_binding)"""
    out, cur, depth = [], [], 0
    for k, v in ptoks:
        if v in ("<", "[", "("):
            depth += 1
        if v in (">", "]", ")"):
            depth -= 1
        if v == "," and depth == 0:
            out.append(cur)
            cur = []
        else:
            cur.append(v)
    if cur:
        out.append(cur)
    res = []
    for p in out:
        if p[-1] == "self":
            res.append(("self", "self", False))
            continue
        mutb = p[0] == "mut"
        if mutb:
            p = p[1:]
        if p[1] != ":":
            raise CannotTranslate(f"parameter `{' '.join(p)}`")
        res.append((p[0], "".join(p[2:]), mutb))
    return res


PT = {"&mut[[u8;64]]": "mlist", "&[[u8;64]]": "list", "&mut[u8;64]": "mblock", "&[u8;64]": "block",
      "__m128i": "vec", "__m256i": "vec", "uint8x16_t": "vec", "&Multiply128lutT": "lut", "LutAvx2": "lutavx", "GfElement": "logm"}


class Sig:
    def __init__(self, fam, name, params):
        self.fam, self.name = fam, name
        self.params = []          # (name, kind)
        self.has_self = False
        for (n, ty, mutb) in params:
            if n == "self":
                self.has_self = True
                continue
            if ty not in PT:
                raise CannotTranslate(f"{fam}::{name}: parameter type `{ty}`")
            self.params.append((n, PT[ty], mutb))
        kinds = [k for (_, k, _) in self.params]
        self.lut = None
        if "lut" in kinds or (self.has_self and "logm" in kinds):
            self.lut = "lut16" if fam == "NoSimd" else "mulf" if fam == "Naive" else "lut128"
        self.leanname = f"{fam}_{name}"

    def lean_lut_params(self):
        if self.lut == "lut128":
            return "(lutLoF lutHiF : Nat → V128) "
        if self.lut == "lut16":
            return "(lut16F : Nat → Nat → Sym) "
        if self.lut == "mulf":
            return "(mulF : Sym → Sym) "
        return ""

    def lean_lut_args(self):
        return {"lut128": "lutLoF lutHiF ", "lut16": "lut16F ", "mulf": "mulF ", None: ""}[self.lut]


class Fn:
    """symbolic execution of one function body into a chain of Lean `let`s"""

    def __init__(self, tr, fam, sig, level):
        self.tr, self.fam, self.sig = tr, fam, sig
        self.F = FAM[fam]
        self.lines = []
        self.env = {}      # rust name -> value
        self.cnt = {}
        self.level = level  # 'list' | 'block' | 'vec'
        self.tail = None
        self.blocks = {}

    # values: ("vec", lean) ("lut",) ("lutavx", lean) ("block", rustname) ("list", rustname) ("ptr", blockname, unit) ("view", blockname, off)
    #         ("u8", lean) ("u16", lean) ("nat", lean) ("logm",) ("pair", lean, kinds)
    def fresh(self, base):
        self.cnt[base] = self.cnt.get(base, 0) + 1
        return f"{base}_{self.cnt[base]}"

    def bind(self, rust, lean_term, kind):
        n = self.fresh(rust)
        self.lines.append(f"let {n} := {lean_term}")
        self.env[rust] = (kind, n)
        return n

    # ---- blocks: current value + pending stores
    def block_init(self, rust, lean):
        self.env[rust] = ("block", rust)
        self.blocks[rust] = {"cur": lean, "stores": {}, "w": None}

    def block_value(self, rust):
        b = self.blocks[rust]
        if not b["stores"]:
            return b["cur"]
        w = b["w"]
        n = 64 // w
        parts = []
        for k in range(n):
            parts.append(b["stores"].get(k) or f"({'blockQuarter' if w == 16 else 'blockHalf'} {b['cur']} {k})")
        ctor = "blockOfQuarters" if w == 16 else "blockOfHalves"
        v = self.fresh(rust)
        self.lines.append(f"let {v} := {ctor} {' '.join(parts)}")
        b["cur"], b["stores"], b["w"] = v, {}, None
        return v

    def block_set(self, rust, lean):
        self.blocks[rust] = {"cur": lean, "stores": {}, "w": None}

    def ptr_of(self, e):
        """-> ("blk", blockname, byteoffset) | ("lut", 'Lo'|'Hi', k)"""
        if e[0] == "var" and e[1] in self.env and self.env[e[1]][0] == "ptr":
            return ("blk", self.env[e[1]][1], 0)
        if e[0] == "method" and e[2] == "add" and len(e[4]) == 1 and e[1][0] == "var" and self.env.get(e[1][1], ("",))[0] == "ptr":
            _, blk, unit = self.env[e[1][1]]
            return ("blk", blk, self.const(e[4][0]) * unit)
        # std::ptr::from_ref::<u128>(&lut.lo[K]).cast::<T>()
        if e[0] == "method" and e[2] == "cast" and e[1][0] == "call" and e[1][1][0] == "path" and e[1][1][1] == ["std", "ptr", "from_ref"]:
            a = e[1][2]
            if len(a) == 1 and a[0][0] == "ref" and a[0][1][0] == "index" and a[0][1][1][0] == "field":
                fld = a[0][1][1]
                if fld[1][0] == "var" and self.env.get(fld[1][1], ("",))[0] == "lut" and fld[2] in ("lo", "hi"):
                    return ("lut", "Lo" if fld[2] == "lo" else "Hi", self.const(a[0][1][2]))
        raise CannotTranslate(f"{self.sig.leanname}: pointer expression `{e}`")

    def const(self, e):
        if e[0] == "int":
            return e[1]
        if e[0] == "bin" and e[1] == "*":
            return self.const(e[2]) * self.const(e[3])
        if e[0] == "bin" and e[1] == "+":
            return self.const(e[2]) + self.const(e[3])
        raise CannotTranslate(f"{self.sig.leanname}: constant `{e}`")

    def mkptr(self, e):
        """`x.as_mut_ptr().cast::<__m128i>()` / `x.as_mut_ptr()` -> ("ptr", block, unit)"""
        unit = 1
        if e[0] == "method" and e[2] == "cast":
            unit = {"__m128i": 16, "__m256i": 32, "u8": 1}.get(e[3])
            if unit is None:
                raise CannotTranslate(f"cast::<{e[3]}>")
            e = e[1]
        if e[0] == "method" and e[2] in ("as_mut_ptr", "as_ptr") and e[1][0] == "var" and self.env.get(e[1][1], ("",))[0] == "block":
            return ("ptr", e[1][1], unit)
        return None

    def vec(self, e):
        k, v = self.ev(e)
        if k != "vec":
            raise CannotTranslate(f"{self.sig.leanname}: vector expected, got {k} in `{e}`")
        return v

    def ev(self, e):
        F = self.F
        if e[0] == "var":
            if e[1] not in self.env:
                raise CannotTranslate(f"{self.sig.leanname}: unknown variable `{e[1]}`")
            v = self.env[e[1]]
            if v[0] == "block":
                return ("block", self.block_value(v[1]))
            return v
        if e[0] == "int":
            return ("int", e[1])
        if e[0] == "field" and e[1][0] == "var" and self.env.get(e[1][1], ("",))[0] == "lutavx":
            if e[2] not in self.tr.lutavx_fields:
                raise CannotTranslate(f"field `{e[2]}` of LutAvx2")
            return ("vec", f"{self.env[e[1][1]][1]}.{e[2]}")
        if e[0] == "tuple":
            vs = [self.ev(x) for x in e[1]]
            return ("tuple", vs)
        if e[0] == "call" and e[1][0] == "var":
            f = e[1][1]
            if f == F["load"]:
                if len(e[2]) != 1:
                    raise CannotTranslate("load arity")
                p = self.ptr_of(e[2][0])
                w = F["width"]
                if p[0] == "lut":
                    if w != 16:
                        raise CannotTranslate("256-bit load from the table")
                    return ("vec", f"(lut{p[1]}F {p[2]})")
                return ("vec", self.load(p[1], p[2], w))
            if f == "_mm_loadu_si128" and self.fam == "Avx2":
                p = self.ptr_of(e[2][0])
                if p[0] != "lut":
                    raise CannotTranslate("128-bit load from a block in Avx2")
                return ("v128", f"(lut{p[1]}F {p[2]})")
            if f in F["intr"]:
                lean, shape = F["intr"][f]
                a = e[2]
                if shape == "b" and len(a) == 1:
                    return ("vec", f"({lean} {self.const(a[0])}#8)")
                if shape == "vv" and len(a) == 2:
                    return ("vec", f"({lean} {self.vec(a[0])} {self.vec(a[1])})")
                if shape == "vn" and len(a) == 2:
                    return ("vec", f"({lean} {self.vec(a[0])} {self.const(a[1])})")
                if shape == "v4" and len(a) == 2:
                    if self.const(a[1]) != 4:
                        raise CannotTranslate(f"{f} with a shift other than 4")
                    return ("vec", f"({lean} {self.vec(a[0])})")
                if shape == "w" and len(a) == 1:
                    k, v = self.ev(a[0])
                    if k != "v128":
                        raise CannotTranslate(f"{f} of a non-128-bit value")
                    return ("vec", f"({lean} {v})")
                raise CannotTranslate(f"arity of {f}")
            if f == "zip":
                return ("zip", [self.iter_of(x) for x in e[2]])
            raise CannotTranslate(f"{self.sig.leanname}: call of `{f}`")
        if e[0] == "call" and e[1][0] == "path":
            path = e[1][1]
            if path == ["usize", "from"] and len(e[2]) == 1:
                k, v = self.ev(e[2][0])
                if k != "u8":
                    raise CannotTranslate("usize::from of a non-u8")
                return ("nat", f"{self.par(v)}.toNat")
            if path in (["GfElement", "from"], ["u16", "from"]) and len(e[2]) == 1:
                k, v = self.ev(e[2][0])
                if k != "u8":
                    raise CannotTranslate("GfElement::from of a non-u8")
                return ("u16", f"{self.par(v)}.setWidth 16")
            if path == ["tables", "mul"] and len(e[2]) == 4 and self.sig.lut == "mulf":
                if e[2][1] != ("var", "log_m") or e[2][2] != ("field", ("var", "self"), "exp") or e[2][3] != ("field", ("var", "self"), "log"):
                    raise CannotTranslate("tables::mul with other than (x, log_m, self.exp, self.log)")
                k, v = self.ev(e[2][0])
                if k != "u16":
                    raise CannotTranslate("tables::mul of a non-u16")
                return ("u16", f"mulF {self.par(v)}")
            if path == ["std", "iter", "zip"]:
                return ("zip", [self.iter_of(x) for x in e[2]])
            if path == ["LutAvx2", "from"] and len(e[2]) == 1 and self.ev(e[2][0])[0] == "lut":
                return ("lutavx", "(Avx2_from lutLoF lutHiF)")
            if path[0] == "Self" and len(path) == 2:
                return self.call(self.fam, path[1], e[2])
            if path[0] == "utils" and len(path) == 2:
                return self.call("Utils", path[1], e[2])
            raise CannotTranslate(f"{self.sig.leanname}: call of `{'::'.join(path)}`")
        if e[0] == "method" and e[1] == ("var", "self"):
            return self.call(self.fam, e[2], e[4])
        if e[0] == "ref":
            # `&self.mul128[log_m as usize]` / `&self.mul16[log_m as usize]`
            x = e[1]
            if x[0] == "index" and x[1][0] == "field" and x[1][1] == ("var", "self") and x[2] == ("cast", ("var", "log_m"), "usize"):
                tbl = x[1][2]
                if tbl == "mul128" and self.sig.lut == "lut128":
                    return ("lut",)
                if tbl == "mul16" and self.sig.lut == "lut16":
                    return ("lut16",)
            return self.ev(x)
        if e[0] == "index":
            base, idx = e[1], e[2]
            # lut[k][n]
            if base[0] == "index" and base[1][0] == "var" and self.env.get(base[1][1], ("",))[0] == "lut16":
                k, v = self.ev(idx)
                if k != "nat":
                    raise CannotTranslate("table index that is not a usize")
                return ("u16", f"lut16F {self.const(base[2])} {v}")
            if base[0] == "var" and self.env.get(base[1], ("",))[0] == "view":
                _, blk, off = self.env[base[1]]
                i = self.nat(idx)
                pos = i if off == 0 else f"({i} + {off})"
                return ("u8", f"{self.blocks[blk]['cur']}.toArray.getD {pos} 0#8")
            if base[0] == "var" and self.env.get(base[1], ("",))[0] == "block":
                return ("u8", f"{self.blocks[base[1]]['cur']}.toArray.getD {self.nat(idx)} 0#8")
            raise CannotTranslate(f"{self.sig.leanname}: index expression `{e}`")
        if e[0] == "bin":
            op = e[1]
            ka, a = self.ev(e[2])
            kb, b = self.ev(e[3])
            if op in ("&", "^", "|") and ka in ("u8", "u16") and (kb == ka or kb == "int"):
                bw = {"u8": 8, "u16": 16}[ka]
                bb = f"{b}#{bw}" if kb == "int" else self.par(b)
                return (ka, f"{self.par(a)} {'&&&' if op == '&' else '^^^' if op == '^' else '|||'} {bb}")
            if op == "<<" and ka == "u16" and kb == "int":
                return (ka, f"{self.par(a)} <<< {b}")
            if op == ">>" and ka in ("u8", "u16") and kb == "int":
                return (ka, f"{self.par(a)} >>> {b}")
            raise CannotTranslate(f"{self.sig.leanname}: `{ka} {op} {kb}`")
        if e[0] == "cast":
            k, v = self.ev(e[1])
            if k == "u16" and e[2] == "u8":
                return ("u8", f"{self.par(v)}.setWidth 8")
            raise CannotTranslate(f"cast of {k} to {e[2]}")
        if e[0] == "deref":
            return self.ev(e[1])
        raise CannotTranslate(f"{self.sig.leanname}: expression `{e[0]}`")

    @staticmethod
    def par(s):
        s = s.strip()
        if re.fullmatch(r"[A-Za-z_0-9.#]+", s) or (s.startswith("(") and s.endswith(")") and Fn.balanced(s[1:-1])):
            return s
        return f"({s})"

    @staticmethod
    def balanced(s):
        d = 0
        for c in s:
            if c == "(":
                d += 1
            if c == ")":
                d -= 1
                if d < 0:
                    return False
        return d == 0

    def nat(self, e):
        if e[0] == "var" and self.env.get(e[1], ("",))[0] == "nat":
            return self.env[e[1]][1]
        if e[0] == "int":
            return str(e[1])
        if e[0] == "bin" and e[1] == "+" and e[3][0] == "int":
            return f"({self.nat(e[2])} + {e[3][1]})"
        raise CannotTranslate(f"{self.sig.leanname}: index `{e}`")

    def load(self, blk, off, w):
        b = self.blocks[blk]
        if off % w != 0 or off + w > 64:
            raise CannotTranslate(f"{self.sig.leanname}: load at byte offset {off} (width {w})")
        k = off // w
        if b["stores"]:
            if b["w"] != w:
                raise CannotTranslate("mixed access widths")
            if k in b["stores"]:
                return b["stores"][k]
        return f"({'blockQuarter' if w == 16 else 'blockHalf'} {b['cur']} {k})"

    def store(self, blk, off, w, v):
        b = self.blocks[blk]
        if off % w != 0 or off + w > 64:
            raise CannotTranslate(f"{self.sig.leanname}: store at byte offset {off} (width {w})")
        if b["stores"] and b["w"] != w:
            raise CannotTranslate("mixed access widths")
        b["w"] = w
        b["stores"][off // w] = v

    def iter_of(self, e):
        """`x.iter_mut()` / `y.iter()` -> (kind, rustname, mutable)"""
        if e[0] == "method" and e[2] in ("iter_mut", "iter") and not e[4] and e[1][0] == "var":
            v = self.env.get(e[1][1])
            if v and v[0] in ("list", "block"):
                return (v[0], e[1][1], e[2] == "iter_mut")
        raise CannotTranslate(f"{self.sig.leanname}: iterator `{e}`")

    def call(self, fam, name, args):
        sig = self.tr.sigs.get((fam, name))
        if sig is None:
            raise CannotTranslate(f"{self.sig.leanname}: call of untranslated `{fam}::{name}`")
        if len(args) != len(sig.params):
            raise CannotTranslate(f"arity of {fam}::{name}")
        lean_args, outs = [], []
        for a, (pn, pk, mutb) in zip(args, sig.params):
            if pk in ("lut", "logm"):
                want = "lut" if pk == "lut" else "logm"
                if not (a[0] == "var" and self.env.get(a[1], ("",))[0] in ((want,) if want == "logm" else ("lut", "lut16"))):
                    raise CannotTranslate(f"{self.sig.leanname}: `{fam}::{name}` called with another table / log_m")
                continue
            if pk == "lutavx":
                k, v = self.ev(a)
                if k != "lutavx":
                    raise CannotTranslate("LutAvx2 argument")
                lean_args.append(v)
                continue
            if pk == "vec":
                lean_args.append(self.vec(a))
                continue
            if pk in ("mlist", "list", "mblock", "block"):
                want = "list" if pk in ("mlist", "list") else "block"
                if a[0] != "var" or self.env.get(a[1], ("",))[0] != want:
                    raise CannotTranslate(f"{self.sig.leanname}: argument `{a}` of {fam}::{name} is not a {want}")
                lean_args.append(self.block_value(a[1]))
                if pk in ("mlist", "mblock"):
                    outs.append(a[1])
                continue
            raise CannotTranslate(f"parameter kind {pk}")
        if sig.lut and not self.sig.lut and not any(v[0] == "lut" for v in self.env.values()):
            raise CannotTranslate(f"{self.sig.leanname}: callee needs a table")
        term = f"{sig.leanname} {sig.lean_lut_args()}{' '.join(lean_args)}".strip()
        if sig.ret == "vecpair":
            return ("tuple2", f"({term})")
        # procedures: update the mutable arguments
        if len(outs) != len(sig.outs):
            raise CannotTranslate("mutable arguments")
        if len(outs) == 1:
            r = self.fresh(outs[0])
            self.lines.append(f"let {r} := {term}")
            self.block_set(outs[0], r)
        elif len(outs) == 2:
            if outs[0] == outs[1]:
                raise CannotTranslate("the same buffer passed twice")
            r = self.fresh("r")
            self.lines.append(f"let {r} := {term}")
            self.block_set(outs[0], f"{r}.1")
            self.block_set(outs[1], f"{r}.2")
        elif outs:
            raise CannotTranslate("more than two mutable arguments")
        return ("unit",)

    # ---- statements
    def run(self, stmts):
        for s in stmts:
            self.stmt(s)

    def stmt(self, s):
        F = self.F
        kind = s[0]
        if kind == "let":
            pat, e = s[1], s[2]
            if e is None:
                # `let mut prod_lo: __m128i;` — declared, assigned later
                if pat[0] != "name":
                    raise CannotTranslate("declaration pattern")
                self.env[pat[1]] = ("undef",)
                return
            # pointers
            p = self.mkptr(e)
            if p and pat[0] == "name":
                self.env[pat[1]] = p
                return
            # split views
            if e[0] == "method" and e[2] in ("split_at_mut", "split_at") and e[1][0] == "var" and self.env.get(e[1][1], ("",))[0] == "block":
                if pat[0] != "tuple" or len(pat[1]) != 2 or self.const(e[4][0]) != 32:
                    raise CannotTranslate("split_at other than 32 into two names")
                self.env[pat[1][0][1]] = ("view", e[1][1], 0)
                self.env[pat[1][1][1]] = ("view", e[1][1], 32)
                return
            v = self.ev(e)
            self.bindpat(pat, v)
            return
        if kind == "assign":
            lhs, e = s[1], s[2]
            if lhs[0] == "index" and lhs[1][0] == "var" and self.byte_base(lhs[1][1]):
                blk, off = self.byte_base(lhs[1][1])
                k, v = self.ev(e)
                if k != "u8":
                    raise CannotTranslate("byte store of a non-u8")
                self.setbyte(blk, off, self.nat(lhs[2]), v)
                return
            v = self.ev(e)
            if lhs[0] == "var":
                self.bindpat(("name", lhs[1]), v, rebinding=True)
            elif lhs[0] == "tuple" and all(x[0] == "var" for x in lhs[1]):
                self.bindpat(("tuple", [("name", x[1]) for x in lhs[1]]), v, rebinding=True)
            else:
                raise CannotTranslate(f"{self.sig.leanname}: assignment target `{lhs}`")
            return
        if kind == "opassign":
            lhs, op, e = s[1], s[2], s[3]
            if op != "^":
                raise CannotTranslate(f"`{op}=`")
            if lhs[0] == "index" and lhs[1][0] == "var" and self.byte_base(lhs[1][1]):
                blk, off = self.byte_base(lhs[1][1])
                k, v = self.ev(e)
                if k != "u8":
                    raise CannotTranslate("byte store of a non-u8")
                i = self.nat(lhs[2])
                pos = i if off == 0 else f"({i} + {off})"
                cur = f"{self.blocks[blk]['cur']}.toArray.getD {pos} 0#8"
                self.setbyte(blk, off, i, f"{cur} ^^^ {v}")
                return
            raise CannotTranslate(f"{self.sig.leanname}: `^=` on `{lhs}`")
        if kind == "expr":
            e = s[1]
            if e[0] == "call" and e[1][0] == "var" and e[1][1] == F["store"]:
                if len(e[2]) != 2:
                    raise CannotTranslate("store arity")
                p = self.ptr_of(e[2][0])
                if p[0] != "blk":
                    raise CannotTranslate("store into the table")
                self.store(p[1], p[2], F["width"], self.vec(e[2][1]))
                return
            r = self.ev(e)
            if r != ("unit",):
                raise CannotTranslate(f"{self.sig.leanname}: value of an expression statement dropped")
            return
        if kind == "for":
            self.forloop(s)
            return
        if kind == "tail":
            self.tail = self.ev(s[1])
            return
        raise CannotTranslate(f"statement `{kind}`")

    def byte_base(self, name):
        v = self.env.get(name, ("",))
        if v[0] == "view":
            return v[1], v[2]
        if v[0] == "block":
            return name, 0
        return None

    def setbyte(self, blk, off, i, v):
        pos = i if off == 0 else f"({i} + {off})"
        b = self.blocks[blk]
        n = self.fresh(blk)
        self.lines.append(f"let {n} := {b['cur']}.setIfInBounds {pos} ({v})")
        b["cur"] = n

    def bindpat(self, pat, v, rebinding=False):
        if pat[0] == "name":
            if rebinding and pat[1] not in self.env:
                raise CannotTranslate(f"assignment to undeclared `{pat[1]}`")
            if v[0] in ("vec", "u8", "u16", "nat", "v128"):
                self.bind(pat[1], v[1], v[0])
            elif v[0] in ("lut", "lut16", "logm"):
                self.env[pat[1]] = v
            elif v[0] == "lutavx":
                self.bind(pat[1], v[1], "lutavx")
            else:
                raise CannotTranslate(f"{self.sig.leanname}: cannot bind `{pat[1]}` to {v[0]}")
            return
        names = [p[1] for p in pat[1]]
        if rebinding and any(n not in self.env for n in names):
            raise CannotTranslate("assignment to undeclared variables")
        if v[0] == "tuple2" and len(names) == 2:
            r = self.fresh("p")
            self.lines.append(f"let {r} := {v[1]}")
            self.bind(names[0], f"{r}.1", "vec")
            self.bind(names[1], f"{r}.2", "vec")
            return
        if v[0] == "tuple" and len(v[1]) == len(names):
            for n, x in zip(names, v[1]):
                self.bindpat(("name", n), x, rebinding)
            return
        raise CannotTranslate(f"{self.sig.leanname}: tuple pattern against {v[0]}")

    def forloop(self, s):
        _, pat, it, body = s
        # for i in 0..32 { … }   (bytes of one block)
        if it[0] == "range":
            raise CannotTranslate("range")
        k = self.ev(it) if it[0] == "call" else None
        if k and k[0] == "zip":
            its = k[1]
            if pat[0] != "tuple" or len(pat[1]) != len(its) or len(its) != 2:
                raise CannotTranslate("zip pattern")
            (k0, n0, m0), (k1, n1, m1) = its
            if not m0:
                raise CannotTranslate("first zip component is not iter_mut")
            a, b = pat[1][0][1], pat[1][1][1]
            if k0 == "list" and k1 == "list":
                sub = Fn(self.tr, self.fam, self.sig, "block")
                sub.blocks = {}
                sub.env = {kk: vv for kk, vv in self.env.items() if vv[0] in ("lut", "lut16", "logm", "lutavx")}
                sub.block_init(a, a)
                sub.block_init(b, b)
                sub.run(body)
                ra = sub.block_value(a)
                rb = sub.block_value(b) if m1 else None
                if not m1 and (sub.blocks[b]["cur"] != b):
                    raise CannotTranslate("immutable chunk modified")
                fn = f"fun ({a} {b} : Block) =>\n      " + "\n      ".join(sub.lines + [f"({ra}, {rb})" if m1 else ra])
                x0, y0 = self.block_value(n0), self.block_value(n1)
                if m1:
                    r = self.fresh("r")
                    self.lines.append(f"let {r} := zipUpd2 ({fn}) {x0} {y0}")
                    self.block_set(n0, f"{r}.1")
                    self.block_set(n1, f"{r}.2")
                else:
                    r = self.fresh(n0)
                    self.lines.append(f"let {r} := zipUpd1 ({fn}) {x0} {y0}")
                    self.block_set(n0, r)
                return
            if k0 == "block" and k1 == "block" and not m1:
                # for (x, y) in zip(x_chunk.iter_mut(), y_chunk.iter()) { *x ^= y; }
                if len(body) == 1 and body[0][0] == "opassign" and body[0][1] == ("deref", ("var", a)) and body[0][2] == "^" and body[0][3] == ("var", b):
                    r = self.fresh(n0)
                    self.lines.append(f"let {r} := Vector.zipWith (fun {a} {b} => {a} ^^^ {b}) {self.block_value(n0)} {self.block_value(n1)}")
                    self.block_set(n0, r)
                    return
                raise CannotTranslate("byte loop body other than `*x ^= y`")
            raise CannotTranslate("zip of unsupported things")
        if it[0] == "method" and it[2] == "iter_mut" and pat[0] == "name":
            kk, n0, m0 = self.iter_of(it)
            if kk != "list":
                raise CannotTranslate("iter_mut of a non-list")
            a = pat[1]
            sub = Fn(self.tr, self.fam, self.sig, "block")
            sub.blocks = {}
            sub.env = {k2: vv for k2, vv in self.env.items() if vv[0] in ("lut", "lut16", "logm", "lutavx")}
            sub.block_init(a, a)
            sub.run(body)
            ra = sub.block_value(a)
            fn = f"fun ({a} : Block) =>\n      " + "\n      ".join(sub.lines + [ra])
            r = self.fresh(n0)
            self.lines.append(f"let {r} := List.map ({fn}) {self.block_value(n0)}")
            self.block_set(n0, r)
            return
        if it[0] == "rangeexpr":
            pass
        raise CannotTranslate(f"{self.sig.leanname}: `for` over `{it}`")


class P2(KP):
    """adds `lo..hi` ranges in `for` headers"""

    def expr(self, nostruct=False, level=0):
        e = super().expr(nostruct, level)
        if level == 0 and self.at(".."):
            self.eat()
            hi = super().expr(nostruct, 0)
            return ("range", e, hi)
        return e


def for_range(fn, s):
    """`for i in 0..32 { body }` over the bytes of the mutable block(s) touched by body"""
    _, pat, it, body = s
    lo, hi = fn.const(it[1]), fn.const(it[2])
    if lo != 0 or pat[0] != "name":
        raise CannotTranslate("byte loop that does not start at 0")
    i = pat[1]
    # find which block the body writes
    written = set()
    for st in body:
        if st[0] in ("assign", "opassign") and st[1][0] == "index" and st[1][1][0] == "var" and fn.byte_base(st[1][1][1]):
            written.add(fn.byte_base(st[1][1][1])[0])
    if len(written) != 1:
        raise CannotTranslate("byte loop writing to other than exactly one chunk")
    blk = written.pop()
    start = fn.block_value(blk)
    sub = Fn(fn.tr, fn.fam, fn.sig, "bytes")
    sub.blocks = {k: dict(v) for k, v in fn.blocks.items()}
    sub.blocks[blk] = {"cur": blk, "stores": {}, "w": None}
    sub.env = dict(fn.env)
    sub.env[i] = ("nat", i)
    sub.run(body)
    for k, v in sub.blocks.items():
        if k != blk and v["cur"] != fn.blocks[k]["cur"]:
            raise CannotTranslate("second chunk modified in a byte loop")
    r = fn.fresh(blk)
    fn.lines.append(f"let {r} := (List.range {hi}).foldl (fun ({blk} : Block) ({i} : Nat) =>\n      " + "\n      ".join(sub.lines + [sub.blocks[blk]["cur"]]) + f") {start}")
    fn.block_set(blk, r)


_orig_forloop = Fn.forloop


def _forloop(self, s):
    if s[2][0] == "range":
        return for_range(self, s)
    return _orig_forloop(self, s)


Fn.forloop = _forloop


class Translator:
    def __init__(self, repo):
        self.repo = repo
        self.sigs = {}
        self.out = []
        self.lutavx_fields = []

    def run(self):
        order = ["Utils", "Ssse3", "Avx2", "Neon", "NoSimd", "Naive"]
        for fam in order:
            src = open(f"{self.repo}/{FAM[fam]['file']}").read()
            toks = tokenize(src)
            items = find_items(toks)
            if fam == "Avx2":
                m = re.search(r"struct\s+LutAvx2\s*\{([^}]*)\}", src)
                if not m:
                    raise CannotTranslate("struct LutAvx2 not found")
                fields = re.findall(r"(\w+)\s*:\s*(\w+)\s*,", m.group(1))
                if any(t != "__m256i" for _, t in fields) or not fields:
                    raise CannotTranslate("struct LutAvx2 has fields that are not __m256i")
                self.lutavx_fields = [f for f, _ in fields]
                self.out.append("/-- `struct LutAvx2` -/\nstructure LutAvx2S where\n" + "\n".join(f"  {f} : V256" for f in self.lutavx_fields) + "\n")
            for (hdr, name) in WANTED[fam]:
                cands = [x for x in items if x[1] == name and re.search(hdr, x[0].strip())]
                if len(cands) != 1:
                    raise CannotTranslate(f"{FAM[fam]['file']}: expected exactly one `{name}` in `{hdr}`, found {len(cands)}")
                self.fn(fam, name, cands[0])

    def fn(self, fam, name, item):
        params = split_params(item[2])
        sig = Sig(fam, name, params)
        if fam == "Avx2" and name == "from":
            sig.lut = "lut128"
        body = P2(item[3]).body()
        f = Fn(self, fam, sig, "fn")
        f.blocks = {}
        f.tail = None
        lean_params = []
        for (n, k, mutb) in sig.params:
            if k == "vec":
                f.env[n] = ("vec", n)
                lean_params.append(f"({n} : {FAM[fam]['vec']})")
            elif k == "lut":
                f.env[n] = ("lut",)
            elif k == "logm":
                f.env[n] = ("logm",)
            elif k == "lutavx":
                f.env[n] = ("lutavx", n)
                lean_params.append(f"({n} : LutAvx2S)")
            elif k in ("mblock", "block"):
                f.block_init(n, n)
                lean_params.append(f"({n} : Block)")
            elif k in ("mlist", "list"):
                f.env[n] = ("list", n)
                f.blocks[n] = {"cur": n, "stores": {}, "w": None}
                lean_params.append(f"({n} : List Block)")
        sig.outs = [n for (n, k, _) in sig.params if k in ("mblock", "mlist")]
        # return shape, needed by callers (functions are translated in dependency order)
        if fam == "Avx2" and name == "from":
            # unsafe { Self { f: e, … } }
            if len(body) != 1 or body[0][0] != "tail" or body[0][1][0] != "struct" or body[0][1][1] != ["Self"]:
                raise CannotTranslate("LutAvx2::from is not a single `Self { … }`")
            fields = body[0][1][2]
            if [x for x, _ in fields] != self.lutavx_fields:
                raise CannotTranslate("LutAvx2::from does not list the fields of the struct in order")
            parts = []
            for fn_, e in fields:
                parts.append(f"{fn_} := {f.vec(e)}")
            self.out.append(f"/-- `LutAvx2::from(lut)` -/\ndef Avx2_from (lutLoF lutHiF : Nat → V128) : LutAvx2S :=\n  {{ " + ",\n    ".join(parts) + " }\n")
            return
        sig.ret = None
        self.sigs[(fam, name)] = sig  # recursion is not expected; registering first lets the error message be precise
        f.run(body)
        if f.tail is not None:
            t = f.tail
            if t[0] == "tuple" and len(t[1]) == 2 and all(x[0] == "vec" for x in t[1]) and not sig.outs:
                sig.ret = "vecpair"
                ret_ty = f"{FAM[fam]['vec']} × {FAM[fam]['vec']}"
                result = f"({t[1][0][1]}, {t[1][1][1]})"
            elif t == ("unit",) and sig.outs:
                t = None
            else:
                raise CannotTranslate(f"{fam}::{name}: return value `{t[0]}`")
        if sig.ret is None:
            if not sig.outs:
                raise CannotTranslate(f"{fam}::{name}: no result")
            vals = [f.block_value(n) for n in sig.outs]
            kinds = {n: k for (n, k, _) in sig.params}
            tys = ["List Block" if kinds[n] == "mlist" else "Block" for n in sig.outs]
            ret_ty = " × ".join(tys)
            result = vals[0] if len(vals) == 1 else f"({', '.join(vals)})"
        src = " ".join(t[1] for t in item[3])
        doc = src[:150].replace("/-", "/ -").replace("-/", "- /")
        self.out.append(f"/-- `{fam}::{name}`: `{doc} …` -/\n"
                        f"def {sig.leanname} {sig.lean_lut_params()}{' '.join(lean_params)} : {ret_ty} :=\n  "
                        + "\n  ".join(f.lines + [result]) + "\n")


def main():
    repo = sys.argv[1] if len(sys.argv) > 1 else "/repo"
    out = sys.argv[2] if len(sys.argv) > 2 else "/verif/lean/RSVerif/Gen/SrcKernel.lean"
    tr = Translator(repo)
    try:
        tr.run()
    except CannotTranslate as e:
        print(f"CANNOT-TRANSLATE: {e}")
        return 3
    text = ("/- GENERATED by /verif/translate/rs2lean_kernel.py from the current text of src/engine/engine_{ssse3,avx2,neon,nosimd}.rs\n"
            "   and src/engine/utils.rs — do not edit. -/\n"
            "import RSVerif.Model.RustKernel\n\nset_option linter.unusedVariables false\n\nnamespace RS.SrcK\nopen RS RS.RustK\n\n" +
            "\n".join(tr.out) + "\nend RS.SrcK\n")
    old = None
    try:
        old = open(out).read()
    except OSError:
        pass
    if old != text:
        open(out, "w").write(text)
    print(f"translated {len(tr.sigs)} kernel functions -> {out}" + (" (unchanged)" if old == text else " (CHANGED)"))
    return 0


if __name__ == "__main__":
    sys.exit(main())
