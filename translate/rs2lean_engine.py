#!/usr/bin/env python3
"""rs2lean_engine.py - translator for the transform loop nests of the engines:
  Naive::{fft, ifft}                                   (src/engine/engine_naive.rs)
  {NoSimd, Ssse3, Avx2, Neon}::{fft_private, ifft_private}   with their helpers fft/ifft_butterfly_two_layers inlined
                                                       (src/engine/engine_{nosimd,ssse3,avx2,neon}.rs)

Regenerates /verif/lean/RSVerif/Gen/SrcEngine.lean from the CURRENT Rust text.  A transform becomes a Lean function
  (pos size truncated_size skew_delta : Nat) (skewZ : Nat → Bool) : Option (Array EOp)
that runs the loop nest (nested `while` with their mutable counters, `for`, checked `usize` arithmetic, shifts,
the `log_m == GF_MODULUS` tests as `skewZ idx`, `dist2_mut` / `dist4_mut` / `split_at_mut` views resolved to
shard positions) and RETURNS THE PROGRAM OF SHARD OPERATIONS in order:
  EOp.xor dst src                 utils::xor(dst, src)
  EOp.mulAdd x y idx              x ^= y * skew[idx]                (Naive::mul_add)
  EOp.fftPartial x y idx          fft_butterfly_partial(x, y, skew[idx])
  EOp.ifftPartial x y idx         ifft_butterfly_partial(x, y, skew[idx])
  EOp.xorWithin x y n             utils::xor_within(data, x, y, n)
`none` = usize overflow / underflow, a failed debug_assert!, or loop fuel exhausted.
Anything outside the subset -> exit 3 with `CANNOT-TRANSLATE: …`.
"""
import os
import re
import sys

sys.path.insert(0, os.path.dirname(os.path.abspath(__file__)))
from rs2lean import tokenize, find_items, CannotTranslate, USIZE  # noqa: E402

FUEL = 70000


# ---------------------------------------------------------------- parser
class P:
    def __init__(self, toks):
        self.t = toks
        self.i = 0

    def peek(self, o=0):
        return self.t[self.i + o] if self.i + o < len(self.t) else ("eof", "")

    def at(self, v, o=0):
        k, x = self.peek(o)
        return k != "eof" and x == v

    def eat(self, v=None):
        k, x = self.peek()
        if k == "eof":
            raise CannotTranslate(f"unexpected end of input (expected {v!r})")
        if v is not None and x != v:
            raise CannotTranslate(f"expected {v!r}, found {x!r}")
        self.i += 1
        return x

    def block(self):
        self.eat("{")
        b = self.block_body()
        self.eat("}")
        return b

    def compound_op(self):
        """`+=`, `-=`, `*=`, `/=`, `>>=`, `<<=` at the cursor -> operator string (consumed) or None"""
        for op in (">>", "<<"):
            # the tokenizer yields `>` `>=` for `>>=`
            if self.at(op[0]) and self.at(op[1] + "=", 1):
                self.i += 2
                return op
        for op in ("+", "-", "*", "/"):
            if self.at(op) and self.at("=", 1):
                self.i += 2
                return op
        return None

    def block_body(self):
        stmts = []
        while not self.at("}") and self.peek()[0] != "eof":
            if self.at("#"):
                # attribute on a statement (`#[cfg(feature = "verif-hooks")]` + the statement it guards)
                self.eat()
                self.eat("[")
                d = 1
                while d:
                    x = self.eat()
                    d += (x == "[") - (x == "]")
                e = self.expr()
                self.eat(";")
                continue
            if self.at("let"):
                self.eat()
                if self.at("("):
                    self.eat()
                    names = []
                    while not self.at(")"):
                        if self.at("mut"):
                            self.eat()
                        names.append(self.eat())
                        if self.at(","):
                            self.eat()
                    self.eat(")")
                    self.eat("=")
                    e = self.expr()
                    self.eat(";")
                    stmts.append(("lettuple", names, e))
                    continue
                mut = False
                if self.at("mut"):
                    self.eat()
                    mut = True
                name = self.eat()
                self.eat("=")
                e = self.expr()
                self.eat(";")
                stmts.append(("letmut" if mut else "let", name, e))
            elif self.at("while"):
                self.eat()
                c = self.expr(nostruct=True)
                stmts.append(("while", c, self.block()))
            elif self.at("for"):
                self.eat()
                v = self.eat()
                self.eat("in")
                r = self.expr(nostruct=True)
                if r[0] != "range" or r[1] is None or r[2] is None:
                    raise CannotTranslate("`for` over something other than a..b")
                stmts.append(("for", v, r[1], r[2], self.block()))
            elif (self.at("debug_assert") or self.at("assert")) and self.at("!", 1):
                self.eat()
                self.eat("!")
                self.eat("(")
                e = self.expr()
                self.eat(")")
                self.eat(";")
                stmts.append(("assert", e))
            elif self.at("unsafe"):
                self.eat()
                stmts.append(("block", self.block()))
            else:
                e = self.expr()
                op = self.compound_op()
                if op is not None:
                    rhs = self.expr()
                    self.eat(";")
                    stmts.append(("assign", e, op, rhs))
                elif self.at("="):
                    self.eat()
                    rhs = self.expr()
                    self.eat(";")
                    stmts.append(("assign", e, "", rhs))
                elif e[0] == "if":
                    if self.at(";"):
                        self.eat()
                    stmts.append(("if", e[1], e[2], e[3]))
                elif self.at(";"):
                    self.eat()
                    stmts.append(("exprstmt", e))
                elif self.at("}") or self.peek()[0] == "eof":
                    stmts.append(("exprstmt", e))
                else:
                    raise CannotTranslate(f"unexpected token {self.peek()[1]!r} after expression")
        return stmts

    LEVELS = [("..",), ("||",), ("&&",), ("==", "!=", "<", ">", "<=", ">="), ("|",), ("^",), ("&",), ("<<", ">>"), ("+", "-"), ("*", "/", "%")]

    def op_at(self, level):
        ops = self.LEVELS[level]
        k, v = self.peek()
        if k != "op":
            return None
        # two-character shifts are two tokens
        if v in ("<", ">") and self.at(v + "=", 1):
            return None          # `>>=` / `<<=`: a statement
        if v in ("<", ">") and self.at(v, 1):
            return (v + v) if (v + v) in ops else None
        if v in ops:
            if v in ("+", "-", "*", "/") and self.at("=", 1):
                return None      # compound assignment
            if v in ("<", ">") and (self.at(v, 1)):
                return None
            return v
        return None

    def expr(self, level=0, nostruct=False):
        if level == len(self.LEVELS):
            return self.unary(nostruct)
        lhs = self.expr(level + 1, nostruct)
        while True:
            op = self.op_at(level)
            if op is None:
                return lhs
            self.i += 2 if op in ("<<", ">>") else 1
            if op == "..":
                if self.at(")") or self.at("]") or self.at(",") or self.at("{"):
                    return ("range", lhs, None)
                return ("range", lhs, self.expr(level + 1, nostruct))
            rhs = self.expr(level + 1, nostruct)
            lhs = ("bin", op, lhs, rhs)
            if level == 3:
                return lhs

    def unary(self, nostruct):
        if self.at("!"):
            self.eat()
            return ("not", self.unary(nostruct))
        if self.at("&"):
            self.eat()
            if self.at("mut"):
                self.eat()
            return self.unary(nostruct)
        return self.postfix(self.primary(nostruct))

    def postfix(self, e):
        while True:
            if self.at(".") and self.peek(1)[0] == "id":
                self.eat()
                m = self.eat()
                if self.at("("):
                    e = ("method", m, e, self.args())
                else:
                    e = ("field", e, m)
            elif self.at("["):
                self.eat()
                i = self.expr()
                self.eat("]")
                e = ("index", e, i)
            else:
                return e

    def args(self):
        self.eat("(")
        a = []
        while not self.at(")"):
            a.append(self.expr())
            if self.at(","):
                self.eat()
        self.eat(")")
        return a

    def primary(self, nostruct):
        k, v = self.peek()
        if k == "int":
            self.eat()
            return ("int", int(re.sub(r"[a-z].*$", "", v.replace("_", ""))))
        if v == "(":
            self.eat()
            e = self.expr()
            self.eat(")")
            return e
        if v == "if":
            self.eat()
            c = self.expr(nostruct=True)
            t = self.block()
            el = None
            if self.at("else"):
                self.eat()
                el = [("if",) + self.primary(False)[1:]] if self.at("if") else self.block()
            return ("if", c, t, el)
        if k == "id":
            path = [self.eat()]
            while self.at("::"):
                self.eat()
                path.append(self.eat())
            name = "::".join(path)
            if self.at("("):
                return ("call", name, self.args())
            return ("var", name)
        raise CannotTranslate(f"unexpected token {v!r}")


# ---------------------------------------------------------------- translation
class Tr:
    def __init__(self, helpers, consts):
        self.helpers = helpers      # name -> (param names, body stmts)
        self.consts = consts
        self.fresh = 0

    def new(self, base):
        self.fresh += 1
        return f"{base}_{self.fresh}"

    # env values: ("nat", leanterm) | ("skew", idxterm) | ("pos", leanterm) | ("view", offsetterm) | ("mutnat", leanterm)
    def nat(self, e, env, k):
        t = e[0]
        if t == "int":
            return k(str(e[1]))
        if t == "var":
            n = e[1]
            if n in env:
                kind, v = env[n]
                if kind in ("nat", "mutnat"):
                    return k(v)
                raise CannotTranslate(f"`{n}` used as a number but is a {kind}")
            if n in self.consts:
                return k(str(self.consts[n]))
            raise CannotTranslate(f"unknown name `{n}`")
        if t == "bin":
            op = e[1]
            return self.nat(e[2], env, lambda a: self.nat(e[3], env, lambda b: self.arith(op, a, b, e[3], k)))
        raise CannotTranslate(f"expression `{t}` in a number")

    def arith(self, op, a, b, rhs_ast, k):
        if op == "+":
            return f"if {a} + {b} < {USIZE} then {k(f'({a} + {b})')} else none"
        if op == "-":
            return f"if {b} ≤ {a} then {k(f'({a} - {b})')} else none"
        if op == "*":
            return f"if {a} * {b} < {USIZE} then {k(f'({a} * {b})')} else none"
        if op in ("/", "%"):
            return f"if {b} = 0 then none else {k(f'({a} {op} {b})')}"
        if op == ">>" and rhs_ast[0] == "int":
            return k(f"({a} / {2 ** rhs_ast[1]})")
        if op == "<<" and rhs_ast[0] == "int":
            m = 2 ** rhs_ast[1]
            return f"if {a} * {m} < {USIZE} then {k(f'({a} * {m})')} else none"
        raise CannotTranslate(f"operator `{op}`")

    def cond(self, e, env, T, F):
        t = e[0]
        if t == "not":
            return self.cond(e[1], env, F, T)
        if t == "bin":
            op = e[1]
            if op == "&&":
                return self.cond(e[2], env, self.cond(e[3], env, T, F), F)
            if op == "||":
                return self.cond(e[2], env, T, self.cond(e[3], env, T, F))
            if op in ("==", "!="):
                # log_m == GF_MODULUS
                for x, y in ((e[2], e[3]), (e[3], e[2])):
                    if x[0] == "var" and x[1] in env and env[x[1]][0] == "skew" and y == ("var", "GF_MODULUS"):
                        idx = env[x[1]][1]
                        yes, no = (T, F) if op == "==" else (F, T)
                        return f"if skewZ {idx} = true then {yes} else {no}"
            if op in ("==", "!=", "<", ">", "<=", ">="):
                lop = {"==": "=", "!=": "≠", "<=": "≤", ">=": "≥"}.get(op, op)
                return self.nat(e[2], env, lambda a: self.nat(e[3], env, lambda b: f"if {a} {lop} {b} then {T} else {F}"))
        if t == "method" and e[1] == "is_power_of_two" and not e[3]:
            return self.nat(e[2], env, lambda a: f"if {a} ≠ 0 ∧ npow2 {a} = {a} then {T} else {F}")
        raise CannotTranslate(f"condition `{t}`")

    def shard(self, e, env, k):
        """expression denoting one shard (a `&mut [[u8; 64]]`) -> k(position term)"""
        if e[0] == "var" and e[1] in env and env[e[1]][0] == "pos":
            return k(env[e[1]][1])
        if e[0] == "index" and e[1][0] == "var" and e[1][1] in env and env[e[1][1]][0] == "view":
            off = env[e[1][1]][1]
            return self.nat(e[2], env, lambda i: k(f"({off} + {i})") if off != "0" else k(i))
        raise CannotTranslate("shard expression")

    def skewidx(self, e, env, k):
        if e[0] == "var" and e[1] in env and env[e[1]][0] == "skew":
            return k(env[e[1]][1])
        raise CannotTranslate("a log_m argument that is not a skew-table entry")

    def push(self, op, env, k):
        n = self.new("ops")
        env2 = dict(env)
        env2["ops"] = ("ops", n)
        return f"let {n} := {env['ops'][1]}.push ({op}); {k(env2)}"

    def stmts(self, stmts, env, fin):
        if not stmts:
            return fin(env)
        s, rest = stmts[0], stmts[1:]
        kind = s[0]
        go = lambda env2: self.stmts(rest, env2, fin)   # noqa: E731
        if kind == "assert":
            return self.cond(s[1], env, go(env), "none")
        if kind == "block":
            return self.stmts(s[1] + rest, env, fin)
        if kind in ("let", "letmut"):
            name, e = s[1], s[2]
            # let log_m = self.skew[idx];
            if e[0] == "index" and e[1] == ("field", ("var", "self"), "skew"):
                def bind(v):
                    n = self.new(name + "_idx")
                    env2 = dict(env)
                    env2[name] = ("skew", n)
                    return f"let {n} := {v}; {go(env2)}"
                return self.nat(e[2], env, bind)

            def bindn(v):
                n = self.new(name)
                env2 = dict(env)
                env2[name] = ("mutnat" if kind == "letmut" else "nat", n)
                return f"let {n} := {v}; {go(env2)}"
            return self.nat(e, env, bindn)
        if kind == "lettuple":
            names, e = s[1], s[2]
            if e[0] == "method" and e[2] == ("var", "data") and e[1] in ("dist2_mut", "dist4_mut") and len(e[3]) == 2:
                cnt = 2 if e[1] == "dist2_mut" else 4
                if len(names) != cnt:
                    raise CannotTranslate(f"{e[1]} bound to {len(names)} names")

                def bindp(p, d):
                    env2 = dict(env)
                    out = ""
                    for j, nm in enumerate(names):
                        n = self.new(nm)
                        term = p if j == 0 else (f"({p} + {d})" if j == 1 else f"({p} + {j} * {d})")
                        out += f"let {n} := {term}; "
                        env2[nm] = ("pos", n)
                    return out + go(env2)
                return self.nat(e[3][0], env, lambda p: self.nat(e[3][1], env, lambda d: bindp(p, d)))
            if e[0] == "method" and e[2] == ("var", "data") and e[1] == "split_at_mut" and len(e[3]) == 1 and len(names) == 2:
                def bindv(m):
                    env2 = dict(env)
                    env2[names[0]] = ("view", "0")
                    n = self.new(names[1] + "_off")
                    env2[names[1]] = ("view", n)
                    return f"let {n} := {m}; {go(env2)}"
                return self.nat(e[3][0], env, bindv)
            raise CannotTranslate("tuple `let` that is not dist2_mut / dist4_mut / split_at_mut of `data`")
        if kind == "assign":
            lhs, op, rhs = s[1], s[2], s[3]
            if lhs[0] == "var" and lhs[1] in env and env[lhs[1]][0] == "mutnat":
                full = rhs if op == "" else ("bin", op, lhs, rhs)

                def upd(v):
                    n = self.new(lhs[1])
                    env2 = dict(env)
                    env2[lhs[1]] = ("mutnat", n)
                    return f"let {n} := {v}; {go(env2)}"
                return self.nat(full, env, upd)
            raise CannotTranslate("assignment to something other than a `let mut` counter")
        if kind == "if":
            c, tb, eb = s[1], s[2], s[3]
            cont = lambda env_in: self.stmts(rest, self.merge(env, env_in), fin)   # noqa: E731
            th = self.stmts(tb, dict(env), cont)
            el = self.stmts(eb, dict(env), cont) if eb is not None else go(env)
            return self.cond(c, env, th, el)
        if kind == "while":
            c, body = s[1], s[2]
            mset = {a[1][1] for a in self.assigned(body) if a[1][0] == "var" and a[1][1] in env and env[a[1][1]][0] == "mutnat"}
            muts = [m for m in env if m in mset]     # declaration order: renaming a counter does not reorder the loop state
            if not muts:
                raise CannotTranslate("`while` that updates no outer `let mut` counter")
            loc = {m: self.new(m) for m in muts}
            ov = self.new("ops")
            pat = "(" + ", ".join(loc[m] for m in muts) + ")" if len(muts) > 1 else loc[muts[0]]
            envc = dict(env)
            for m in muts:
                envc[m] = ("mutnat", loc[m])
            condt = self.cond(c, envc, "some true", "some false")
            envb = dict(envc)
            envb["ops"] = ("ops", ov)
            tup = lambda e2: "(" + ", ".join(e2[m][1] for m in muts) + ")" if len(muts) > 1 else e2[muts[0]][1]   # noqa: E731
            bodyt = self.stmts(body, envb, lambda e2: f"some ({tup(e2)}, {e2['ops'][1]})")
            out = {m: self.new(m) for m in muts}
            o2 = self.new("ops")
            pat2 = "(" + ", ".join(out[m] for m in muts) + ")" if len(muts) > 1 else out[muts[0]]
            env2 = dict(env)
            for m in muts:
                env2[m] = ("mutnat", out[m])
            env2["ops"] = ("ops", o2)
            init = tup(env)
            return (f"(match whileSt {FUEL} (fun {pat} => {condt}) (fun {pat} {ov} => {bodyt}) {init} {env['ops'][1]} with "
                    f"| none => none | some ({pat2}, {o2}) => {go(env2)})")
        if kind == "for":
            v, lo, hi, body = s[1], s[2], s[3], s[4]
            if [a for a in self.assigned(body) if a[1][0] == "var"]:
                raise CannotTranslate("`for` body assigns a local")
            iv, ov = self.new(v), self.new("ops")
            envb = dict(env)
            envb[v] = ("nat", iv)
            envb["ops"] = ("ops", ov)
            bodyt = self.stmts(body, envb, lambda e2: f"some {e2['ops'][1]}")
            o2 = self.new("ops")
            env2 = dict(env)
            env2["ops"] = ("ops", o2)
            return self.nat(lo, env, lambda a: self.nat(hi, env, lambda b:
                            f"(match forRangeE {a} {b} (fun {iv} {ov} => {bodyt}) {env['ops'][1]} with | none => none | some {o2} => {go(env2)})"))
        if kind == "exprstmt":
            e = s[1]
            if e[0] == "call" and e[1] == "utils::xor" and len(e[2]) == 2:
                return self.shard(e[2][0], env, lambda d: self.shard(e[2][1], env, lambda sr: self.push(f"EOp.xor {d} {sr}", env, go)))
            if e[0] == "call" and e[1] == "utils::xor_within" and len(e[2]) == 4 and e[2][0] == ("var", "data"):
                return self.nat(e[2][1], env, lambda x: self.nat(e[2][2], env, lambda y: self.nat(e[2][3], env, lambda n:
                                self.push(f"EOp.xorWithin {x} {y} {n}", env, go))))
            if e[0] == "method" and e[2] == ("var", "self"):
                m, args = e[1], e[3]
                if m == "mul_add" and len(args) == 3:
                    return self.shard(args[0], env, lambda x: self.shard(args[1], env, lambda y: self.skewidx(args[2], env, lambda i:
                                      self.push(f"EOp.mulAdd {x} {y} {i}", env, go))))
                if m in ("fft_butterfly_partial", "ifft_butterfly_partial") and len(args) == 3:
                    c = "fftPartial" if m.startswith("fft") else "ifftPartial"
                    return self.shard(args[0], env, lambda x: self.shard(args[1], env, lambda y: self.skewidx(args[2], env, lambda i:
                                      self.push(f"EOp.{c} {x} {y} {i}", env, go))))
                if m in self.helpers:
                    pnames, body = self.helpers[m]
                    if len(args) != len(pnames):
                        raise CannotTranslate(f"call of {m} with {len(args)} arguments")
                    # inline: bind parameters (data -> data, usize -> evaluated, log_m -> skew entry)
                    def bindargs(j, envh):
                        if j == len(args):
                            envh["ops"] = env["ops"]
                            return self.stmts(body, envh, lambda e2: go(self.merge(env, e2)))
                        pn, a = pnames[j], args[j]
                        if a == ("var", "data"):
                            return bindargs(j + 1, envh)
                        if a[0] == "var" and a[1] in env and env[a[1]][0] == "skew":
                            envh2 = dict(envh)
                            envh2[pn] = env[a[1]]
                            return bindargs(j + 1, envh2)

                        def bn(v):
                            n = self.new(pn)
                            envh2 = dict(envh)
                            envh2[pn] = ("nat", n)
                            return f"let {n} := {v}; {bindargs(j + 1, envh2)}"
                        return self.nat(a, env, bn)
                    return bindargs(0, {})
            raise CannotTranslate(f"statement `{e[0]}` {e[1] if len(e) > 1 else ''}")
        raise CannotTranslate(f"statement `{kind}`")

    def merge(self, outer, inner):
        env = dict(outer)
        env["ops"] = inner["ops"]
        for kx, v in outer.items():
            if v[0] == "mutnat" and kx in inner:
                env[kx] = inner[kx]
        return env

    def assigned(self, stmts):
        out = []
        for s in stmts:
            if s[0] == "assign":
                out.append(s)
            elif s[0] == "if":
                out += self.assigned(s[2]) + (self.assigned(s[3]) if s[3] else [])
            elif s[0] == "while":
                out += self.assigned(s[2])
            elif s[0] == "for":
                out += self.assigned(s[4])
            elif s[0] == "block":
                out += self.assigned(s[1])
        return out


def param_names(params):
    p = P(params)
    names = []
    while p.peek()[0] != "eof":
        if p.at("&"):
            p.eat()
            if p.at("mut"):
                p.eat()
        n = p.eat()
        if n != "self":
            p.eat(":")
            d = 0
            while p.peek()[0] != "eof" and not (p.at(",") and d == 0):
                x = p.eat()
                d += (x in "<([") - (x in ">)]")
            names.append(n)
        if p.at(","):
            p.eat()
    return names


ENGINES = [
    ("Naive", "src/engine/engine_naive.rs", r"impl\s+Engine\s+for\s+Naive$", "fft", "ifft", r"^impl\s+Naive$"),
    ("NoSimd", "src/engine/engine_nosimd.rs", r"^impl\s+NoSimd$", "fft_private", "ifft_private", r"^impl\s+NoSimd$"),
    ("Ssse3", "src/engine/engine_ssse3.rs", r"^impl\s+Ssse3$", "fft_private", "ifft_private", r"^impl\s+Ssse3$"),
    ("Avx2", "src/engine/engine_avx2.rs", r"^impl\s+Avx2$", "fft_private", "ifft_private", r"^impl\s+Avx2$"),
    ("Neon", "src/engine/engine_neon.rs", r"^impl\s+Neon$", "fft_private", "ifft_private", r"^impl\s+Neon$"),
]


def main():
    repo = sys.argv[1] if len(sys.argv) > 1 else "/repo"
    out = sys.argv[2] if len(sys.argv) > 2 else "/verif/lean/RSVerif/Gen/SrcEngine.lean"
    try:
        eng = open(f"{repo}/src/engine.rs").read()
        consts = {}
        for c in ("GF_ORDER", "GF_MODULUS"):
            m = re.search(rf"pub\s+const\s+{c}\s*:\s*[A-Za-z0-9_]+\s*=\s*([0-9_]+)\s*;", eng)
            if not m:
                raise CannotTranslate(f"constant {c} not found in src/engine.rs as a literal")
            consts[c] = int(m.group(1).replace("_", ""))
        parts = []
        for (name, file, ctxre, ffn, ifn, helperre) in ENGINES:
            items = find_items(tokenize(open(f"{repo}/{file}").read()))
            helpers = {}
            for it in items:
                if re.search(helperre, it[0]) and it[1] in ("fft_butterfly_two_layers", "ifft_butterfly_two_layers"):
                    helpers[it[1]] = (param_names(it[2]), P(it[3]).block_body())
            for fn in (ffn, ifn):
                cands = [it for it in items if it[1] == fn and re.search(ctxre, it[0])]
                if len(cands) != 1:
                    raise CannotTranslate(f"{file}: expected exactly one `fn {fn}` in a block matching /{ctxre}/, found {len(cands)}")
                _, _, params, body = cands[0]
                pn = param_names(params)
                if pn != ["data", "pos", "size", "truncated_size", "skew_delta"]:
                    raise CannotTranslate(f"{file}: fn {fn} has parameters {pn}")
                tr = Tr(helpers, consts)
                env = {n: ("nat", n) for n in pn[1:]}
                env["ops"] = ("ops", "ops0")
                term = tr.stmts(P(body).block_body(), env, lambda e2: f"some {e2['ops'][1]}")
                src = " ".join(t[1] for t in body)
                lean = f"{name}_{'fft' if fn.startswith('fft') else 'ifft'}"
                parts.append(f"/-- `{file}`, `fn {fn}`: `{src[:240]} …` -/\n"
                             f"def {lean} (pos size truncated_size skew_delta : Nat) (skewZ : Nat → Bool) : Option (Array EOp) :=\n"
                             f"  let ops0 : Array EOp := #[]; {term}\n")
    except CannotTranslate as e:
        print(f"CANNOT-TRANSLATE: {e}")
        return 3
    text = ("/- GENERATED by /verif/translate/rs2lean_engine.py from the current text of src/engine/engine_{naive,nosimd,ssse3,avx2,neon}.rs\n"
            "   — do not edit.  Each function runs the loop nest of a transform and returns the shard operations it performs,\n"
            "   in order (`none` = usize overflow / underflow, failed debug_assert!, loop fuel exhausted). -/\n"
            "import RSVerif.Model.RustEngine\n\nset_option linter.unusedVariables false\n\nnamespace RS.SrcE\nopen RS.RustE\n\n" +
            "\n".join(parts) + "\nend RS.SrcE\n")
    old = None
    try:
        old = open(out).read()
    except OSError:
        pass
    if old != text:
        open(out, "w").write(text)
    print(f"translated {2 * len(ENGINES)} transforms -> {out}" + (" (unchanged)" if old == text else " (CHANGED)"))
    return 0


if __name__ == "__main__":
    sys.exit(main())
