#!/usr/bin/env python3
"""rs2lean_utils.py - translator for the integer / table code of the engines:

  src/engine/utils.rs   add_mod, sub_mod, eval_poly, formal_derivative, xor_within (delegation), fft_skew_end, ifft_skew_end
  src/engine/fwht.rs    fwht_2, fwht_4, fwht
  src/engine/tables.rs  mul, initialize_exp_log, initialize_log_walsh, initialize_skew

Regenerates /verif/lean/RSVerif/Gen/SrcUtils.lean from the CURRENT Rust text.  Integers are `Nat` with the checked
semantics of their Rust type (u8 / u16 / u32 / usize: `+ - *` out of range = panic = `none`; `wrapping_*`, `as`, shifts
as documented), arrays are `Array Nat` (index out of bounds = `none`), loops are the combinators of
Model/RustUtils.lean (`whileSt` with fuel, `forStep`), a function with `&mut` array parameters returns the new
arrays.  Anything outside the recognised subset -> exit 3 with `CANNOT-TRANSLATE: …`.
"""
import os
import re
import sys

sys.path.insert(0, os.path.dirname(os.path.abspath(__file__)))
from rs2lean import tokenize, CannotTranslate  # noqa: E402
from rs2lean_kernel import KP  # noqa: E402
from rs2lean_shards import find_items  # noqa: E402

BITS = {"u8": 8, "u16": 16, "GfElement": 16, "u32": 32, "usize": 64, "u64": 64}
FUEL = 70000


def norm_ty(t):
    return "u16" if t == "GfElement" else t


class UP(KP):
    """statements: let / assignment / compound assignment / while / for / if; expressions with comparisons, ranges,
    `if` values, array repeat `[v; n]`, Box::new(..)"""

    CMP = ("<=", ">=", "==", "!=", "<", ">")

    def body(self):
        out = []
        while not self.at("}") and self.peek()[0] != "eof":
            if self.at("#"):
                self.eat("#")
                self.eat("[")
                d = 1
                while d:
                    v = self.eat()
                    if v == "[":
                        d += 1
                    if v == "]":
                        d -= 1
                continue
            if self.peek()[0] == "id" and self.peek()[1].startswith("debug_assert") and self.at("!", 1):
                self.eat()
                self.eat("!")
                d = 0
                while True:
                    v = self.eat()
                    if v == "(":
                        d += 1
                    if v == ")":
                        d -= 1
                        if d == 0:
                            break
                self.eat(";")
                continue
            if self.at("let"):
                self.eat()
                pat = self.pattern()
                ty = None
                if self.at(":"):
                    self.eat()
                    t0 = self.i
                    self.skip_type()
                    ty = "".join(x[1] for x in self.t[t0:self.i])
                self.eat("=")
                e = self.cexpr()
                self.eat(";")
                out.append(("let", pat, e, ty))
                continue
            if self.at("while"):
                self.eat()
                c = self.cexpr(True)
                out.append(("while", c, self.block()))
                continue
            if self.at("for"):
                self.eat()
                pat = self.pattern()
                self.eat("in")
                it = self.cexpr(True)
                out.append(("for", pat, it, self.block()))
                continue
            if self.at("if"):
                e = self.cexpr()
                if self.at(";"):
                    self.eat()
                if e[3] is None or not (self.at("}") or self.peek()[0] == "eof"):
                    out.append(("ifstmt", e[1], e[2], e[3]))
                else:
                    out.append(("tail", e))
                continue
            if self.at("return"):
                self.eat()
                if self.at(";"):
                    self.eat()
                    out.append(("return", None))
                else:
                    e = self.cexpr()
                    self.eat(";")
                    out.append(("return", e))
                continue
            e = self.cexpr()
            op = None
            if self.at("="):
                self.eat()
                op = ""
            elif self.at("<") and self.at("<=", 1):
                self.eat()
                self.eat()
                op = "<<"
            elif self.at(">") and self.at(">=", 1):
                self.eat()
                self.eat()
                op = ">>"
            else:
                for cand in ("<<", ">>", "+", "-", "*", "^", "&", "|"):
                    n = len(cand)
                    if all(self.at(cand[j], j) for j in range(n)) and self.at("=", n):
                        for _ in range(n + 1):
                            self.eat()
                        op = cand
                        break
            if op is not None:
                rhs = self.cexpr()
                self.eat(";")
                out.append(("assign", e, op, rhs))
            elif self.at(";"):
                self.eat()
                out.append(("expr", e))
            elif self.at("}") or self.peek()[0] == "eof":
                out.append(("tail", e))
            else:
                raise CannotTranslate(f"unexpected token {self.peek()[1]!r} after expression")
        return out

    def binop_at(self):
        # not a compound assignment
        for cand in ("<<", ">>"):
            if all(self.at(cand[j], j) for j in range(2)):
                if self.at("=", 2):
                    return None, 0
                return cand, 2
        v = self.peek()[1]
        if self.peek()[0] == "op" and v in ("|", "^", "&", "+", "-", "*") and not self.at("=", 1):
            return v, 1
        return None, 0

    def cexpr(self, nostruct=False):
        """comparison / range level"""
        if self.at(".."):
            self.eat()
            return ("range", None, self.expr(nostruct), False)
        a = self.expr(nostruct)
        if self.at("..="):
            self.eat()
            return ("range", a, self.expr(nostruct), True)
        if self.at(".."):
            self.eat()
            if self.at("]") or self.at(")"):
                return ("range", a, None, False)
            return ("range", a, self.expr(nostruct), False)
        for op in self.CMP:
            if self.at(op) and not (op in ("<", ">") and (self.at(op, 1) or self.at(op + "=", 1))):
                self.eat()
                return ("cmp", op, a, self.expr(nostruct))
        return a

    def args(self):
        self.eat("(")
        a = []
        while not self.at(")"):
            a.append(self.cexpr())
            if self.at(","):
                self.eat()
        self.eat(")")
        return a

    def postfix(self, e):
        while True:
            if self.at(".") and self.peek(1)[0] in ("id", "int"):
                self.eat()
                m = self.eat()
                tf = self.turbofish()
                if self.at("("):
                    e = ("method", e, m, tf, self.args())
                else:
                    e = ("field", e, m)
            elif self.at("["):
                self.eat()
                i = self.cexpr()
                self.eat("]")
                e = ("index", e, i)
            elif self.at("("):
                e = ("call", e, self.args())
            else:
                return e

    def primary(self, nostruct):
        k, v = self.peek()
        if v == "if" and k == "id":
            self.eat()
            c = self.cexpr(True)
            t = self.block()
            el = None
            if self.at("else"):
                self.eat()
                el = self.block()
            return ("if", c, t, el)
        if k == "id" and v[0].isupper() and self.at("{", 1) and not nostruct:
            name = self.eat()
            self.eat("{")
            fields = []
            while not self.at("}"):
                f = self.eat()
                if self.at(":"):
                    self.eat()
                    fields.append((f, self.cexpr()))
                else:
                    fields.append((f, ("var", f)))
                if self.at(","):
                    self.eat()
            self.eat("}")
            return ("struct", [name], fields)
        if v == "[" and k == "op":
            self.eat()
            a = self.cexpr()
            self.eat(";")
            b = self.cexpr()
            self.eat("]")
            return ("arrayrep", a, b)
        if v == "(" and k == "op":
            self.eat()
            items = []
            while not self.at(")"):
                items.append(self.cexpr())
                if self.at(","):
                    self.eat()
            self.eat(")")
            return items[0] if len(items) == 1 else ("tuple", items)
        return super().primary(nostruct)


def assigned(stmts, acc=None):
    """names assigned (or indexed-assigned, or passed as first `&mut`-style argument) anywhere inside"""
    acc = set() if acc is None else acc
    for s in stmts:
        if s[0] == "assign":
            t = s[1]
            while t[0] in ("index", "deref"):
                t = t[1]
            if t[0] == "var":
                acc.add(t[1])
        elif s[0] in ("while",):
            assigned(s[2], acc)
        elif s[0] == "for":
            assigned(s[3], acc)
        elif s[0] == "ifstmt":
            assigned(s[2], acc)
            if s[3]:
                assigned(s[3], acc)
        elif s[0] == "expr":
            e = s[1]
            if e[0] == "call":
                for a in e[2]:
                    x = a
                    while x[0] in ("ref", "method") and (x[0] == "ref" or x[2] in ("as_mut", "as_mut_slice")):
                        x = x[1]
                    if x[0] == "var":
                        acc.add(x[1])
            if e[0] == "method" and e[2] in ("copy_from_slice", "fill"):
                x = e[1]
                while x[0] in ("index", "deref"):
                    x = x[1]
                if x[0] == "var":
                    acc.add(x[1])
    return acc


class Fn:
    def __init__(self, tr, name):
        self.tr, self.name = tr, name
        self.n = 0

    def fresh(self, b):
        self.n += 1
        b = {"end": "end_", "from": "from_"}.get(b, b)
        return f"{b}_{self.n}"

    def fail(self, msg):
        raise CannotTranslate(f"{self.name}: {msg}")

    # ------------------------------------------------------------ expressions: k(term, ty) -> str
    def lit_ty(self, want):
        return want or "usize"

    def ev(self, e, env, k, want=None):
        C = self.tr.consts
        if e[0] == "int":
            return k(str(e[1]), self.lit_ty(want))
        if e[0] == "var":
            if e[1] in env:
                kind, term, ty = env[e[1]]
                if kind == "int":
                    return k(term, ty)
                self.fail(f"`{e[1]}` used as a number")
            if e[1] in C:
                return k(str(C[e[1]][0]), C[e[1]][1])
            self.fail(f"unknown name `{e[1]}`")
        if e[0] == "deref":
            return self.ev(e[1], env, k, want)
        if e[0] == "ref":
            return self.ev(e[1], env, k, want)
        if e[0] == "cast":
            to = norm_ty(e[2])
            if to not in BITS:
                self.fail(f"cast to {e[2]}")

            def kc(t, ty):
                if BITS[to] >= BITS[ty]:
                    return k(t, to)
                return k(f"({t} % {2 ** BITS[to]})", to)
            return self.ev(e[1], env, kc)
        if e[0] == "call" and e[1][0] == "path" and len(e[1][1]) == 2 and e[1][1][1] == "from" and norm_ty(e[1][1][0]) in BITS and len(e[2]) == 1:
            to = norm_ty(e[1][1][0])

            def kf(t, ty):
                if BITS[to] < BITS[ty]:
                    self.fail(f"{to}::from of a {ty}")
                return k(t, to)
            return self.ev(e[2][0], env, kf)
        if e[0] == "index":
            arr = self.arr(e[1], env)

            def ki(i, ity):
                r = self.fresh("x")
                return f"({arr[0]}[{i}]?).bind fun {r} =>\n{k(r, arr[1])}"
            return self.ev(e[2], env, ki, "usize")
        if e[0] == "method":
            recv, m, args = e[1], e[2], e[4]
            if m in ("wrapping_sub", "wrapping_add") and len(args) == 1:
                def kw(a, ta):
                    def kw2(b, tb):
                        M = 2 ** BITS[ta]
                        if m == "wrapping_sub":
                            return k(f"(({a} + {M} - {b}) % {M})", ta)
                        return k(f"(({a} + {b}) % {M})", ta)
                    return self.ev(args[0], env, kw2, ta)
                return self.ev(recv, env, kw, want)
            if m == "trailing_zeros" and not args:
                return self.ev(recv, env, lambda a, ta: k(f"(tz {a})", "u32"), want)
            if m == "len" and not args:
                a = self.arr(recv, env)
                return k(f"{a[0]}.size", "usize")
            self.fail(f"method .{m}()")
        if e[0] == "call":
            return self.call(e, env, lambda vals, env2: k(vals[0][0], vals[0][1]) if len(vals) == 1 else self.fail("tuple value used as a number"))
        if e[0] == "bin" and self.fold(e) is not None and e[2][0] != "lean":
            hold = {}
            for x in (e[2], e[3]):
                if x[0] != "int":
                    self.ev(x, env, lambda t, ty: hold.setdefault("ty", ty) or "")
            return k(str(self.fold(e)), hold.get("ty", self.lit_ty(want)))
        if e[0] == "bin":
            op = e[1]

            def k1(a, ta):
                def k2(b, tb):
                    ty = ta
                    if op in ("<<", ">>"):
                        if op == ">>":
                            return k(f"({a} / 2 ^ {b})", ty)
                        r = self.fresh("n")
                        return f"(if {b} < {BITS[ty]} then some (({a} * 2 ^ {b}) % {2 ** BITS[ty]}) else none).bind fun {r} =>\n{k(r, ty)}"
                    if op == "^":
                        return k(f"({a} ^^^ {b})", ty)
                    if op == "&":
                        return k(f"({a} &&& {b})", ty)
                    if op == "|":
                        return k(f"({a} ||| {b})", ty)
                    r = self.fresh("n")
                    if op == "-":
                        return f"(if {b} ≤ {a} then some ({a} - {b}) else none).bind fun {r} =>\n{k(r, ty)}"
                    return f"(if {a} {op} {b} < {2 ** BITS[ty]} then some ({a} {op} {b}) else none).bind fun {r} =>\n{k(r, ty)}"
                return self.ev(e[3], env, k2, "u32" if op in ("<<", ">>") else ta)
            # literal on the left adopts the type of the right operand
            if e[2][0] == "int" and e[3][0] != "int" and op not in ("<<", ">>"):
                return self.ev(e[3], env, lambda b, tb: self.ev(e[2], env, lambda a, ta: self.ev(("bin", op, ("lean", a, tb), ("lean", b, tb)), env, k, want), tb), want)
            return self.ev(e[2], env, k1, want)
        if e[0] == "lean":
            return k(e[1], e[2])
        if e[0] == "if":
            # value-level if / else with single tail expressions
            c, t, el = e[1], e[2], e[3]
            if el is None or len(t) != 1 or len(el) != 1 or t[0][0] != "tail" or el[0][0] != "tail":
                self.fail("`if` value with statements inside")
            r = self.fresh("v")
            hold = {}

            def kb(term, ty):
                hold["ty"] = ty
                return f"some {term}"
            tt = self.ev(t[0][1], env, kb, want)
            ee = self.ev(el[0][1], env, kb, want)
            return self.cond(c, env, lambda cc: f"(if {cc} then\n{tt}\nelse\n{ee}).bind fun {r} =>\n{k(r, hold['ty'])}")
        self.fail(f"expression `{e[0]}`")

    def cond(self, c, env, k):
        if c[0] != "cmp":
            self.fail("condition is not a comparison")
        op = {"<=": "≤", ">=": "≥", "==": "=", "!=": "≠", "<": "<", ">": ">"}[c[1]]
        if c[2][0] == "int" and c[3][0] != "int":
            return self.ev(c[3], env, lambda b, tb: self.ev(c[2], env, lambda a, ta: k(f"{a} {op} {b}"), tb))
        return self.ev(c[2], env, lambda a, ta: self.ev(c[3], env, lambda b, tb: k(f"{a} {op} {b}"), ta))

    def arr(self, e, env):
        """-> (lean term, element type, rust name)"""
        while e[0] in ("ref", "deref") or (e[0] == "method" and e[2] in ("as_mut", "as_ref", "as_mut_slice", "as_slice") and not e[4]):
            e = e[1]
        if e[0] == "var" and e[1] in env and env[e[1]][0] == "arr":
            return (env[e[1]][1], env[e[1]][2], e[1])
        if e[0] == "var" and e[1] in self.tr.consts and self.tr.consts[e[1]][1].startswith("arr:"):
            return (e[1], self.tr.consts[e[1]][1][4:], e[1])
        self.fail(f"array expression `{e}`")

    # ------------------------------------------------------------ calls
    def call(self, e, env, k):
        """k(list of (term, ty) return values, env with updated arrays)"""
        f = e[1]
        if f[0] == "var":
            name = f[1]
        elif f[0] == "path":
            name = f[1][-1]
            if f[1][:-1] not in (["fwht"], ["utils"], ["tables"], ["Self"], ["std", "iter"]):
                self.fail(f"call of `{'::'.join(f[1])}`")
        else:
            self.fail("call target")
        sig = self.tr.sigs.get(name)
        if sig is None:
            self.fail(f"call of untranslated `{name}`")
        if len(e[2]) != len(sig["params"]):
            self.fail(f"arity of {name}")
        terms, outs = [], []

        def go(i, env):
            if i == len(sig["params"]):
                r = self.fresh("r")
                call = f"{sig['lean']} {' '.join(sig['extra'] + terms)}".strip()
                nret, nout = len(sig["ret"]), len(outs)
                comps = [f"{r}.{'2.' * j}1" if j < nret + nout - 1 else (f"{r}.{'2.' * (j - 1)}2" if j > 0 else r) for j in range(nret + nout)]
                comps = [c.replace(".2.2", ".2.2") for c in comps]
                if nret + nout == 1:
                    comps = [r]
                env2 = dict(env)
                for j, (an, aty) in enumerate(outs):
                    env2[an] = ("arr", self.fresh(an), aty)
                lets = "".join(f"let {env2[an][1]} := {comps[nret + j]};\n" for j, (an, aty) in enumerate(outs))
                vals = [(comps[j], sig["ret"][j]) for j in range(nret)]
                return f"({call}).bind fun {r} =>\n{lets}{k(vals, env2)}"
            pn, pk, pty = sig["params"][i]
            a = e[2][i]
            if pk == "int":
                return self.ev(a, env, lambda t, ty: (terms.append(t), go(i + 1, env))[1], pty)
            if pk in ("arr", "marr"):
                at = self.arr(a, env)
                terms.append(at[0])
                if pk == "marr":
                    outs.append((at[2], at[1]))
                return go(i + 1, env)
            if pk == "skip":
                return go(i + 1, env)
            self.fail(f"parameter kind {pk}")
        return go(0, env)

    # ------------------------------------------------------------ statements
    def block(self, stmts, env, k):
        """k(env, tail) where tail is None or a list of (term, ty)"""
        if not stmts:
            return k(env, None)
        s, rest = stmts[0], stmts[1:]
        kind = s[0]
        nxt = lambda env2: self.block(rest, env2, k)  # noqa: E731
        if kind == "let":
            pat, e, ty = s[1], s[2], s[3]
            ty = norm_ty(ty) if ty else None
            if pat[0] == "tuple":
                if e[0] != "call":
                    self.fail("tuple pattern without a call")

                def kt(vals, env2):
                    if len(vals) != len(pat[1]):
                        self.fail("tuple arity")
                    env3 = dict(env2)
                    lets = ""
                    for p, (t, vty) in zip(pat[1], vals):
                        n = self.fresh(p[1])
                        lets += f"let {n} := {t};\n"
                        env3[p[1]] = ("int", n, vty)
                    return lets + nxt(env3)
                return self.call(e, env, kt)
            name = pat[1]
            # arrays: `Box::new([0; N])`, `[0; N]`, `*EXP_LOG.log` style table copies are parameters
            a = self.array_init(e, env)
            if a:
                n = self.fresh(name)
                env2 = dict(env)
                env2[name] = ("arr", n, a[1] or "u16")
                return f"let {n} : Array Nat := {a[0]};\n" + nxt(env2)
            t = self.table_ref(e)
            if t:
                env2 = dict(env)
                env2[name] = ("arr", t[0], t[1])
                return nxt(env2)

            def kl(term, vty):
                n = self.fresh(name)
                env2 = dict(env)
                env2[name] = ("int", n, vty)
                return f"let {n} := {term};\n" + nxt(env2)
            return self.ev(e, env, kl, ty)
        if kind == "assign":
            lhs, op, rhs = s[1], s[2], s[3]
            if lhs[0] == "deref":
                lhs = lhs[1]
            if lhs[0] == "var" and lhs[1] in env and env[lhs[1]][0] == "int":
                ty = env[lhs[1]][2]
                val = rhs if op == "" else ("bin", op, lhs, rhs)

                def ka(term, vty):
                    n = self.fresh(lhs[1])
                    env2 = dict(env)
                    env2[lhs[1]] = ("int", n, ty)
                    return f"let {n} := {term};\n" + nxt(env2)
                return self.ev(val, env, ka, ty)
            if lhs[0] == "index":
                at = self.arr(lhs[1], env)
                val = rhs if op == "" else ("bin", op, lhs, rhs)

                def ki(i, ity):
                    def kv(v, vty):
                        n = self.fresh(at[2])
                        env2 = dict(env)
                        env2[at[2]] = ("arr", n, at[1])
                        return f"(if {i} < {at[0]}.size then some ({at[0]}.set! {i} {v}) else none).bind fun {n} =>\n" + nxt(env2)
                    return self.ev(val, env, kv, at[1])
                return self.ev(lhs[2], env, ki, "usize")
            self.fail(f"assignment to `{lhs}`")
        if kind == "expr":
            e = s[1]
            if e[0] == "call":
                return self.call(e, env, lambda vals, env2: nxt(env2))
            if e[0] == "method" and e[2] == "copy_from_slice" and len(e[4]) == 1:
                dst = self.arr(e[1], env)
                src = self.arr(e[4][0], env)
                n = self.fresh(dst[2])
                env2 = dict(env)
                env2[dst[2]] = ("arr", n, dst[1])
                return f"(if {dst[0]}.size = {src[0]}.size then some {src[0]} else none).bind fun {n} =>\n" + nxt(env2)
            self.fail(f"expression statement `{e[0]}`")
        if kind == "while":
            return self.loop_while(s, env, nxt)
        if kind == "for":
            return self.loop_for(s, env, nxt)
        if kind == "ifstmt":
            c, tb, eb = s[1], s[2], s[3]
            if tb and tb[-1] == ("return", None) and eb is None:
                # `if cond { return; }`: the rest runs only when the condition fails
                if len(tb) != 1:
                    self.fail("statements before an early return")
                return self.cond(c, env, lambda cc: f"if {cc} then\n{k(env, None)}\nelse\n{nxt(env)}")
            asg = assigned(tb) | (assigned(eb) if eb else set())
            vs = [v for v in env if v in asg]      # declaration order: renaming a variable does not reorder the state
            st = self.fresh("st")

            def pack(env2):
                return "some (" + ", ".join(env2[v][1] for v in vs) + ")" if vs else "some ()"
            tt = self.block(tb, env, lambda env2, tail: pack(env2))
            ee = self.block(eb, env, lambda env2, tail: pack(env2)) if eb else pack(env)
            env3, lets = self.unpack(vs, st, env)
            return self.cond(c, env, lambda cc: f"(if {cc} then\n{tt}\nelse\n{ee}).bind fun {st} =>\n{lets}{nxt(env3)}")
        if kind == "tail" or kind == "return":
            if rest:
                self.fail("statements after the value")
            e = s[1]
            if e is None:
                return k(env, None)
            if e[0] == "tuple":
                def go(i, acc):
                    if i == len(e[1]):
                        return k(env, acc)
                    return self.ev(e[1][i], env, lambda t, ty: go(i + 1, acc + [(t, ty)]))
                return go(0, [])
            if e[0] == "var" and e[1] in env and env[e[1]][0] == "arr":
                return k(env, [(env[e[1]][1], "arr:" + env[e[1]][2])])
            if e[0] == "struct":
                vals = []
                for fn_, fe in e[2]:
                    if fe[0] == "var" and fe[1] in env and env[fe[1]][0] == "arr":
                        vals.append((env[fe[1]][1], "arr:" + env[fe[1]][2]))
                    else:
                        self.fail("struct field that is not an array")
                return k(env, vals)
            if e[0] == "if":
                self_ = self
                c, tb, eb = e[1], e[2], e[3]
                tt = self.block(tb, env, k)
                ee = self.block(eb, env, k)
                return self.cond(c, env, lambda cc: f"if {cc} then\n{tt}\nelse\n{ee}")
            return self.ev(e, env, lambda t, ty: k(env, [(t, ty)]), self.ret_hint)
        self.fail(f"statement `{kind}`")

    ret_hint = None

    def unpack(self, vs, st, env):
        env2 = dict(env)
        lets = ""
        for j, v in enumerate(vs):
            n = self.fresh(v)
            comp = st if len(vs) == 1 else (f"{st}.{'2.' * j}1" if j < len(vs) - 1 else f"{st}.{'2.' * (j - 1)}2")
            lets += f"let {n} := {comp};\n"
            env2[v] = (env[v][0], n, env[v][2])
        return env2, lets

    def sty(self, vs, env):
        return " × ".join("Array Nat" if env[v][0] == "arr" else "Nat" for v in vs) if vs else "Unit"

    def loop_while(self, s, env, nxt):
        c, body = s[1], s[2]
        asg = assigned(body)
        vs = [v for v in env if v in asg]      # declaration order: renaming a variable does not reorder the state
        st = self.fresh("st")
        envb, letsb = self.unpack(vs, st, env)
        pack = lambda e2: ("some (" + ", ".join(e2[v][1] for v in vs) + ")")  # noqa: E731
        bodyt = self.block(body, envb, lambda e2, tail: pack(e2))
        condt = self.cond(c, envb, lambda cc: f"decide ({cc})")
        if ".bind" in condt:
            self.fail("`while` condition that can panic")
        st2 = self.fresh("st")
        env3, lets3 = self.unpack(vs, st2, env)
        init = "(" + ", ".join(env[v][1] for v in vs) + ")"
        T = self.sty(vs, env)
        return (f"(whileSt {FUEL} (fun ({st} : {T}) =>\n{letsb}{condt})\n(fun ({st} : {T}) =>\n{letsb}{bodyt})\n{init}).bind fun {st2} =>\n{lets3}{nxt(env3)}")

    def loop_for(self, s, env, nxt):
        pat, it, body = s[1], s[2], s[3]
        # zip(a.iter_mut(), b.iter()) { *e = f(*e, *factor) }
        if it[0] == "call" and ((it[1][0] == "var" and it[1][1] == "zip") or (it[1][0] == "path" and it[1][1][-1] == "zip")):
            if pat[0] != "tuple" or len(pat[1]) != 2 or len(it[2]) != 2:
                self.fail("zip loop shape")
            a, b = it[2]
            if not (a[0] == "method" and a[2] == "iter_mut" and b[0] == "method" and b[2] == "iter"):
                self.fail("zip loop over other than (iter_mut, iter)")
            A, B = self.arr(a[1], env), self.arr(b[1], env)
            x, y = pat[1][0][1], pat[1][1][1]
            xe, ye = self.fresh(x), self.fresh(y)
            envb = dict(env)
            envb[x] = ("int", xe, A[1])
            envb[y] = ("int", ye, B[1])
            if not body or body[-1][0] != "assign" or body[-1][1] != ("deref", ("var", x)) or body[-1][2] != "":
                self.fail("zip loop body does not end in `*e = …`")
            pre, last = body[:-1], body[-1]
            bt = self.block(pre, envb, lambda e2, tail: self.ev(last[3], e2, lambda t, ty: f"some {t}", A[1]))
            n = self.fresh(A[2])
            env2 = dict(env)
            env2[A[2]] = ("arr", n, A[1])
            return f"(zipUpdM (fun ({xe} {ye} : Nat) =>\n{bt}) {A[0]} {B[0]}).bind fun {n} =>\n" + nxt(env2)
        # ranges
        step = None
        if it[0] == "method" and it[2] == "step_by" and len(it[4]) == 1:
            step = it[4][0]
            it = it[1]
        if it[0] != "range" or it[1] is None or it[2] is None or pat[0] != "name":
            self.fail("`for` over something other than a range")
        lo, hi, incl = it[1], it[2], it[3]
        asg = assigned(body)
        vs = [v for v in env if v in asg]      # declaration order: renaming a variable does not reorder the state
        st = self.fresh("st")
        i = self.fresh(pat[1])
        envb, letsb = self.unpack(vs, st, env)
        envb[pat[1]] = ("int", i, self.range_ty(lo, hi, env))
        pack = lambda e2: ("some (" + ", ".join(e2[v][1] for v in vs) + ")") if vs else "some ()"  # noqa: E731
        bodyt = self.block(body, envb, lambda e2, tail: pack(e2))
        st2 = self.fresh("st")
        env3, lets3 = self.unpack(vs, st2, env)
        init = "(" + ", ".join(env[v][1] for v in vs) + ")"
        T = self.sty(vs, env)
        ity = envb[pat[1]][2]

        def klo(a, ta):
            def khi(b, tb):
                def kst(stp, ts):
                    hi_t = f"({b} + 1)" if incl else b
                    return (f"(forStep {a} {hi_t} {stp} (fun ({i} : Nat) ({st} : {T}) =>\n{letsb}{bodyt})\n{init}).bind fun {st2} =>\n{lets3}{nxt(env3)}")
                if step is None:
                    return kst("1", "usize")
                return self.ev(step, env, kst, "usize")
            return self.ev(hi, env, khi, ity)
        return self.ev(lo, env, klo, ity)

    def range_ty(self, lo, hi, env):
        hold = {}
        for e in (hi, lo):
            if e[0] != "int":
                try:
                    self.ev(e, env, lambda t, ty: hold.setdefault("ty", ty) or "")
                except CannotTranslate:
                    pass
        return hold.get("ty", "usize")

    def fold(self, e):
        """translation-time value of an expression made of literals and constants, or None"""
        C = self.tr.consts
        if e[0] == "int":
            return e[1]
        if e[0] == "var" and e[1] in C and isinstance(C[e[1]][0], int):
            return C[e[1]][0]
        if e[0] == "cast":
            return self.fold(e[1])
        if e[0] == "bin" and e[1] in ("+", "-", "*"):
            a, b = self.fold(e[2]), self.fold(e[3])
            if a is None or b is None:
                return None
            r = a + b if e[1] == "+" else a * b if e[1] == "*" else a - b
            return r if 0 <= r < 2 ** 64 else None
        return None

    def array_init(self, e, env):
        """`[v; N]`, `Box::new([v; N])` -> (lean term, element type or None)"""
        if e[0] == "call" and e[1][0] == "path" and e[1][1] == ["Box", "new"] and len(e[2]) == 1:
            e = e[2][0]
        if e[0] == "arrayrep":
            v, n = self.fold(e[1]), self.fold(e[2])
            if v is None or n is None:
                self.fail("array initialiser that is not a constant")
            return (f"Array.replicate {n} {v}", None)
        return None

    def table_ref(self, e):
        """`&*EXP_LOG.exp`, `*EXP_LOG.log`, `&*tables::LOG_WALSH` -> parameter name"""
        x = e
        while x[0] in ("ref", "deref"):
            x = x[1]
        if x[0] == "field" and x[1] == ("var", "EXP_LOG") and x[2] in ("exp", "log"):
            self.used_tables.add(x[2])
            return (x[2] + "T", "u16")
        if x == ("path", ["tables", "LOG_WALSH"], None) or x == ("var", "LOG_WALSH"):
            self.used_tables.add("log_walsh")
            return ("log_walshT", "u16")
        return None


class Translator:
    def __init__(self, repo):
        self.repo = repo
        self.sigs = {}
        self.consts = {}
        self.out = []

    def read_consts(self):
        src = open(f"{self.repo}/src/engine.rs").read()
        for name, ty in (("GF_BITS", "usize"), ("GF_ORDER", "usize"), ("GF_MODULUS", "u16"), ("GF_POLYNOMIAL", "usize")):
            m = re.search(rf"pub const {name}\s*:\s*\w+\s*=\s*(0x[0-9A-Fa-f_]+|\d[\d_]*)\s*;", src)
            if not m:
                raise CannotTranslate(f"const {name} not found in src/engine.rs")
            self.consts[name] = (int(m.group(1).replace("_", ""), 0), ty)
        m = re.search(r"pub const CANTOR_BASIS\s*:\s*\[GfElement;\s*GF_BITS\]\s*=\s*\[([^\]]*)\]", src)
        if not m:
            raise CannotTranslate("CANTOR_BASIS not found")
        vals = [int(x.strip().replace("_", ""), 0) for x in m.group(1).split(",") if x.strip()]
        self.consts["CANTOR_BASIS"] = (vals, "arr:u16")
        self.out.append(f"/-- `CANTOR_BASIS` of src/engine.rs -/\ndef CANTOR_BASIS : Array Nat := #{vals}\n")

    def fn(self, items, file, name, hdr=None):
        c = [x for x in items if x[1] == name and (hdr is None or re.search(hdr, x[0]))]
        if len(c) != 1:
            raise CannotTranslate(f"{file}: expected exactly one `{name}`, found {len(c)}")
        item = c[0]
        # parameters
        ps, cur, depth = [], [], 0
        for k, v in item[2]:
            if v in ("<", "[", "("):
                depth += 1
            if v in (">", "]", ")"):
                depth -= 1
            if v == "," and depth == 0:
                ps.append(cur)
                cur = []
            else:
                cur.append(v)
        if cur:
            ps.append(cur)
        params = []
        for p in ps:
            if p[0] == "mut":
                p = p[1:]
            pn, ty = p[0], "".join(p[2:])
            if norm_ty(ty) in BITS:
                params.append((pn, "int", norm_ty(ty)))
            elif re.fullmatch(r"&mut\[(\w+);\w+\]", ty):
                params.append((pn, "marr", norm_ty(re.fullmatch(r"&mut\[(\w+);\w+\]", ty).group(1))))
            elif re.fullmatch(r"&(Exp|Log)", ty):
                params.append((pn, "arr", "u16"))
            elif ty in ("&implEngine", "&mutShardsRefMut"):
                params.append((pn, "skip", None))
            else:
                raise CannotTranslate(f"{name}: parameter `{pn}: {ty}`")
        f = Fn(self, name)
        f.used_tables = set()
        env = {}
        for pn, pk, pty in params:
            if pk == "int":
                env[pn] = ("int", pn, pty)
            elif pk in ("arr", "marr"):
                env[pn] = ("arr", pn, pty)
        body = UP(item[3]).body()
        marrs = [pn for pn, pk, _ in params if pk == "marr"]
        hold = {}

        def fin(env2, tail):
            vals = list(tail or [])
            hold["ret"] = [ty for _, ty in vals]
            comps = [t for t, _ in vals] + [env2[a][1] for a in marrs]
            return "some (" + ", ".join(comps) + ")" if comps else "some ()"
        # return type hint from the signature tail (`-> GfElement`)
        term = f.block(body, env, fin)
        extra = sorted(f.used_tables)
        lean = f"U_{name}"
        sig = dict(lean=lean, params=params, ret=hold.get("ret", []), extra=[t + "T" for t in extra])
        self.sigs[name] = sig
        rty = ["Array Nat" if t.startswith("arr:") else "Nat" for t in sig["ret"]] + ["Array Nat"] * len(marrs)
        lp = " ".join(f"({t}T : Array Nat)" for t in extra) + " " + " ".join(
            f"({pn} : {'Nat' if pk == 'int' else 'Array Nat'})" for pn, pk, _ in params if pk != "skip")
        doc = " ".join(t[1] for t in item[3])[:160].replace("/-", "/ -").replace("-/", "- /")
        self.out.append(f"/-- `{file}::{name}`: `{doc} …` -/\ndef {lean} {lp.strip()} : Option ({' × '.join(rty) if rty else 'Unit'}) :=\n{term}\n")

    def run(self):
        self.read_consts()
        ut = find_items(tokenize(open(f"{self.repo}/src/engine/utils.rs").read()))
        fw = find_items(tokenize(open(f"{self.repo}/src/engine/fwht.rs").read()))
        tb = find_items(tokenize(open(f"{self.repo}/src/engine/tables.rs").read()))
        self.fn(ut, "utils.rs", "add_mod")
        self.fn(ut, "utils.rs", "sub_mod")
        self.fn(fw, "fwht.rs", "fwht_2")
        self.fn(fw, "fwht.rs", "fwht_4")
        self.fn(fw, "fwht.rs", "fwht")
        self.fn(ut, "utils.rs", "eval_poly")
        self.fn(tb, "tables.rs", "mul")
        self.fn(tb, "tables.rs", "initialize_exp_log")
        self.fn(tb, "tables.rs", "initialize_log_walsh")
        self.fn(tb, "tables.rs", "initialize_skew")
        # delegations checked textually
        for (items, name, want) in ((ut, "xor_within", "let ( xs , ys ) = data . flat2_mut ( x , y , count ) ; xor ( xs , ys ) ;"),
                                    (ut, "fft_skew_end", "engine . fft ( data , pos , size , truncated_size , pos + size ) ;"),
                                    (ut, "ifft_skew_end", "engine . ifft ( data , pos , size , truncated_size , pos + size ) ;")):
            c = [x for x in items if x[1] == name]
            txt = " ".join(t[1] for t in c[0][3]) if len(c) == 1 else None
            if txt != want:
                raise CannotTranslate(f"utils.rs::{name} is not `{want}`: `{txt}`")
            self.out.append(f"/-- `utils.rs::{name}`: `{txt}` -/\ndef U_{name}_delegates : Bool := true\n")
        # formal_derivative: the xor_within calls it makes
        c = [x for x in ut if x[1] == "formal_derivative"]
        txt = " ".join(t[1] for t in c[0][3]) if len(c) == 1 else None
        want = "for i in 1 .. data . len ( ) { let width : usize = 1 < < i . trailing_zeros ( ) ; xor_within ( data , i - width , i , width ) ; }"
        if txt != want:
            raise CannotTranslate(f"utils.rs::formal_derivative is not `{want}`: `{txt}`")
        self.out.append("/-- `utils.rs::formal_derivative`: the `xor_within(data, x, y, count)` calls it makes on `len` shards: `" + txt + "` -/\n"
                        "def U_formal_derivative (len : Nat) : Option (List (Nat × Nat × Nat)) :=\n"
                        "(forStep 1 len 1 (fun (i : Nat) (acc : List (Nat × Nat × Nat)) =>\n"
                        "(if tz i < 64 then some ((1 * 2 ^ tz i) % 18446744073709551616) else none).bind fun width =>\n"
                        "(if width ≤ i then some (i - width) else none).bind fun x =>\n"
                        "some (acc ++ [(x, i, width)]))\n([] : List (Nat × Nat × Nat)))\n")


def main():
    repo = sys.argv[1] if len(sys.argv) > 1 else "/repo"
    out = sys.argv[2] if len(sys.argv) > 2 else "/verif/lean/RSVerif/Gen/SrcUtils.lean"
    tr = Translator(repo)
    try:
        tr.run()
    except CannotTranslate as e:
        print(f"CANNOT-TRANSLATE: {e}")
        return 3
    text = ("/- GENERATED by /verif/translate/rs2lean_utils.py from the current text of src/engine/utils.rs, src/engine/fwht.rs,\n"
            "   src/engine/tables.rs and the constants of src/engine.rs — do not edit. -/\n"
            "import RSVerif.Model.RustUtils\n\nset_option linter.unusedVariables false\n\nnamespace RS.SrcU\nopen RS RS.RustU\n\n" +
            "\n".join(tr.out) + "\nend RS.SrcU\n")
    old = None
    try:
        old = open(out).read()
    except OSError:
        pass
    if old != text:
        open(out, "w").write(text)
    print(f"translated {len(tr.sigs)} functions -> {out}" + (" (unchanged)" if old == text else " (CHANGED)"))
    return 0


if __name__ == "__main__":
    sys.exit(main())
