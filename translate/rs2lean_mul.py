#!/usr/bin/env python3
"""rs2lean_mul.py - translator for the two multiplication-table initialisers of src/engine/tables.rs:
`initialize_mul16` (`[[[u16; 16]; 4]; 65536]`) and `initialize_mul128` (`[Multiply128lutT { lo: [u128; 4], hi: [u128; 4] }; 65536]`).

Regenerates /verif/lean/RSVerif/Gen/SrcMul.lean from the CURRENT Rust text, with the machinery of rs2lean_utils.py.
Nested arrays are flattened (every level keeps its own bounds check), a `u128` built by `u128::from_le_bytes(bytes)` is
kept as its 16 little-endian bytes (what `_mm_loadu_si128` / `vld1q_u8` of `&lut.lo[k]` read on a little-endian target),
so `mul128` becomes two byte arrays `lo`, `hi` of 65536 x 4 x 16 bytes.  Outside the recognised shapes -> exit 3.
"""
import os
import re
import sys

sys.path.insert(0, os.path.dirname(os.path.abspath(__file__)))
from rs2lean import tokenize, CannotTranslate  # noqa: E402
from rs2lean_shards import find_items  # noqa: E402
import rs2lean_utils as U  # noqa: E402


def rewrite(toks):
    """token-level rewrites of the constructs outside the 1-D subset into marker calls"""
    s = " " + " ".join(t[1] for t in toks) + " "
    s, n1 = re.subn(r" let mut (\w+) = vec ! \[ \[ \[ 0 ; (\w+) \] ; (\w+) \] ; (\w+) \] ;(?= )", r" __decl3 ( \1 , \4 , \3 , \2 ) ;", s)
    s, n2 = re.subn(r" let mut (\w+) = vec ! \[ Multiply128lutT \{ lo : \[ 0 ; 4 \] , hi : \[ 0 ; 4 \] , \} ; (\w+) \] ;(?= )", r" __decl128 ( \1 , \2 ) ;", s)
    s = re.sub(r"\[ 0 u8 ; (\w+) \]", r"[ 0 ; \1 ]", s)
    s, n3 = re.subn(r" (\w+) \[ ([^\]]*) \] \. (lo|hi) \[ ([^\]]*) \] = u128 :: from_le_bytes \( (\w+) \) ;(?= )", r" __write128 ( \1 , \3 , \2 , \4 , \5 ) ;", s)
    s, n4 = re.subn(r" (\w+) \. into_boxed_slice \( \) \. try_into \( \) \. unwrap \( \) $", r" __ret ( \1 ) ", s)
    if "vec !" in s or "from_le_bytes" in s or "into_boxed_slice" in s:
        raise CannotTranslate("a `vec!` / `from_le_bytes` / `into_boxed_slice` outside the recognised shapes")
    return tokenize(s)


_base_assigned = U.assigned
ALIAS = {}      # row aliases of the function being translated (collected over its whole body)


def collect_aliases(stmts):
    for st in stmts:
        if st[0] == "let" and st[1][0] == "name":
            x = st[2]
            while x[0] == "ref":
                x = x[1]
            if x[0] == "index" and x[1][0] == "var":
                ALIAS[st[1][1]] = x[1][1]
        for sub in st[1:]:
            if isinstance(sub, list) and sub and isinstance(sub[0], tuple):
                collect_aliases(sub)


def assigned_nested(stmts, acc=None):
    """`assigned` of rs2lean_utils, aware of aliases of rows (`let lut = &mut root[i]`) and of the marker calls"""
    acc = _base_assigned(stmts, acc)
    alias = dict(ALIAS)

    def scan(ss):
        for st in ss:
            if st[0] == "let" and st[1][0] == "name":
                x = st[2]
                while x[0] == "ref":
                    x = x[1]
                if x[0] == "index" and x[1][0] == "var":
                    alias[st[1][1]] = x[1][1]
            if st[0] == "expr" and st[1][0] == "call" and st[1][1] == ("var", "__write128"):
                a = st[1][2]
                acc.add(f"{a[0][1]}_{a[1][1]}")
            for sub in st[1:]:
                if isinstance(sub, list) and sub and isinstance(sub[0], tuple):
                    scan(sub)
    scan(stmts)
    for a, root in alias.items():
        if a in acc:
            acc.add(root)
    return acc


U.assigned = assigned_nested


class FnM(U.Fn):
    def __init__(self, tr, name):
        super().__init__(tr, name)
        self.dims = {}      # array name -> [d0, d1, d2]
        self.alias = {}     # alias name -> (root, index term)
        self.pair = {}      # mul128 -> (lo name, hi name)

    def marker(self, e):
        if e[0] == "call" and e[1][0] == "var" and e[1][1].startswith("__"):
            return e[1][1], e[2]
        return None, None

    def cnum(self, e):
        v = self.fold(e)
        if v is None:
            self.fail(f"dimension `{e}` is not a constant")
        return v

    def block(self, stmts, env, k):
        if not stmts:
            return k(env, None)
        s, rest = stmts[0], stmts[1:]
        nxt = lambda env2: self.block(rest, env2, k)  # noqa: E731
        if s[0] in ("expr", "tail"):
            m, args = self.marker(s[1])
            if m == "__decl3":
                name = args[0][1]
                d = [self.cnum(a) for a in args[1:]]
                self.dims[name] = d
                n = self.fresh(name)
                env2 = dict(env)
                env2[name] = ("arr", n, "u16")
                return f"let {n} : Array Nat := Array.replicate {d[0] * d[1] * d[2]} 0;\n" + nxt(env2)
            if m == "__decl128":
                name = args[0][1]
                d0 = self.cnum(args[1])
                lo, hi = name + "_lo", name + "_hi"
                self.pair[name] = (lo, hi)
                env2 = dict(env)
                out = ""
                for x in (lo, hi):
                    self.dims[x] = [d0, 4, 16]
                    n = self.fresh(x)
                    env2[x] = ("arr", n, "u8")
                    out += f"let {n} : Array Nat := Array.replicate {d0 * 64} 0;\n"
                return out + nxt(env2)
            if m == "__write128":
                root, which, idx, i, src = args
                if root[1] not in self.pair:
                    self.fail("write into an unknown table")
                arr = self.pair[root[1]][0 if which[1] == "lo" else 1]
                d = self.dims[arr]
                at = (env[arr][1], env[arr][2], arr)
                sa = self.arr(src, env)

                def ki(ix, ty1):
                    def kj(j, ty2):
                        n = self.fresh(arr)
                        env2 = dict(env)
                        env2[arr] = ("arr", n, at[1])
                        return (f"(if {ix} < {d[0]} ∧ {j} < {d[1]} then write16 {at[0]} (({ix} * {d[1]} + {j}) * {d[2]}) {sa[0]} else none).bind fun {n} =>\n"
                                + nxt(env2))
                    return self.ev(i, env, kj, "usize")
                return self.ev(idx, env, ki, "usize")
            if m == "__ret":
                name = args[0][1]
                if name in self.pair:
                    lo, hi = self.pair[name]
                    return k(env, [(env[lo][1], "arr:u8"), (env[hi][1], "arr:u8")])
                return k(env, [(env[name][1], "arr:" + env[name][2])])
        if s[0] == "let" and s[1][0] == "name":
            e = s[2]
            x = e
            while x[0] == "ref":
                x = x[1]
            if x[0] == "index" and x[1][0] == "var" and x[1][1] in self.dims:
                root = x[1][1]

                def ka(ix, ty):
                    n = self.fresh("ix")
                    self.alias[s[1][1]] = (root, n)
                    return f"(if {ix} < {self.dims[root][0]} then some {ix} else none).bind fun {n} =>\n" + nxt(env)
                return self.ev(x[2], env, ka, "usize")
        if s[0] == "assign" and s[2] == "" and s[1][0] == "index" and s[1][1][0] == "index" and s[1][1][1][0] == "var" and s[1][1][1][1] in self.alias:
            root, ix = self.alias[s[1][1][1][1]]
            d = self.dims[root]
            at = (env[root][1], env[root][2], root)
            a, b = s[1][1][2], s[1][2]

            def ka(av, t1):
                def kb(bv, t2):
                    def kv(v, tv):
                        n = self.fresh(root)
                        env2 = dict(env)
                        env2[root] = ("arr", n, at[1])
                        return (f"(if {av} < {d[1]} ∧ {bv} < {d[2]} then some ({at[0]}.set! (({ix} * {d[1]} + {av}) * {d[2]} + {bv}) {v}) else none).bind fun {n} =>\n"
                                + nxt(env2))
                    return self.ev(s[3], env, kv, at[1])
                return self.ev(b, env, kb, "usize")
            return self.ev(a, env, ka, "usize")
        return super().block(stmts, env, k)


class TrM(U.Translator):
    def fnm(self, items, name):
        c = [x for x in items if x[1] == name]
        if len(c) != 1:
            raise CannotTranslate(f"tables.rs: expected exactly one `{name}`")
        item = c[0]
        if item[2]:
            raise CannotTranslate(f"{name}: parameters")
        f = FnM(self, name)
        f.used_tables = set()
        body = U.UP(rewrite(item[3])).body()
        ALIAS.clear()
        collect_aliases(body)
        hold = {}

        def fin(env2, tail):
            vals = list(tail or [])
            hold["n"] = len(vals)
            return "some (" + ", ".join(t for t, _ in vals) + ")"
        term = f.block(body, {}, fin)
        extra = sorted(f.used_tables)
        lp = " ".join(f"({t}T : Array Nat)" for t in extra)
        rty = " × ".join(["Array Nat"] * hold.get("n", 1))
        doc = " ".join(t[1] for t in item[3])[:170].replace("/-", "/ -").replace("-/", "- /")
        self.out.append(f"/-- `tables.rs::{name}` (flattened): `{doc} …` -/\ndef U_{name} {lp} : Option ({rty}) :=\n{term}\n")


def main():
    repo = sys.argv[1] if len(sys.argv) > 1 else "/repo"
    out = sys.argv[2] if len(sys.argv) > 2 else "/verif/lean/RSVerif/Gen/SrcMul.lean"
    tr = TrM(repo)
    try:
        tr.read_consts()
        tr.out = []      # the constants are emitted by Gen/SrcUtils.lean
        ut = find_items(tokenize(open(f"{repo}/src/engine/utils.rs").read()))
        tb = find_items(tokenize(open(f"{repo}/src/engine/tables.rs").read()))
        # the functions the initialisers call: signatures as in Gen/SrcUtils.lean (translated there)
        tr.fn(ut, "utils.rs", "add_mod")
        tr.fn(tb, "tables.rs", "mul")
        tr.out = []
        src = open(f"{repo}/src/engine/tables.rs").read()
        m = re.search(r"pub struct Multiply128lutT\s*\{([^}]*)\}", src)
        fields = re.findall(r"pub\s+(\w+)\s*:\s*\[\s*u128\s*;\s*4\s*\]", re.sub(r"//[^\n]*", "", m.group(1))) if m else []
        if fields != ["lo", "hi"]:
            raise CannotTranslate(f"struct Multiply128lutT is not {{ lo: [u128; 4], hi: [u128; 4] }}: {fields}")
        tr.fnm(tb, "initialize_mul16")
        tr.fnm(tb, "initialize_mul128")
    except CannotTranslate as e:
        print(f"CANNOT-TRANSLATE: {e}")
        return 3
    text = ("/- GENERATED by /verif/translate/rs2lean_mul.py from the current text of src/engine/tables.rs — do not edit. -/\n"
            "import RSVerif.Gen.SrcUtils\n\nset_option linter.unusedVariables false\n\nnamespace RS.SrcU\nopen RS RS.RustU\n\n"
            "/-- `arr[off .. off + 16] = bytes` for `u128::from_le_bytes(bytes)` stored at a 16-byte slot -/\n"
            "def write16 (arr : Array Nat) (off : Nat) (bytes : Array Nat) : Option (Array Nat) :=\n"
            "  if bytes.size = 16 ∧ off + 16 ≤ arr.size then\n"
            "    some ((List.range 16).foldl (fun a j => a.set! (off + j) (bytes.getD j 0)) arr)\n  else none\n\n" +
            "\n".join(tr.out) + "\nend RS.SrcU\n")
    old = None
    try:
        old = open(out).read()
    except OSError:
        pass
    if old != text:
        open(out, "w").write(text)
    print(f"translated initialize_mul16 / initialize_mul128 -> {out}" + (" (unchanged)" if old == text else " (CHANGED)"))
    return 0


if __name__ == "__main__":
    sys.exit(main())
