#!/usr/bin/env python3
"""rs2lean_default.py - translator for `DefaultRateEncoder::{new, reset}` and `DefaultRateDecoder::{new, reset}`
(src/rate/rate_default.rs): the rate dispatch, the order of the validations, and what happens to the inner
codec (`std::mem::take(&mut self.0)` leaves `None` behind until the `match` has produced a value — a `?`
that fires in between returns with the inner codec gone).

Regenerates /verif/lean/RSVerif/Gen/SrcDefault.lean from the CURRENT Rust text.  The dedicated codecs are abstract:
a function is parameterised by
   useHigh  : Nat → Nat → Option (Res Bool)        (translated `use_high_rate`, Gen/SrcEnvelope.lean)
   validate : Nat → Nat → Nat → Option (Res Unit)  (`Self::validate` = `Rate::validate` of `DefaultRate`)
   hi, lo   : W → Nat → Nat → Nat → Option (Res W) (`{High,Low}Rate*::reset` on a codec holding work `W`, and
                                                    `{High,Low}Rate*::new(.., engine, Some(work))` — both are
                                                    `reset_work` on that work; `Err` leaves nothing usable)
and returns `Option (Res Unit × DInner W)` / `Option (Res (DInner W))`; `none` = panic (`unreachable!()`).
Anything outside the recognised shapes -> exit 3 with `CANNOT-TRANSLATE: …`.
"""
import os
import re
import sys

sys.path.insert(0, os.path.dirname(os.path.abspath(__file__)))
from rs2lean import tokenize, find_items, CannotTranslate  # noqa: E402


class P:
    def __init__(self, toks):
        self.t = toks
        self.i = 0

    def peek(self, o=0):
        return self.t[self.i + o] if self.i + o < len(self.t) else ("eof", "")

    def at(self, v, o=0):
        k, x = self.peek(o)
        return k != "eof" and x == v

    def eat(self, v=None):
        k, x = self.peek()
        if k == "eof":
            raise CannotTranslate(f"unexpected end of input (expected {v!r})")
        if v is not None and x != v:
            raise CannotTranslate(f"expected {v!r}, found {x!r}")
        self.i += 1
        return x

    def block(self):
        self.eat("{")
        b = self.block_body()
        self.eat("}")
        return b

    def block_body(self):
        stmts = []
        while not self.at("}") and self.peek()[0] != "eof":
            if self.at("let"):
                self.eat()
                if self.at("("):
                    self.eat()
                    names = []
                    while not self.at(")"):
                        if self.at("mut"):
                            self.eat()
                        names.append(self.eat())
                        if self.at(","):
                            self.eat()
                    self.eat(")")
                    self.eat("=")
                    e = self.expr()
                    self.eat(";")
                    stmts.append(("lettuple", names, e))
                    continue
                if self.at("mut"):
                    self.eat()
                name = self.eat()
                self.eat("=")
                e = self.expr()
                self.eat(";")
                stmts.append(("let", name, e))
            else:
                e = self.expr()
                if self.at("="):
                    self.eat()
                    rhs = self.expr()
                    self.eat(";")
                    stmts.append(("assign", e, rhs))
                elif self.at(";"):
                    self.eat()
                    stmts.append(("exprstmt", e))
                elif self.at("}") or self.peek()[0] == "eof":
                    stmts.append(("tail", e))
                else:
                    raise CannotTranslate(f"unexpected token {self.peek()[1]!r} after expression")
        return stmts

    def expr(self):
        return self.postfix(self.primary())

    def postfix(self, e):
        while True:
            if self.at(".") and self.peek(1)[0] in ("id", "int"):
                self.eat()
                m = self.eat()
                if self.at("("):
                    e = ("method", m, e, self.args())
                else:
                    e = ("field", e, m)
            elif self.at("?"):
                self.eat()
                e = ("try", e)
            else:
                return e

    def args(self):
        self.eat("(")
        a = []
        while not self.at(")"):
            a.append(self.expr())
            if self.at(","):
                self.eat()
        self.eat(")")
        return a

    def primary(self):
        k, v = self.peek()
        if v == "&":
            self.eat()
            if self.at("mut"):
                self.eat()
            return self.expr()
        if v == "(":
            self.eat()
            if self.at(")"):
                self.eat()
                return ("unit",)
            e = self.expr()
            self.eat(")")
            return e
        if v == "if":
            self.eat()
            c = self.expr()
            t = self.block()
            self.eat("else")
            el = self.block()
            return ("if", c, t, el)
        if v == "match":
            self.eat()
            s = self.expr()
            self.eat("{")
            arms = []
            while not self.at("}"):
                path = [self.eat()]
                while self.at("::"):
                    self.eat()
                    path.append(self.eat())
                binder = None
                if self.at("("):
                    self.eat()
                    if self.at("mut"):
                        self.eat()
                    binder = self.eat()
                    self.eat(")")
                self.eat("=>")
                if self.at("{"):
                    body = self.block()
                else:
                    body = [("tail", self.expr())]
                if self.at(","):
                    self.eat()
                arms.append(("::".join(path), binder, body))
            self.eat("}")
            return ("match", s, arms)
        if k == "id":
            path = [self.eat()]
            while self.at("::"):
                self.eat()
                path.append(self.eat())
            name = "::".join(path)
            if self.at("!"):
                self.eat()
                a = self.args()
                return ("macro", name, a)
            if self.at("("):
                return ("call", name, self.args())
            return ("var", name)
        raise CannotTranslate(f"unexpected token {v!r}")


COUNTS = [("var", "original_count"), ("var", "recovery_count"), ("var", "shard_bytes")]


class Tr:
    def __init__(self, role):
        self.role = role                      # "Encoder" | "Decoder"
        self.inner = f"Inner{role}"
        self.fresh = 0

    def new(self, b):
        self.fresh += 1
        return f"{b}_{self.fresh}"

    def ded(self, name):
        """`HighRateEncoder` -> hi, `LowRateEncoder` -> lo"""
        if name == f"HighRate{self.role}":
            return "hi"
        if name == f"LowRate{self.role}":
            return "lo"
        raise CannotTranslate(f"dedicated codec `{name}`")

    # a fallible call `call?` : k(value term); on Err returns with the CURRENT inner (env['self'])
    def tryv(self, e, env, k, mode):
        """e is the expression under `?`"""
        cur = env["self"]
        err = (lambda x: f"some (Res.Err {x}, {cur})") if mode == "reset" else (lambda x: f"some (Res.Err {x})")
        if e[0] == "call" and e[1] == "use_high_rate" and e[2] == COUNTS[:2]:
            v = self.new("high")
            return f"(match useHigh original_count recovery_count with | none => none | some (Res.Err e) => {err('e')} | some (Res.Ok {v}) => {k(v)})"
        if e[0] == "call" and e[1] == "Self::validate" and e[2] == COUNTS:
            return f"(match validate original_count recovery_count shard_bytes with | none => none | some (Res.Err e) => {err('e')} | some (Res.Ok _) => {k('()')})"
        # X.reset(k, r, sb)?  on a bound codec
        if e[0] == "method" and e[1] == "reset" and e[2][0] == "var" and e[2][1] in env and e[3] == COUNTS:
            kind, term = env[e[2][1]]
            f = {"high": "hi", "low": "lo"}[kind]
            v = self.new(e[2][1])
            env[e[2][1]] = (kind, v)      # the codec was mutated in place
            return f"(match {f} {term} original_count recovery_count shard_bytes with | none => none | some (Res.Err e) => {err('e')} | some (Res.Ok {v}) => {k('()')})"
        # XRateEncoder::new(k, r, sb, engine, work)?
        if e[0] == "call" and e[1].endswith("::new") and len(e[2]) == 5 and e[2][:3] == COUNTS and e[2][3] == ("var", "engine"):
            f = self.ded(e[1][:-5])
            w = e[2][4]
            if w == ("var", "work") and "work" in env and env["work"][0] == "optwork":
                wt = env["work"][1]
            elif w[0] == "call" and w[1] == "Some" and w[2] == [("var", "work")] and "work" in env and env["work"][0] == "work":
                wt = env["work"][1]
            else:
                raise CannotTranslate("the work argument of a dedicated ::new")
            v = self.new("codec")
            kind = "high" if f == "hi" else "low"
            return f"(match {f} {wt} original_count recovery_count shard_bytes with | none => none | some (Res.Err e) => {err('e')} | some (Res.Ok {v}) => {k((kind, v))})"
        raise CannotTranslate(f"`?` on `{e[0]} {e[1] if len(e) > 1 else ''}`")

    # value of type Inner
    def inner_value(self, body, env, k, mode):
        """a block whose tail is an `Inner…::Ctor(codec)` -> k(lean term)"""
        env = dict(env)
        for s in body[:-1]:
            if s[0] == "exprstmt" and s[1][0] == "try":
                return self.tryv(s[1][1], env, lambda _v, env=env, rest=body[body.index(s) + 1:]: self.inner_value(rest, env, k, mode), mode)
            if s[0] == "lettuple" and s[1] == ["engine", "work"] and s[2][0] == "method" and s[2][1] == "into_parts" and s[2][2][0] == "var" and s[2][2][1] in env:
                env["work"] = ("work", env[s[2][2][1]][1])
                continue
            raise CannotTranslate(f"statement `{s[0]}` inside a match arm")
        t = body[-1]
        if t[0] != "tail":
            raise CannotTranslate("arm without a value")
        e = t[1]
        if e[0] == "call" and e[1] in (f"{self.inner}::High", f"{self.inner}::Low") and len(e[2]) == 1:
            ctor = "DInner.High" if e[1].endswith("High") else "DInner.Low"
            want = "high" if e[1].endswith("High") else "low"
            a = e[2][0]
            if a[0] == "var" and a[1] in env and env[a[1]][0] == want:
                return k(f"({ctor} {env[a[1]][1]})")
            if a[0] == "try":
                def kk(v):
                    if v[0] != want:
                        raise CannotTranslate(f"{e[1]} built from a {v[0]}-rate codec")
                    return k(f"({ctor} {v[1]})")
                return self.tryv(a[1], env, kk, mode)
        if e[0] == "if":
            c = e[1]
            if c[0] == "var" and c[1] in env and env[c[1]][0] == "bool":
                return f"if {env[c[1]][1]} = true then {self.inner_value(e[2], env, k, mode)} else {self.inner_value(e[3], env, k, mode)}"
            if c[0] == "try":
                return self.tryv(c[1], env, lambda v: f"if {v} = true then {self.inner_value(e[2], env, k, mode)} else {self.inner_value(e[3], env, k, mode)}", mode)
        raise CannotTranslate(f"inner value `{e[0]}`")

    def reset(self, body):
        env = {"self": "self"}
        return self.reset_stmts(body, env)

    def reset_stmts(self, stmts, env):
        s, rest = stmts[0], stmts[1:]
        if s[0] == "let" and s[2][0] == "try":
            def k(v):
                env2 = dict(env)
                env2[s[1]] = ("bool", v)
                return self.reset_stmts(rest, env2)
            return self.tryv(s[2][1], env, k, "reset")
        if s[0] == "exprstmt" and s[1][0] == "try":
            return self.tryv(s[1][1], env, lambda _v: self.reset_stmts(rest, env), "reset")
        if s[0] == "assign" and s[1] == ("field", ("var", "self"), "0") and s[2][0] == "match":
            m = s[2]
            scrut = m[1]
            if not (scrut[0] == "call" and scrut[1] == "std::mem::take" and scrut[2] == [("field", ("var", "self"), "0")]):
                raise CannotTranslate("`self.0 = match …` on something other than std::mem::take(&mut self.0)")
            taken = self.new("taken")
            env2 = dict(env)
            env2["self"] = "DInner.None"           # what `take` leaves behind
            arms = []
            seen = set()
            for pat, binder, body in m[2]:
                if pat == f"{self.inner}::None":
                    if body != [("tail", ("macro", "unreachable", []))]:
                        raise CannotTranslate("the None arm is not unreachable!()")
                    arms.append("| DInner.None => none")
                    seen.add("None")
                    continue
                if pat not in (f"{self.inner}::High", f"{self.inner}::Low") or binder is None:
                    raise CannotTranslate(f"match arm `{pat}`")
                kind = "high" if pat.endswith("High") else "low"
                b = self.new(binder)
                env3 = dict(env2)
                env3[binder] = (kind, b)

                def after(v, env3=env3):
                    envn = dict(env)
                    envn["self"] = v
                    return self.reset_stmts(rest, envn)
                arms.append(f"| DInner.{'High' if kind == 'high' else 'Low'} {b} => {self.inner_value(body, env3, after, 'reset')}")
                seen.add(kind)
            if seen != {"high", "low", "None"}:
                raise CannotTranslate("match on the inner codec without exactly the arms High / Low / None")
            return f"let {taken} := {env['self']}; (match {taken} with {' '.join(arms)})"
        if s[0] == "tail" and s[1] == ("call", "Ok", [("unit",)]) and not rest:
            return f"some (Res.Ok (), {env['self']})"
        raise CannotTranslate(f"statement `{s[0]}` in reset")

    def newfn(self, body):
        env = {"self": "DInner.None", "work": ("optwork", "(work.getD dflt)")}
        if len(body) != 2 or body[0][0] != "let" or body[0][1] != "inner":
            raise CannotTranslate("`new` is not `let inner = …; Ok(Self(inner))`")
        if body[1] != ("tail", ("call", "Ok", [("call", "Self", [("var", "inner")])])):
            raise CannotTranslate("`new` does not end in Ok(Self(inner))")
        return self.inner_value([("tail", body[0][2])], env, lambda v: f"some (Res.Ok {v})", "new")


def main():
    repo = sys.argv[1] if len(sys.argv) > 1 else "/repo"
    out = sys.argv[2] if len(sys.argv) > 2 else "/verif/lean/RSVerif/Gen/SrcDefault.lean"
    try:
        items = find_items(tokenize(open(f"{repo}/src/rate/rate_default.rs").read()))
        parts = []
        for role in ("Encoder", "Decoder"):
            ctx = rf"impl.*Rate{role}\s*<\s*E\s*>\s*for\s+DefaultRate{role}\b"
            for fn in ("new", "reset"):
                cands = [it for it in items if it[1] == fn and re.search(ctx, it[0])]
                if len(cands) != 1:
                    raise CannotTranslate(f"expected exactly one `fn {fn}` in `impl Rate{role} for DefaultRate{role}`, found {len(cands)}")
                body = P(cands[0][3]).block_body()
                tr = Tr(role)
                src = " ".join(t[1] for t in cands[0][3])
                if fn == "reset":
                    term = tr.reset(body)
                    parts.append(f"/-- `DefaultRate{role}::reset`: `{src[:200]} …` -/\n"
                                 f"def DefaultRate{role}_reset {{W : Type}} (useHigh : Nat → Nat → Option (Res Bool)) (validate : Nat → Nat → Nat → Option (Res Unit))\n"
                                 f"    (hi lo : W → Nat → Nat → Nat → Option (Res W)) (self : DInner W) (original_count recovery_count shard_bytes : Nat) :\n"
                                 f"    Option (Res Unit × DInner W) :=\n  {term}\n")
                else:
                    term = tr.newfn(body)
                    parts.append(f"/-- `DefaultRate{role}::new`: `{src[:200]} …` -/\n"
                                 f"def DefaultRate{role}_new {{W : Type}} (useHigh : Nat → Nat → Option (Res Bool))\n"
                                 f"    (hi lo : W → Nat → Nat → Nat → Option (Res W)) (dflt : W) (original_count recovery_count shard_bytes : Nat) (work : Option W) :\n"
                                 f"    Option (Res (DInner W)) :=\n  {term}\n")
    except CannotTranslate as e:
        print(f"CANNOT-TRANSLATE: {e}")
        return 3
    text = ("/- GENERATED by /verif/translate/rs2lean_default.py from the current text of src/rate/rate_default.rs — do not edit.\n"
            "   `none` = panic (`unreachable!()`); an early return through `?` carries the inner codec AS IT IS AT THAT MOMENT\n"
            "   (`DInner.None` between `std::mem::take` and the assignment). -/\n"
            "import RSVerif.Model.RustDefault\n\nset_option linter.unusedVariables false\n\nnamespace RS.SrcD\nopen RS.Rust RS.RustD\n\n" +
            "\n".join(parts) + "\nend RS.SrcD\n")
    old = None
    try:
        old = open(out).read()
    except OSError:
        pass
    if old != text:
        open(out, "w").write(text)
    print(f"translated 4 functions -> {out}" + (" (unchanged)" if old == text else " (CHANGED)"))
    return 0


if __name__ == "__main__":
    sys.exit(main())
