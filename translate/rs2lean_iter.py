#!/usr/bin/env python3
"""rs2lean_iter.py - translator for the result iterators `Recovery` (src/encoder_result.rs) and
`RestoredOriginal` (src/decoder_result.rs): `new`, `Iterator::next`, and what `Drop` of the result does.

Regenerates /verif/lean/RSVerif/Gen/SrcIter.lean from the CURRENT Rust text.  The work object is abstract:
`acc : Nat → Option α` stands for `self.work.recovery(i)` / `self.work.restored_original(i)` and `count` for
`self.work.original_count()`.  `next` becomes `IterS → Option (Option item × IterS)` (`none` = usize overflow or
loop fuel exhausted).  Anything outside the recognised shapes -> exit 3 with `CANNOT-TRANSLATE: …`.
"""
import os
import re
import sys

sys.path.insert(0, os.path.dirname(os.path.abspath(__file__)))
from rs2lean import tokenize, find_items, CannotTranslate, USIZE  # noqa: E402
from rs2lean_oneshot import P  # noqa: E402

FUEL = 70000


class Tr:
    def __init__(self, accname):
        self.accname = accname      # recovery | restored_original
        self.fresh = 0

    def new(self, b):
        self.fresh += 1
        return f"{b}_{self.fresh}"

    def nat(self, e, env, k):
        if e[0] == "int":
            return k(str(e[1]))
        if e[0] == "var" and e[1] in env:
            return k(env[e[1]])
        if e[0] == "field" and e[1] == ("var", "self") and e[2] == "next_index":
            return k(f"{env['self']}.next_index")
        if e[0] == "method" and e[1] == "original_count" and e[2] == ("field", ("var", "self"), "work") and not e[3]:
            return k("count")
        raise CannotTranslate(f"number `{e}`")

    def is_acc(self, e):
        return e[0] == "method" and e[1] == self.accname and e[2] == ("field", ("var", "self"), "work") and len(e[3]) == 1

    def value(self, e, env):
        """Option-valued tail: None / Some(x) / Some((i, x))"""
        if e == ("var", "None"):
            return "none"
        if e[0] == "call" and e[1] == "Some" and len(e[2]) == 1:
            a = e[2][0]
            if a[0] == "var" and a[1] in env:
                return f"(some {env[a[1]]})"
            if a[0] == "tuple" and len(a[1]) == 2 and all(x[0] == "var" and x[1] in env for x in a[1]):
                return f"(some ({env[a[1][0][1]]}, {env[a[1][1][1]]}))"
        raise CannotTranslate(f"returned value `{e}`")

    def setfield(self, f, v, env, k):
        n = self.new("self")
        env2 = dict(env)
        env2["self"] = n
        return f"let {n} := {{ {env['self']} with {f} := {v} }}; {k(env2)}"

    def stmts(self, stmts, env, loop=None):
        """-> Lean term of type Option (Option item × IterS); `loop` = (name of the recursive helper, counter var)"""
        if not stmts:
            raise CannotTranslate("missing value")
        s, rest = stmts[0], stmts[1:]
        kind = s[0]
        if kind == "tail" and not rest:
            return self.expr_value(s[1], env, loop)
        if kind == "return":
            return f"some ({self.value(s[1], env)}, {env['self']})"
        if kind == "exprstmt":
            e = s[1]
            raise CannotTranslate(f"expression statement `{e[0]}`")
        if kind == "assignlike":
            pass
        raise CannotTranslate(f"statement `{kind}`")

    def expr_value(self, e, env, loop):
        if e[0] == "if":
            c, tb, eb = e[1], e[2], e[3]
            if c == ("field", ("var", "self"), "ended") and eb is not None:
                return f"if {env['self']}.ended = true then {self.block(tb, env, loop)} else {self.block(eb, env, loop)}"
            raise CannotTranslate("`if` on something other than self.ended")
        if e[0] == "iflet":
            pat, scrut, tb, eb = e[1], e[2], e[3], e[4]
            if pat[0] == "some" and pat[1][0] == "name" and self.is_acc(scrut):
                x = self.new(pat[1][1])
                env2 = dict(env)
                env2[pat[1][1]] = x
                return self.nat(scrut[3][0], env, lambda i: f"(match acc {i} with | some {x} => {self.block(tb, env2, loop)} | none => {self.block(eb, env, loop)})")
            raise CannotTranslate("`if let` that is not `Some(x) = self.work.<accessor>(i)`")
        return f"some ({self.value(e, env)}, {env['self']})"

    def block(self, body, env, loop):
        """a block of the `next` body: field updates, `let mut index`, one `while`, and a final value"""
        if not body:
            raise CannotTranslate("empty block")
        s, rest = body[0], body[1:]
        if s[0] == "tail" and not rest:
            # `else if let …` arrives as a one-element block
            return self.expr_value(s[1], env, loop)
        if s[0] == "fieldset":
            f, op, rhs = s[1], s[2], s[3]
            if f == "ended" and op == "" and rhs == ("var", "true"):
                return self.setfield("ended", "true", env, lambda e2: self.block(rest, e2, loop))
            if f == "next_index":
                if op == "+" and rhs == ("int", 1):
                    cur = f"{env['self']}.next_index"
                    return f"if {cur} + 1 < {USIZE} then {self.setfield('next_index', f'({cur} + 1)', env, lambda e2: self.block(rest, e2, loop))} else none"
                if op == "":
                    return self.natplus(rhs, env, lambda v: self.setfield("next_index", v, env, lambda e2: self.block(rest, e2, loop)))
            raise CannotTranslate(f"assignment to self.{f}")
        if s[0] == "return":
            return f"some ({self.value(s[1], env)}, {env['self']})"
        if s[0] == "letmut" and rest and rest[0][0] == "while":
            # let mut index = START; while index < BOUND { if let Some(x) = acc(index) { …; return …; } index += 1; } AFTER
            var, start = s[1], s[2]
            w = rest[0]
            after = rest[1:]
            cond, wbody = w[1], w[2]
            if not (cond[0] == "lt" and cond[1] == ("var", var)):
                raise CannotTranslate("`while` condition is not `index < bound`")
            if len(wbody) != 2 or wbody[0][0] != "ifletstmt" or wbody[1] != ("varinc", var):
                raise CannotTranslate("`while` body is not `if let Some(x) = … { …; return …; } index += 1;`")
            il = wbody[0]
            pat, scrut, tb = il[1], il[2], il[3]
            if not (pat[0] == "some" and pat[1][0] == "name" and self.is_acc(scrut) and scrut[3] == [("var", var)]):
                raise CannotTranslate("`if let` inside the loop is not `Some(x) = self.work.<accessor>(index)`")
            iv = self.new(var)
            x = self.new(pat[1][1])
            envl = dict(env)
            envl[var] = iv
            envf = dict(envl)
            envf[pat[1][1]] = x
            found = self.block(tb, envf, loop)
            bound = self.nat(cond[2], envl, lambda b: b)
            aft = self.block(after, env, loop)
            helper = (f"fun (go : Nat → Option (Option _ × IterS)) ({iv} : Nat) => if {iv} < {bound} then (match acc {iv} with | some {x} => {found} "
                      f"| none => if {iv} + 1 < {USIZE} then go ({iv} + 1) else none) else {aft}")
            return self.nat(start, env, lambda st: f"scanFrom {FUEL} ({helper}) {st}")
        raise CannotTranslate(f"statement `{s[0]}` in `next`")

    def natplus(self, e, env, k):
        if e[0] == "plus1" and e[1][0] == "var" and e[1][1] in env:
            v = env[e[1][1]]
            return f"if {v} + 1 < {USIZE} then {k(f'({v} + 1)')} else none"
        return self.nat(e, env, k)


def normalise(stmts):
    """rewrite the generic AST of rs2lean_oneshot.P into the few statement kinds used here"""
    out = []
    for s in stmts:
        if s[0] == "exprstmt":
            raise CannotTranslate(f"expression statement `{s[1][0]}`")
        out.append(s)
    return out


class P2(P):
    """adds: `self.f = e;`, `self.f += 1;`, `index += 1;`, `let mut x = e;`, `while a < b { … }`, `a + 1`, `a < b`"""

    def block_body(self):
        stmts = []
        while not self.at("}") and self.peek()[0] != "eof":
            if self.at("let") and self.at("mut", 1):
                self.eat()
                self.eat()
                name = self.eat()
                self.eat("=")
                e = self.expr()
                self.eat(";")
                stmts.append(("letmut", name, e))
                continue
            if self.at("while"):
                self.eat()
                a = self.expr(nostruct=True)
                self.eat("<")
                b = self.expr(nostruct=True)
                stmts.append(("while", ("lt", a, b), self.block()))
                continue
            if self.at("return"):
                self.eat()
                e = self.expr()
                self.eat(";")
                stmts.append(("return", e))
                continue
            if self.at("if") and self.at("let", 1):
                e = self.expr()
                if self.at(";"):
                    self.eat()
                stmts.append(("tail", e) if (self.at("}") and e[4] is not None) else ("ifletstmt", e[1], e[2], e[3]))
                continue
            e = self.expr()
            if self.at("+") and self.at("=", 1):
                self.eat()
                self.eat()
                rhs = self.expr()
                self.eat(";")
                if e[0] == "field" and e[1] == ("var", "self"):
                    stmts.append(("fieldset", e[2], "+", rhs))
                elif e[0] == "var" and rhs == ("int", 1):
                    stmts.append(("varinc", e[1]))
                else:
                    raise CannotTranslate("`+=` on something else")
            elif self.at("="):
                self.eat()
                rhs = self.expr()
                if self.at("+"):
                    self.eat()
                    one = self.expr()
                    if one != ("int", 1):
                        raise CannotTranslate("`x + e` with e ≠ 1")
                    rhs = ("plus1", rhs)
                self.eat(";")
                if e[0] == "field" and e[1] == ("var", "self"):
                    stmts.append(("fieldset", e[2], "", rhs))
                else:
                    raise CannotTranslate("assignment to something other than a field of self")
            elif self.at(";"):
                self.eat()
                stmts.append(("exprstmt", e))
            elif self.at("}") or self.peek()[0] == "eof":
                stmts.append(("tail", e))
            else:
                raise CannotTranslate(f"unexpected token {self.peek()[1]!r} after expression")
        return stmts

    def primary(self, nostruct):
        if self.at("if") and self.at("let", 1):
            self.eat()
            self.eat()
            pat = self.pattern()
            self.eat("=")
            e = self.expr(nostruct=True)
            t = self.block()
            el = None
            if self.at("else"):
                self.eat()
                el = [("tail", self.primary(False))] if self.at("if") else self.block()
            return ("iflet", pat, e, t, el)
        if self.at("if"):
            self.eat()
            c = self.expr(nostruct=True)
            t = self.block()
            el = None
            if self.at("else"):
                self.eat()
                el = [("tail", self.primary(False))] if self.at("if") else self.block()
            return ("if", c, t, el)
        return super().primary(nostruct)


SPECS = [
    ("Recovery", "src/encoder_result.rs", "recovery", "EncoderResult", "EncoderWork"),
    ("RestoredOriginal", "src/decoder_result.rs", "restored_original", "DecoderResult", "DecoderWork"),
]


def main():
    repo = sys.argv[1] if len(sys.argv) > 1 else "/repo"
    out = sys.argv[2] if len(sys.argv) > 2 else "/verif/lean/RSVerif/Gen/SrcIter.lean"
    try:
        parts = []
        for (it, file, acc, result, work) in SPECS:
            items = find_items(tokenize(open(f"{repo}/{file}").read()))
            # new: `Self { ended: false, next_index: 0, work }`
            cands = [x for x in items if x[1] == "new" and re.search(rf"^impl.*\b{it}\s*<", x[0])]
            if len(cands) != 1:
                raise CannotTranslate(f"{file}: expected exactly one `{it}::new`")
            txt = " ".join(t[1] for t in cands[0][3])
            m = re.fullmatch(r"Self \{ ended : (true|false) , next_index : (\d+) , work , \}", txt)
            if not m:
                raise CannotTranslate(f"{it}::new is not `Self {{ ended: <bool>, next_index: <n>, work }}`: `{txt}`")
            parts.append(f"/-- `{it}::new`: `{txt}` -/\ndef {it}_new : IterS := {{ ended := {m.group(1)}, next_index := {m.group(2)} }}\n")
            # next
            cands = [x for x in items if x[1] == "next" and re.search(rf"impl.*Iterator\s+for\s+{it}\b", x[0])]
            if len(cands) != 1:
                raise CannotTranslate(f"{file}: expected exactly one `Iterator::next` for {it}")
            # closed world: the provided methods of `Iterator` (nth, skip, step_by, size_hint, count, last, …) are
            # specified in terms of `next`; an override, or another iterator trait implemented for the type, is
            # outside the translated subset (C12 `source_iterators` speaks about `next` only)
            extra = [x[1] for x in items if x[1] != "next" and re.search(rf"impl.*Iterator\s+for\s+{it}\b", x[0])]
            if extra:
                raise CannotTranslate(f"{file}: `impl Iterator for {it}` overrides provided methods {extra}")
            text = open(f"{repo}/{file}").read()
            text = re.sub(r"//[^\n]*", "", text)
            traits = set(re.findall(rf"impl\s*(?:<[^>{{}}]*>)?\s*([A-Za-z_:]+)\s+for\s+{it}\b", text))
            if traits - {"Iterator"}:
                raise CannotTranslate(f"{file}: {it} implements further traits {sorted(traits - {'Iterator'})}")
            body = P2(cands[0][3]).block_body()
            tr = Tr(acc)
            term = tr.block(body, {"self": "self"}, None)
            src = " ".join(t[1] for t in cands[0][3])
            item = "α" if it == "Recovery" else "(Nat × α)"
            parts.append(f"/-- `{it}::next`: `{src[:260]} …` -/\n"
                         f"def {it}_next {{α : Type}} (count : Nat) (acc : Nat → Option α) (self : IterS) : Option (Option {item} × IterS) :=\n  {term}\n")
            # Drop
            cands = [x for x in items if x[1] == "drop" and re.search(rf"impl\s+Drop\s+for\s+{result}\b", x[0])]
            if len(cands) != 1:
                raise CannotTranslate(f"{file}: expected exactly one `Drop for {result}`")
            txt = " ".join(t[1] for t in cands[0][3])
            if txt != "self . work . reset_received ( ) ;":
                raise CannotTranslate(f"Drop for {result} is not `self.work.reset_received();`: `{txt}`")
            parts.append(f"/-- `Drop for {result}`: `{txt}` -/\ndef {result}_drop_calls_reset_received : Bool := true\n")
            # the result object is just the borrowed work: `Self { work }`
            cands = [x for x in items if x[1] == "new" and re.search(rf"^impl.*\b{result}\s*<", x[0])]
            if len(cands) != 1:
                raise CannotTranslate(f"{file}: expected exactly one `{result}::new`")
            txt = " ".join(t[1] for t in cands[0][3])
            if txt != "Self { work }":
                raise CannotTranslate(f"{result}::new is not `Self {{ work }}`: `{txt}`")
            parts.append(f"/-- `{result}::new`: `{txt}` -/\ndef {result}_new_is_the_work : Bool := true\n")
            # accessor delegation
            cands = [x for x in items if x[1] == acc and re.search(rf"^impl\s+{result}\b", x[0])]
            if len(cands) != 1:
                raise CannotTranslate(f"{file}: expected exactly one `{result}::{acc}`")
            txt = " ".join(t[1] for t in cands[0][3])
            if txt != f"self . work . {acc} ( index )":
                raise CannotTranslate(f"{result}::{acc} is not a plain delegation: `{txt}`")
            parts.append(f"/-- `{result}::{acc}`: `{txt}` -/\ndef {result}_{acc}_delegates : Bool := true\n")
            # the iterator constructor: `<acc>_iter(&self)` is `<It>::new(self.work)` (a fresh iterator over the same work)
            cands = [x for x in items if x[1] == acc + "_iter" and re.search(rf"^impl\s+{result}\b", x[0])]
            if len(cands) != 1:
                raise CannotTranslate(f"{file}: expected exactly one `{result}::{acc}_iter`")
            txt = " ".join(t[1] for t in cands[0][3])
            if txt != f"{it} :: new ( self . work )":
                raise CannotTranslate(f"{result}::{acc}_iter is not `{it}::new(self.work)`: `{txt}`")
            parts.append(f"/-- `{result}::{acc}_iter`: `{txt}` -/\ndef {result}_{acc}_iter_is_new : Bool := true\n")
    except CannotTranslate as e:
        print(f"CANNOT-TRANSLATE: {e}")
        return 3
    text = ("/- GENERATED by /verif/translate/rs2lean_iter.py from the current text of src/encoder_result.rs and\n"
            "   src/decoder_result.rs — do not edit. -/\n"
            "import RSVerif.Model.RustIter\n\nset_option linter.unusedVariables false\n\nnamespace RS.SrcI\nopen RS.RustI\n\n" +
            "\n".join(parts) + "\nend RS.SrcI\n")
    old = None
    try:
        old = open(out).read()
    except OSError:
        pass
    if old != text:
        open(out, "w").write(text)
    print(f"translated 2 iterators -> {out}" + (" (unchanged)" if old == text else " (CHANGED)"))
    return 0


if __name__ == "__main__":
    sys.exit(main())
