/-
  `rsmodel`: line-protocol driver of the executable model.
  One request per input line, one canonical answer line per request (see harness/src/proto.rs).
-/
import RSVerif.Model.Field
import RSVerif.Model.Engine
import RSVerif.Model.Codec
import RSVerif.Model.State
import RSVerif.Model.Tables
import RSVerif.Model.Spec
import RSVerif.Model.Select
import RSVerif.Model.Lazy
import RSVerif.Model.EngineSeq
import RSVerif.Model.TableInit
import RSVerif.Model.SimdBlock
import RSVerif.Model.Flat
import RSVerif.Model.FlatEngine

open RS

/-! ### text helpers -/

def hexDigit (c : Char) : Option Nat :=
  if '0' ≤ c ∧ c ≤ '9' then some (c.toNat - '0'.toNat)
  else if 'a' ≤ c ∧ c ≤ 'f' then some (c.toNat - 'a'.toNat + 10)
  else if 'A' ≤ c ∧ c ≤ 'F' then some (c.toNat - 'A'.toNat + 10)
  else none

/-- "_" = empty shard; otherwise an even number of hex digits -/
def parseHex (s : String) : Option (Array Nat) :=
  if s = "_" then some #[] else
  let rec go : List Char → Array Nat → Option (Array Nat)
    | [], acc => some acc
    | [_], _ => none
    | a :: b :: rest, acc =>
      match hexDigit a, hexDigit b with
      | some x, some y => go rest (acc.push (16 * x + y))
      | _, _ => none
  go s.toList #[]

def hexChar (n : Nat) : Char :=
  if n < 10 then Char.ofNat ('0'.toNat + n) else Char.ofNat ('a'.toNat + n - 10)

def toHex (b : Array Nat) : String :=
  if b.size = 0 then "_" else
  String.ofList (b.toList.flatMap fun x => [hexChar (x / 16 % 16), hexChar (x % 16)])

/-- "-" = empty list; otherwise comma-separated -/
def splitList (s : String) : List String :=
  if s = "-" then [] else s.splitOn ","

def parseShards (s : String) : Option (List (Array Nat)) :=
  (splitList s).mapM parseHex

def parseIndexed (s : String) : Option (List (Nat × Array Nat)) :=
  (splitList s).mapM fun item =>
    match item.splitOn ":" with
    | [i, h] => do
      let i ← i.toNat?
      let h ← parseHex h
      pure (i, h)
    | _ => none

def showShards (l : List (Array Nat)) : String :=
  if l.isEmpty then "-" else ",".intercalate (l.map toHex)

def showIndexed (l : List (Nat × Array Nat)) : String :=
  if l.isEmpty then "-" else ",".intercalate (l.map fun p => s!"{p.1}:{toHex p.2}")

def showErr : Err → String
  | .differentShardSize a b => s!"DifferentShardSize {a} {b}"
  | .duplicateOriginal i => s!"DuplicateOriginalShardIndex {i}"
  | .duplicateRecovery i => s!"DuplicateRecoveryShardIndex {i}"
  | .invalidOriginalIndex c i => s!"InvalidOriginalShardIndex {c} {i}"
  | .invalidRecoveryIndex c i => s!"InvalidRecoveryShardIndex {c} {i}"
  | .invalidShardSize s => s!"InvalidShardSize {s}"
  | .notEnoughShards k o r => s!"NotEnoughShards {k} {o} {r}"
  | .tooFewOriginal k o => s!"TooFewOriginalShards {k} {o}"
  | .tooManyOriginal k => s!"TooManyOriginalShards {k}"
  | .unsupportedShardCount k r => s!"UnsupportedShardCount {k} {r}"

def showTruthful (l : List Err) : String :=
  if l.isEmpty then "-" else ";".intercalate (l.map showErr)

/-- answer line: status, payload, and the list of all truthful errors of the request -/
def answer {α : Type} (o : Outcome α) (payload : α → String) (truthful : List Err) : String :=
  match o with
  | .ok a => let p := payload a; (if p.isEmpty then "ok" else s!"ok {p}") ++ s!" | {showTruthful truthful}"
  | .err e => s!"err {showErr e} | {showTruthful truthful}"
  | .panic w => s!"panic {w} | {showTruthful truthful}"

def parseKind : String → Option Kind
  | "high" => some .high
  | "low" => some .low
  | "default" => some .default
  | "rs" => some .default
  | _ => none

/-- engine names of the protocol; every optimised engine shares the two-layer schedule -/
def parseSched : String → Option Sched
  | "naive" => some .naive
  | "two" => some .twoLayer
  | "nosimd" => some .twoLayer
  | "ssse3" => some .twoLayer
  | "avx2" => some .twoLayer
  | "neon" => some .twoLayer
  | "default" => some .twoLayer
  | _ => none

/-- non-zero stale pattern: the model's own answers must not depend on it -/
def staleFill : Stale := fun _ p => Vector.ofFn fun l => BitVec.ofNat 16 (0xA5C3 + 257 * p + 31 * l.val)

structure Session where
  enc : Option Encoder := none
  dec : Option Decoder := none

def parseSymbols (s : String) : Option (Array Sym) :=
  (splitList s).toArray.mapM fun t => (t.toNat?).map (BitVec.ofNat 16)

def showSymbols (a : Array Sym) : String :=
  if a.size = 0 then "-" else ",".intercalate (a.toList.map fun x => toString x.toNat)

/-- 64·n bytes -> n blocks -/
def blocksOfBytes (b : Array Nat) : Array Block :=
  Array.ofFn (n := b.size / 64) fun q => Vector.ofFn fun j => BitVec.ofNat 8 (b.getD (64 * q.val + j.val) 0)

def bytesOfBlocks (a : Array Block) : Array Nat :=
  a.flatMap fun blk => blk.toArray.map (·.toNat)

def blockOfBytes (b : Array Nat) : Block := Vector.ofFn fun j => BitVec.ofNat 8 (b.getD j.val 0)

/-- flat memory whose block `j` consists of the byte `j % 251` (fingerprint of "which blocks does a view
    show") -/
def flatPattern (count len64 : Nat) : Flat :=
  ⟨count, len64, Array.ofFn (n := count * len64) fun j => Vector.replicate 64 (BitVec.ofNat 8 (j.val % 251))⟩

def viewPrint (v : Array Block) : String :=
  ",".intercalate (v.toList.map fun b => toString (b.toArray.getD 0 0#8).toNat)

def handle (st : Session) (line : String) : Session × String :=
  match line.trimAscii.toString.splitOn " " with
  | ["Z"] => ({}, "z")
  | ["E", "allocs"] =>
    match st.enc with
    | some e => match e.inner with
      | .some _ w => (st, s!"a={w.allocs} b=0 held={w.heldBlocks}")
      | .none => (st, "none")
    | none => (st, "none")
  | ["D", "allocs"] =>
    match st.dec with
    | some d => match d.inner with
      | .some _ w => (st, s!"a={w.allocs} b={w.bitAllocs} held={w.heldBlocks}")
      | .none => (st, "none")
    | none => (st, "none")
  | ["L", "select", "x86", a, s] =>
    let l := executedX86 (a == "true") (s == "true")
    (st, if l.isEmpty then "-" else ",".intercalate (l.map fun i => match i with | .avx2 => "avx2" | .ssse3 => "ssse3" | .neon => "neon" | .portable => "portable"))
  | ["L", "select", "arm", n] =>
    let l := executedArm (n == "true")
    (st, if l.isEmpty then "-" else ",".intercalate (l.map fun i => match i with | .avx2 => "avx2" | .ssse3 => "ssse3" | .neon => "neon" | .portable => "portable"))
  -- ---------------- encoder object
  | ["E", "new", kind, sched, k, r, sb] =>
    match parseKind kind, parseSched sched, k.toNat?, r.toNat?, sb.toNat? with
    | some kind, some sched, some k, some r, some sb =>
      let o := Encoder.new staleFill kind sched k r sb none
      let tr := truthfulConfig kind k r sb
      match o with
      | .ok e => ({ st with enc := some e }, answer (α := Unit) (.ok ()) (fun _ => "") tr)
      | .err e => ({ st with enc := none }, answer (α := Unit) (.err e) (fun _ => "") tr)
      | .panic w => ({ st with enc := none }, answer (α := Unit) (.panic w) (fun _ => "") tr)
    | _, _, _, _, _ => (st, "bad-op")
  | ["E", "renew", kind, sched, k, r, sb] =>
    match parseKind kind, parseSched sched, k.toNat?, r.toNat?, sb.toNat?, st.enc with
    | some kind, some sched, some k, some r, some sb, some e =>
      let tr := truthfulConfig kind k r sb
      match e.intoParts with
      | .ok w =>
        match Encoder.new staleFill kind sched k r sb (some w) with
        | .ok e => ({ st with enc := some e }, answer (α := Unit) (.ok ()) (fun _ => "") tr)
        | .err er => ({ st with enc := none }, answer (α := Unit) (.err er) (fun _ => "") tr)
        | .panic w => ({ st with enc := none }, answer (α := Unit) (.panic w) (fun _ => "") tr)
      | .err er => (st, answer (α := Unit) (.err er) (fun _ => "") tr)
      | .panic w => (st, answer (α := Unit) (.panic w) (fun _ => "") tr)
    | _, _, _, _, _, _ => (st, "bad-op")
  | ["E", "reset", k, r, sb] =>
    match k.toNat?, r.toNat?, sb.toNat?, st.enc with
    | some k, some r, some sb, some e =>
      let (o, e') := e.reset staleFill k r sb
      ({ st with enc := some e' }, answer o (fun _ => "") (truthfulConfig e.kind k r sb))
    | _, _, _, _ => (st, "bad-op")
  | ["E", "add", h] =>
    match parseHex h, st.enc with
    | some b, some e =>
      let (o, e') := e.add b
      ({ st with enc := some e' }, answer o (fun _ => "") (truthfulEncAdd e b))
    | _, _ => (st, "bad-op")
  | ["E", "encode"] =>
    match st.enc with
    | some e =>
      let (o, e') := e.encode
      ({ st with enc := some e' }, answer o showShards (truthfulEncode e))
    | none => (st, "bad-op")
  -- ---------------- decoder object
  | ["D", "new", kind, sched, k, r, sb] =>
    match parseKind kind, parseSched sched, k.toNat?, r.toNat?, sb.toNat? with
    | some kind, some sched, some k, some r, some sb =>
      let o := Decoder.new staleFill kind sched k r sb none
      let tr := truthfulConfig kind k r sb
      match o with
      | .ok d => ({ st with dec := some d }, answer (α := Unit) (.ok ()) (fun _ => "") tr)
      | .err e => ({ st with dec := none }, answer (α := Unit) (.err e) (fun _ => "") tr)
      | .panic w => ({ st with dec := none }, answer (α := Unit) (.panic w) (fun _ => "") tr)
    | _, _, _, _, _ => (st, "bad-op")
  | ["D", "renew", kind, sched, k, r, sb] =>
    match parseKind kind, parseSched sched, k.toNat?, r.toNat?, sb.toNat?, st.dec with
    | some kind, some sched, some k, some r, some sb, some d =>
      let tr := truthfulConfig kind k r sb
      match d.intoParts with
      | .ok w =>
        match Decoder.new staleFill kind sched k r sb (some w) with
        | .ok d => ({ st with dec := some d }, answer (α := Unit) (.ok ()) (fun _ => "") tr)
        | .err er => ({ st with dec := none }, answer (α := Unit) (.err er) (fun _ => "") tr)
        | .panic w => ({ st with dec := none }, answer (α := Unit) (.panic w) (fun _ => "") tr)
      | .err er => (st, answer (α := Unit) (.err er) (fun _ => "") tr)
      | .panic w => (st, answer (α := Unit) (.panic w) (fun _ => "") tr)
    | _, _, _, _, _, _ => (st, "bad-op")
  | ["D", "reset", k, r, sb] =>
    match k.toNat?, r.toNat?, sb.toNat?, st.dec with
    | some k, some r, some sb, some d =>
      let (o, d') := d.reset staleFill k r sb
      ({ st with dec := some d' }, answer o (fun _ => "") (truthfulConfig d.kind k r sb))
    | _, _, _, _ => (st, "bad-op")
  | ["D", "addo", i, h] =>
    match i.toNat?, parseHex h, st.dec with
    | some i, some b, some d =>
      let (o, d') := d.addOriginal i b
      ({ st with dec := some d' }, answer o (fun _ => "") (truthfulDecAddO d i b))
    | _, _, _ => (st, "bad-op")
  | ["D", "addr", i, h] =>
    match i.toNat?, parseHex h, st.dec with
    | some i, some b, some d =>
      let (o, d') := d.addRecovery i b
      ({ st with dec := some d' }, answer o (fun _ => "") (truthfulDecAddR d i b))
    | _, _, _ => (st, "bad-op")
  | ["D", "decode"] =>
    match st.dec with
    | some d =>
      let (o, d') := d.decode logWalshArr
      ({ st with dec := some d' }, answer o showIndexed (truthfulDecode d))
    | none => (st, "bad-op")
  -- ---------------- stateless
  | ["S", "supports", kind, k, r] =>
    match parseKind kind, k.toNat?, r.toNat? with
    | some kind, some k, some r => (st, toString (supports kind k r))
    | _, _, _ => (st, "bad-op")
  | ["S", "validate", kind, k, r, sb] =>
    match parseKind kind, k.toNat?, r.toNat?, sb.toNat? with
    | some kind, some k, some r, some sb =>
      let o : Outcome Unit := match validate kind k r sb with | .ok () => .ok () | .error e => .err e
      (st, answer o (fun _ => "") (truthfulConfig kind k r sb))
    | _, _, _, _ => (st, "bad-op")
  | ["X", "encode", k, r, shards] =>
    match k.toNat?, r.toNat?, parseShards shards with
    | some k, some r, some l =>
      (st, answer (oneShotEncode staleFill k r l) showShards (truthfulOneShotEncode k r l))
    | _, _, _ => (st, "bad-op")
  | ["X", "decode", k, r, orig, rec] =>
    match k.toNat?, r.toNat?, parseIndexed orig, parseIndexed rec with
    | some k, some r, some o, some rc =>
      (st, answer (oneShotDecode staleFill logWalshArr k r o rc) showIndexed
        (truthfulOneShotDecode k r o rc))
    | _, _, _, _ => (st, "bad-op")
  -- ---------------- primitives on single-symbol shards
  | ["T", "gmul", a, b] =>
    match a.toNat?, b.toNat? with
    | some a, some b => (st, toString (gmul (BitVec.ofNat 16 a) (BitVec.ofNat 16 b)).toNat)
    | _, _ => (st, "bad-op")
  | ["T", "gexp", m] =>
    match m.toNat? with
    | some m => (st, toString (gexp m).toNat)
    | _ => (st, "bad-op")
  | ["T", "skew", i] =>
    match i.toNat? with
    | some i => (st, toString (skewElem i).toNat)
    | _ => (st, "bad-op")
  | ["T", "fft", sched, pos, size, trunc, delta, syms] =>
    match parseSched sched, pos.toNat?, size.toNat?, trunc.toNat?, delta.toNat?, parseSymbols syms with
    | some s, some pos, some size, some trunc, some delta, some a =>
      (st, showSymbols (fft s a pos size trunc delta))
    | _, _, _, _, _, _ => (st, "bad-op")
  | ["T", "ifft", sched, pos, size, trunc, delta, syms] =>
    match parseSched sched, pos.toNat?, size.toNat?, trunc.toNat?, delta.toNat?, parseSymbols syms with
    | some s, some pos, some size, some trunc, some delta, some a =>
      (st, showSymbols (ifft s a pos size trunc delta))
    | _, _, _, _, _, _ => (st, "bad-op")
  | ["T", "fftseq", sched, pos, size, trunc, delta, syms] =>
    -- the transliterated in-place loops (Model/EngineSeq.lean)
    match parseSched sched, pos.toNat?, size.toNat?, trunc.toNat?, delta.toNat?, parseSymbols syms with
    | some s, some pos, some size, some trunc, some delta, some a =>
      let n := Nat.log2 size
      (st, showSymbols (match s with
        | .naive => naiveFftSeq a pos n trunc delta
        | .twoLayer => twoFftSeq a pos n trunc delta))
    | _, _, _, _, _, _ => (st, "bad-op")
  | ["T", "ifftseq", sched, pos, size, trunc, delta, syms] =>
    match parseSched sched, pos.toNat?, size.toNat?, trunc.toNat?, delta.toNat?, parseSymbols syms with
    | some s, some pos, some size, some trunc, some delta, some a =>
      let n := Nat.log2 size
      (st, showSymbols (match s with
        | .naive => naiveIfftSeq a pos n trunc delta
        | .twoLayer => twoIfftSeq a pos n trunc delta))
    | _, _, _, _, _, _ => (st, "bad-op")
  | ["T", "kmul", engine, m, blk] =>
    -- the per-block multiply kernel of one engine family (Model/SimdBlock.lean), tables of g^m
    match m.toNat?, parseHex blk with
    | some m, some b =>
      let f : Sym → Sym := fun y => mulLog y m
      let x := blockOfBytes b
      let r := match engine with
        | "nosimd" => some (nosimdMulBlock f x)
        | "ssse3" => some (ssse3MulBlock f x)
        | "avx2" => some (avx2MulBlock f x)
        | "neon" => some (neonMulBlock f x)
        | _ => none
      (match r with
       | some r => (st, toHex (r.toArray.map (·.toNat)))
       | none => (st, "bad-op"))
    | _, _ => (st, "bad-op")
  | ["T", "kbfly", engine, dir, delta, xs, ys] =>
    -- one butterfly of an fft / ifft of size 2 on one block pair: twiddle SKEW[delta]; the code's
    -- shortcut (log_m = 65535: xor only) included
    match delta.toNat?, parseHex xs, parseHex ys with
    | some delta, some xb, some yb =>
      let m := skewLog delta
      let f : Sym → Sym := fun y => mulLog y m
      let x := blockOfBytes xb
      let y := blockOfBytes yb
      let r : Option (Block × Block) :=
        if m = 65535 then some (x, blockXor y x)
        else match engine, dir with
          | "nosimd", "fft" => some (nosimdFftb f x y)
          | "ssse3", "fft" => some (ssse3Fftb f x y)
          | "avx2", "fft" => some (avx2Fftb f x y)
          | "neon", "fft" => some (neonFftb f x y)
          | "nosimd", "ifft" => some (nosimdIfftb f x y)
          | "ssse3", "ifft" => some (ssse3Ifftb f x y)
          | "avx2", "ifft" => some (avx2Ifftb f x y)
          | "neon", "ifft" => some (neonIfftb f x y)
          | _, _ => none
      (match r with
       | some (a, b) => (st, toHex (a.toArray.map (·.toNat)) ++ " " ++ toHex (b.toArray.map (·.toNat)))
       | none => (st, "bad-op"))
    | _, _, _ => (st, "bad-op")
  | ["T", "flatbfly", dir, count, len64, pos, delta, dat] =>
    -- fft / ifft of size 2 at `pos` on the flat working memory (Model/Flat.lean): dist2_mut index
    -- arithmetic, byte-level xor / multiply, write-back
    match count.toNat?, len64.toNat?, pos.toNat?, delta.toNat?, parseHex dat with
    | some count, some len64, some pos, some delta, some b =>
      let f : Flat := ⟨count, len64, blocksOfBytes b⟩
      let c := skewElem delta
      let r := if dir = "fft" then f.fftBfly c pos 1 else f.ifftBfly c pos 1
      (match r with
       | some g => (st, toHex (bytesOfBlocks g.data))
       | none => (st, "panic"))
    | _, _, _, _, _ => (st, "bad-op")
  | ["T", "flatview", op, count, len64, a, b] =>
    -- which blocks the views of the accessors show / whether they panic (Rust slice-bound semantics)
    match count.toNat?, len64.toNat?, a.toNat?, b.toNat? with
    | some count, some len64, some a, some b =>
      let f := flatPattern count len64
      let r : String := match op with
        | "index" => (match f.shard a with | some v => viewPrint v | none => "panic")
        | "dist2" => (match f.dist2 a b with
            | some (x, y) => viewPrint x ++ ";" ++ viewPrint y | none => "panic")
        | "dist4" => (match f.dist4 a b with
            | some (x, y, z, w) => viewPrint x ++ ";" ++ viewPrint y ++ ";" ++ viewPrint z ++ ";" ++ viewPrint w
            | none => "panic")
        | "zero" => (match f.zero a b with | some g => viewPrint g.data | none => "panic")
        | "zerofrom" => (match f.zeroFrom a with | some g => viewPrint g.data | none => "panic")
        | "split" => (match f.splitAt a with
            | some (l, r) => s!"{l.count}:" ++ viewPrint l.data ++ ";" ++ s!"{r.count}:" ++ viewPrint r.data
            | none => "panic")
        | _ => "bad-op"
      (st, r)
    | _, _, _, _ => (st, "bad-op")
  | ["T", "flatfft", sched, dir, count, len64, pos, size, trunc, delta, dat] =>
    -- a whole fft / ifft of one engine family on the flat working memory (Model/FlatEngine.lean)
    match parseSched sched, count.toNat?, len64.toNat?, pos.toNat?, size.toNat?, trunc.toNat?, delta.toNat?, parseHex dat with
    | some s, some count, some len64, some pos, some size, some trunc, some delta, some b =>
      let f : Flat := ⟨count, len64, blocksOfBytes b⟩
      let r := if dir = "fft" then flatFft s f pos size trunc delta else flatIfft s f pos size trunc delta
      (match r with
       | some g => (st, toHex (bytesOfBlocks g.data))
       | none => (st, "panic"))
    | _, _, _, _, _, _, _, _ => (st, "bad-op")
  | ["T", "flatenc", sched, rate, k, r, len64, dat] =>
    -- `{High,Low}RateEncoder::encode` on the flat working memory (work_count shards of len64 blocks)
    match parseSched sched, k.toNat?, r.toNat?, len64.toNat?, parseHex dat with
    | some s, some k, some r, some len64, some b =>
      let wc := if rate = "high" then highEncWorkCount k r else lowEncWorkCount k r
      let f : Flat := ⟨wc, len64, blocksOfBytes b⟩
      let res := if rate = "high" then flatEncodeHigh s f k r else flatEncodeLow s f k r
      (match res with
       | some g => (st, toHex (bytesOfBlocks (g.data.extract 0 (r * len64))))
       | none => (st, "panic"))
    | _, _, _, _, _ => (st, "bad-op")
  | ["T", "evalpoly", trunc, marks] =>
    -- marks: comma-separated marked positions; answer: the 65536 logs, comma-separated
    match trunc.toNat?, (splitList marks).mapM (·.toNat?) with
    | some trunc, some ms =>
      let e : Array Nat := ms.foldl (fun a m => a.setIfInBounds m 1) (Array.replicate 65536 0)
      let out := evalPolyWith logWalshArr e trunc
      (st, ",".intercalate (out.toList.map toString))
    | _, _ => (st, "bad-op")
  | ["T", "locator", x, marks] =>
    -- spec-level: product over marked j ≠ x of (x ⊕ j), as a field element
    match x.toNat?, (splitList marks).mapM (·.toNat?) with
    | some x, some ms => (st, toString (locatorSpec ms x).toNat)
    | _, _ => (st, "bad-op")
  | ["C", "cauchy", rate, k, r, sb, shards] =>
    -- recovery shards by the closed-form generator matrix (spec level)
    match rate, k.toNat?, r.toNat?, sb.toNat?, parseShards shards with
    | "high", some k, some r, some sb, some l => (st, "ok " ++ showShards (cauchyEncodeBytes .high k r sb l))
    | "low", some k, some r, some sb, some l => (st, "ok " ++ showShards (cauchyEncodeBytes .low k r sb l))
    | _, _, _, _, _ => (st, "bad-op")
  | ["C", "scale", c, shard] =>
    match c.toNat?, parseHex shard with
    | some c, some b => (st, toHex (scaleBytes (BitVec.ofNat 16 c) b.size b))
    | _, _ => (st, "bad-op")
  | ["T", "lcheval", x, coeffs] =>
    match x.toNat?, parseSymbols coeffs with
    | some x, some c => (st, toString (lchEval c (BitVec.ofNat 16 x)).toNat)
    | _, _ => (st, "bad-op")
  | ["T", "consts"] =>
    (st, s!"{0x10000 + polyLow.toNat} " ++ ",".intercalate (cantorBasis.map fun x => toString x.toNat))
  | ["T", "cauchy", rate, k, r, j, i] =>
    match rate, k.toNat?, r.toNat?, j.toNat?, i.toNat? with
    | "high", some k, some r, some j, some i => (st, toString (cauchyHigh k r j i).toNat)
    | "low", some k, some r, some j, some i => (st, toString (cauchyLow k r j i).toNat)
    | _, _, _, _, _ => (st, "bad-op")
  | _ => (st, "bad-op")

partial def loop (h : IO.FS.Stream) (out : IO.FS.Stream) (st : Session) : IO Unit := do
  let line ← h.getLine
  if line.isEmpty then return ()
  if line.trimAscii.toString.isEmpty then
    out.flush
    loop h out st
  else
    let (st', ans) := handle st line
    out.putStrLn ans
    loop h out st'

def dumpNatFile (path : String) (n : Nat) (f : Nat → Nat) : IO Unit := do
  let h ← IO.FS.Handle.mk path .write
  let mut buf : String := ""
  for i in [0:n] do
    buf := buf ++ toString (f i) ++ "\n"
    if buf.length > 60000 then
      h.putStr buf
      buf := ""
  h.putStr buf
  h.flush

/-- `rsmodel tables <dir>`: table contents from the definitions, one decimal per line -/
def dumpTables (dir : String) : IO Unit := do
  dumpNatFile (dir ++ "/exp.txt") 65536 fun k => (gexpFast k).toNat
  dumpNatFile (dir ++ "/log.txt") 65536 fun c => logArr[c]!
  dumpNatFile (dir ++ "/skew.txt") 65535 skewLog
  dumpNatFile (dir ++ "/skewelem.txt") 65535 fun i => (skewElem i).toNat
  dumpNatFile (dir ++ "/logwalsh.txt") 65536 fun c => logWalshArr[c]!
  -- the same tables produced by the transliterated construction algorithms (Model/TableInit.lean)
  let (ie, il) := initExpLog
  let isk := initSkew ie il
  dumpNatFile (dir ++ "/init_exp.txt") 65536 fun k => ie.getD k 0
  dumpNatFile (dir ++ "/init_log.txt") 65536 fun c => il.getD c 0
  dumpNatFile (dir ++ "/init_skew.txt") 65535 fun i => isk.getD i 0
  -- products of the 16 unit symbols with every g^m: every mul16 / mul128 entry is an XOR of these
  dumpNatFile (dir ++ "/mulbasis.txt") (65536 * 16) fun t =>
    (gmul (BitVec.ofNat 16 (2 ^ (t % 16))) (gexpFast (t / 16))).toNat

def main (args : List String) : IO Unit := do
  match args with
  | ["tables", dir] => dumpTables dir
  | ["cap"] =>
    -- staircase: for every k the largest supported r, per flavour (0 = none)
    let out ← IO.getStdout
    for kind in [Kind.default, Kind.high, Kind.low] do
      let mut line := ""
      for k in [0:65538] do
        line := line ++ toString (capOf kind k) ++ " "
      out.putStrLn line
  | _ =>
    let stdin ← IO.getStdin
    let stdout ← IO.getStdout
    loop stdin stdout {}
