/-
  srccodec: runs the operation programs that rs2lean_codec.py translated from the current Rust codec bodies
  (Gen/SrcCodec.lean), interpreted with the model's primitives (Model/CodecInterp.lean), on one symbol lane,
  so that the harness can compare the *translation* with the implementation (validation of the translator).
    K enc <high|low> <naive|two> k r <s0,s1,…>           work memory (work_count symbols) -> first r symbols
    K dec <high|low> <naive|two> k r <recv bits> <s0,…>  work memory + received flags -> whole memory
    K ops enc|dec <high|low> k r [<work_count> <recv bits>] -> the program itself
-/
import RSVerif.Model.CodecInterp
import RSVerif.Model.Tables

open RS RS.RustC RS.SrcC

def parseSyms (s : String) : Option (Array Sym) :=
  if s = "-" then some #[] else (s.splitOn ",").toArray.mapM fun x => x.toNat?.map (BitVec.ofNat 16)

def showSyms (a : Array Sym) : String := ",".intercalate (a.toList.map fun x => toString x.toNat)

def parseBits (s : String) : Nat → Bool := fun i => (s.toList.getD i '0') == '1'

def sched (s : String) : Option Sched := match s with | "naive" => some .naive | "two" => some .twoLayer | _ => none

def answer (line : String) : String :=
  match line.trimAscii.toString.splitOn " " with
  | ["K", "enc", rate, sc, k, r, syms] =>
    match sched sc, k.toNat?, r.toNat?, parseSyms syms with
    | some s, some k, some r, some mem =>
      let prog := if rate = "high" then HighRateEncoder_encode k r else LowRateEncoder_encode k r
      (match prog with
       | some ops => "ok " ++ showSyms ((runOps s logWalshArr ops mem).mem.extract 0 r)
       | none => "overflow")
    | _, _, _, _ => "bad-op"
  | ["K", "dec", rate, sc, k, r, bits, syms] =>
    match sched sc, k.toNat?, r.toNat?, parseSyms syms with
    | some s, some k, some r, some mem =>
      let recv := parseBits bits
      let prog := if rate = "high" then HighRateDecoder_decode k r mem.size recv else LowRateDecoder_decode k r mem.size recv
      (match prog with
       | some ops => "ok " ++ showSyms (runOps s logWalshArr ops mem).mem
       | none => "overflow")
    | _, _, _, _ => "bad-op"
  | _ => "bad-op"

partial def loop (h : IO.FS.Stream) (out : IO.FS.Stream) : IO Unit := do
  let line ← h.getLine
  if line.isEmpty then return ()
  out.putStrLn (answer line)
  loop h out

def main : IO Unit := do
  let out ← IO.getStdout
  loop (← IO.getStdin) out
  out.flush
