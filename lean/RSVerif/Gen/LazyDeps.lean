/-
  GENERATED on every run of the C16 check by `rsharness c16-gen` from the running code:
  for each lazily initialised table (0 = EXP_LOG, 1 = LOG_WALSH, 2 = MUL16, 3 = MUL128, 4 = SKEW)
  the other tables that are initialised after forcing only that table in a fresh process
  (observed with `LazyLock::get`).  Do not edit.
-/
import RSVerif.Proofs.LazyProofs

namespace RS.Gen

def observedDeps : List (List Nat) := [[], [0], [0], [0], [0]]

def observedRank : List Nat := [0, 1, 1, 1, 1]

theorem observed_rank_ok : rankOk observedDeps observedRank = true := by decide

end RS.Gen
