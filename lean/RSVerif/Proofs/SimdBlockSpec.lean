/-
  The per-block kernels of the four engine families (Model/SimdBlock.lean) equal the symbol-level
  specification.
-/
import RSVerif.Proofs.SimdSpec
import RSVerif.Proofs.BlocksSpec
import RSVerif.Model.SimdBlock

namespace RS

/-! ### vectors of bytes: total access -/

theorem vget {n : Nat} (a : Vector Byte n) (j : Nat) (h : j < n) : a.toArray.getD j 0#8 = a[j] := by
  have : j < a.toArray.size := by rw [Vector.size_toArray]; exact h
  rw [Array.getD_eq_getD_getElem?, Array.getElem?_eq_getElem this]
  rfl

theorem vget_ofFn {n : Nat} (f : Fin n → Byte) (j : Nat) (h : j < n) :
    (Vector.ofFn f).toArray.getD j 0#8 = f ⟨j, h⟩ := by
  rw [vget _ _ h, Vector.getElem_ofFn]

theorem vget_zipWith {n : Nat} (f : Byte → Byte → Byte) (a b : Vector Byte n) (j : Nat) (h : j < n) :
    (Vector.zipWith f a b).toArray.getD j 0#8 = f (a.toArray.getD j 0#8) (b.toArray.getD j 0#8) := by
  rw [vget _ _ h, vget _ _ h, vget _ _ h, Vector.getElem_zipWith]

theorem vget_replicate {n : Nat} (x : Byte) (j : Nat) (h : j < n) :
    (Vector.replicate n x).toArray.getD j 0#8 = x := by
  rw [vget _ _ h, Vector.getElem_replicate]

theorem vext {n : Nat} (a b : Vector Byte n)
    (h : ∀ j, j < n → a.toArray.getD j 0#8 = b.toArray.getD j 0#8) : a = b := by
  apply Vector.ext
  intro j hj
  rw [← vget a j hj, ← vget b j hj]
  exact h j hj

/-- `a[i]` for `i : Fin 16` in total form -/
theorem v128_fin (a : V128) (i : Fin 16) : a[i] = a.toArray.getD i.val 0#8 := by
  rw [v128_getD a i.val i.isLt]; rfl

/-! ### the block-level specification -/

theorem joinBytes_toNat (l h : Byte) : (joinBytes l h).toNat = l.toNat + 256 * h.toNat :=
  symOfBytes_toNat l h

theorem joinBytes_inj (l h l' h' : Byte) (e : joinBytes l h = joinBytes l' h') : l = l' ∧ h = h' := by
  have e' := congrArg BitVec.toNat e
  rw [joinBytes_toNat, joinBytes_toNat] at e'
  have := l.isLt
  have := l'.isLt
  constructor <;> apply BitVec.eq_of_toNat_eq <;> omega

theorem blockSym_eq (b : Block) (i : Fin 32) :
    blockSym b i = joinBytes (b.toArray.getD i.val 0#8) (b.toArray.getD (i.val + 32) 0#8) := rfl

/-- a block is determined by its 32 symbols -/
theorem block_ext_sym (b b' : Block) (h : ∀ i : Fin 32, blockSym b i = blockSym b' i) : b = b' := by
  apply vext
  intro j hj
  by_cases hlt : j < 32
  · have e := h ⟨j, hlt⟩
    rw [blockSym_eq, blockSym_eq] at e
    exact (joinBytes_inj _ _ _ _ e).1
  · have e := h ⟨j - 32, by omega⟩
    rw [blockSym_eq, blockSym_eq] at e
    have e2 := (joinBytes_inj _ _ _ _ e).2
    have : j - 32 + 32 = j := by omega
    simp only [this] at e2
    exact e2

theorem specMulBlock_lo (f : Sym → Sym) (b : Block) (i : Fin 32) :
    (specMulBlock f b).toArray.getD i.val 0#8 = BitVec.ofNat 8 ((f (blockSym b i)).toNat % 256) := by
  unfold specMulBlock
  rw [vget_ofFn _ _ (by omega)]
  have h1 : i.val % 32 = i.val := by omega
  simp only [h1, i.isLt, if_true]
  rfl

theorem specMulBlock_hi (f : Sym → Sym) (b : Block) (i : Fin 32) :
    (specMulBlock f b).toArray.getD (i.val + 32) 0#8 = BitVec.ofNat 8 ((f (blockSym b i)).toNat / 256) := by
  unfold specMulBlock
  rw [vget_ofFn _ _ (by omega)]
  have h1 : (i.val + 32) % 32 = i.val := by omega
  have h2 : ¬ i.val + 32 < 32 := by omega
  simp only [h1, h2, if_false]
  rfl

/-- symbol `i` of `specMulBlock f b` is `f` of symbol `i` of `b` -/
theorem blockSym_specMulBlock (f : Sym → Sym) (b : Block) (i : Fin 32) :
    blockSym (specMulBlock f b) i = f (blockSym b i) := by
  rw [blockSym_eq, specMulBlock_lo, specMulBlock_hi, joinBytes_split]

theorem blockXor_getD (x y : Block) (j : Nat) (h : j < 64) :
    (blockXor x y).toArray.getD j 0#8 = x.toArray.getD j 0#8 ^^^ y.toArray.getD j 0#8 := by
  unfold blockXor
  rw [vget_zipWith _ _ _ _ h]

theorem blockSym_blockXor (x y : Block) (i : Fin 32) :
    blockSym (blockXor x y) i = blockSym x i ^^^ blockSym y i := by
  rw [blockSym_eq, blockSym_eq, blockSym_eq, blockXor_getD _ _ _ (by omega),
    blockXor_getD _ _ _ (by omega), joinBytes_xor]

/-! ### quarters -/

theorem blockQuarter_getD (b : Block) (q j : Nat) (hj : j < 16) :
    (blockQuarter b q).toArray.getD j 0#8 = b.toArray.getD (16 * q + j) 0#8 := by
  unfold blockQuarter
  rw [vget_ofFn _ _ hj]

theorem blockOfQuarters_getD0 (q0 q1 q2 q3 : V128) (j : Nat) (hj : j < 16) :
    (blockOfQuarters q0 q1 q2 q3).toArray.getD j 0#8 = q0.toArray.getD j 0#8 := by
  unfold blockOfQuarters
  rw [vget_ofFn _ _ (by omega)]
  simp only [hj, if_true]

theorem blockOfQuarters_getD1 (q0 q1 q2 q3 : V128) (j : Nat) (hj : j < 16) :
    (blockOfQuarters q0 q1 q2 q3).toArray.getD (j + 16) 0#8 = q1.toArray.getD j 0#8 := by
  unfold blockOfQuarters
  rw [vget_ofFn _ _ (by omega)]
  have h1 : ¬ j + 16 < 16 := by omega
  have h2 : j + 16 < 32 := by omega
  have h3 : j + 16 - 16 = j := by omega
  simp only [h1, h2, h3, if_true, if_false]

theorem blockOfQuarters_getD2 (q0 q1 q2 q3 : V128) (j : Nat) (hj : j < 16) :
    (blockOfQuarters q0 q1 q2 q3).toArray.getD (j + 32) 0#8 = q2.toArray.getD j 0#8 := by
  unfold blockOfQuarters
  rw [vget_ofFn _ _ (by omega)]
  have h1 : ¬ j + 32 < 16 := by omega
  have h2 : ¬ j + 32 < 32 := by omega
  have h3 : j + 32 < 48 := by omega
  have h4 : j + 32 - 32 = j := by omega
  simp only [h1, h2, h3, h4, if_true, if_false]

theorem blockOfQuarters_getD3 (q0 q1 q2 q3 : V128) (j : Nat) (hj : j < 16) :
    (blockOfQuarters q0 q1 q2 q3).toArray.getD (j + 48) 0#8 = q3.toArray.getD j 0#8 := by
  unfold blockOfQuarters
  rw [vget_ofFn _ _ (by omega)]
  have h1 : ¬ j + 48 < 16 := by omega
  have h2 : ¬ j + 48 < 32 := by omega
  have h3 : ¬ j + 48 < 48 := by omega
  have h4 : j + 48 - 48 = j := by omega
  simp only [h1, h2, h3, h4, if_false]

/-- a statement about all 64 bytes, split by quarter -/
theorem forall_lt64 (P : Nat → Prop) (h0 : ∀ j, j < 16 → P j) (h1 : ∀ j, j < 16 → P (j + 16))
    (h2 : ∀ j, j < 16 → P (j + 32)) (h3 : ∀ j, j < 16 → P (j + 48)) : ∀ j, j < 64 → P j := by
  intro j hj
  by_cases c0 : j < 16
  · exact h0 j c0
  · by_cases c1 : j < 32
    · have := h1 (j - 16) (by omega); rwa [show j - 16 + 16 = j by omega] at this
    · by_cases c2 : j < 48
      · have := h2 (j - 32) (by omega); rwa [show j - 32 + 32 = j by omega] at this
      · have := h3 (j - 48) (by omega); rwa [show j - 48 + 48 = j by omega] at this

/-- loading the four quarters and storing them back is the identity -/
theorem blockOfQuarters_quarters (b : Block) :
    blockOfQuarters (blockQuarter b 0) (blockQuarter b 1) (blockQuarter b 2) (blockQuarter b 3) = b := by
  apply vext
  apply forall_lt64 <;> intro j hj
  · rw [blockOfQuarters_getD0 _ _ _ _ _ hj, blockQuarter_getD _ _ _ hj]; congr 1; omega
  · rw [blockOfQuarters_getD1 _ _ _ _ _ hj, blockQuarter_getD _ _ _ hj]; congr 1; omega
  · rw [blockOfQuarters_getD2 _ _ _ _ _ hj, blockQuarter_getD _ _ _ hj]; congr 1; omega
  · rw [blockOfQuarters_getD3 _ _ _ _ _ hj, blockQuarter_getD _ _ _ hj]; congr 1; omega

theorem v128xor_getD (a b : V128) (j : Nat) (hj : j < 16) :
    (v128xor a b).toArray.getD j 0#8 = a.toArray.getD j 0#8 ^^^ b.toArray.getD j 0#8 := by
  unfold v128xor
  rw [vget_zipWith _ _ _ _ hj]

/-- storing quarter-wise xors is the bytewise xor of the stored blocks -/
theorem blockOfQuarters_xor (a0 a1 a2 a3 b0 b1 b2 b3 : V128) :
    blockOfQuarters (v128xor a0 b0) (v128xor a1 b1) (v128xor a2 b2) (v128xor a3 b3) =
      blockXor (blockOfQuarters a0 a1 a2 a3) (blockOfQuarters b0 b1 b2 b3) := by
  apply vext
  apply forall_lt64 <;> intro j hj
  · rw [blockXor_getD _ _ _ (by omega), blockOfQuarters_getD0 _ _ _ _ _ hj,
      blockOfQuarters_getD0 _ _ _ _ _ hj, blockOfQuarters_getD0 _ _ _ _ _ hj, v128xor_getD _ _ _ hj]
  · rw [blockXor_getD _ _ _ (by omega), blockOfQuarters_getD1 _ _ _ _ _ hj,
      blockOfQuarters_getD1 _ _ _ _ _ hj, blockOfQuarters_getD1 _ _ _ _ _ hj, v128xor_getD _ _ _ hj]
  · rw [blockXor_getD _ _ _ (by omega), blockOfQuarters_getD2 _ _ _ _ _ hj,
      blockOfQuarters_getD2 _ _ _ _ _ hj, blockOfQuarters_getD2 _ _ _ _ _ hj, v128xor_getD _ _ _ hj]
  · rw [blockXor_getD _ _ _ (by omega), blockOfQuarters_getD3 _ _ _ _ _ hj,
      blockOfQuarters_getD3 _ _ _ _ _ hj, blockOfQuarters_getD3 _ _ _ _ _ hj, v128xor_getD _ _ _ hj]

/-- loading a quarter of a bytewise xor -/
theorem blockQuarter_xor (x y : Block) (q : Nat) (hq : q < 4) :
    blockQuarter (blockXor x y) q = v128xor (blockQuarter x q) (blockQuarter y q) := by
  apply vext
  intro j hj
  rw [v128xor_getD _ _ _ hj, blockQuarter_getD _ _ _ hj, blockQuarter_getD _ _ _ hj,
    blockQuarter_getD _ _ _ hj, blockXor_getD _ _ _ (by omega)]

/-- symbols of a block stored quarter-wise: first 16 from quarters 0 / 2, last 16 from 1 / 3 -/
theorem blockSym_blockOfQuarters_lo (q0 q1 q2 q3 : V128) (i : Fin 32) (h : i.val < 16) :
    blockSym (blockOfQuarters q0 q1 q2 q3) i = symOf q0 q2 ⟨i.val, h⟩ := by
  rw [blockSym_eq, symOf_eq, blockOfQuarters_getD0 _ _ _ _ _ h, blockOfQuarters_getD2 _ _ _ _ _ h,
    v128_fin, v128_fin]

theorem blockSym_blockOfQuarters_hi (q0 q1 q2 q3 : V128) (i : Fin 32) (h : ¬ i.val < 16) :
    blockSym (blockOfQuarters q0 q1 q2 q3) i = symOf q1 q3 ⟨i.val - 16, by omega⟩ := by
  have hlt : i.val - 16 < 16 := by omega
  have e1 : i.val = i.val - 16 + 16 := by omega
  have e2 : i.val + 32 = i.val - 16 + 48 := by omega
  rw [blockSym_eq, symOf_eq, v128_fin, v128_fin]
  conv => lhs; rw [e2]; arg 1; rw [e1]
  rw [blockOfQuarters_getD1 _ _ _ _ _ hlt, blockOfQuarters_getD3 _ _ _ _ _ hlt]

theorem symOf_quarters_lo (b : Block) (i : Fin 32) (h : i.val < 16) :
    symOf (blockQuarter b 0) (blockQuarter b 2) ⟨i.val, h⟩ = blockSym b i := by
  rw [blockSym_eq, symOf_eq, v128_fin, v128_fin, blockQuarter_getD _ _ _ h, blockQuarter_getD _ _ _ h]
  congr 2 <;> omega

theorem symOf_quarters_hi (b : Block) (i : Fin 32) (h : ¬ i.val < 16) :
    symOf (blockQuarter b 1) (blockQuarter b 3) ⟨i.val - 16, by omega⟩ = blockSym b i := by
  have hlt : i.val - 16 < 16 := by omega
  rw [blockSym_eq, symOf_eq, v128_fin, v128_fin, blockQuarter_getD _ _ _ hlt,
    blockQuarter_getD _ _ _ hlt]
  congr 2 <;> omega

/-! ### Ssse3 -/

/-- every symbol of the block goes through the four nibble tables -/
theorem ssse3MulBlock_sym (mulf : Sym → Sym) (b : Block) (i : Fin 32) :
    blockSym (ssse3MulBlock mulf b) i = mulNibble mulf (blockSym b i) := by
  unfold ssse3MulBlock
  by_cases h : i.val < 16
  · rw [blockSym_blockOfQuarters_lo _ _ _ _ i h, mul128_nibble, symOf_quarters_lo _ i h]
  · rw [blockSym_blockOfQuarters_hi _ _ _ _ i h, mul128_nibble, symOf_quarters_hi _ i h]

/-- T1 (Ssse3) -/
theorem ssse3MulBlock_spec (mulf : Sym → Sym) (b : Block) :
    ssse3MulBlock mulf b = specMulBlock (mulNibble mulf) b := by
  apply block_ext_sym
  intro i
  rw [ssse3MulBlock_sym, blockSym_specMulBlock]

theorem muladd128_fst (mulf : Sym → Sym) (xLo xHi yLo yHi : V128) :
    (muladd128 mulf xLo xHi yLo yHi).1 = v128xor xLo (mul128 mulf yLo yHi).1 := rfl

theorem muladd128_snd (mulf : Sym → Sym) (xLo xHi yLo yHi : V128) :
    (muladd128 mulf xLo xHi yLo yHi).2 = v128xor xHi (mul128 mulf yLo yHi).2 := rfl

/-- `muladd_128` on both halves is: xor with the multiplied block -/
theorem ssse3MulAdd_eq (mulf : Sym → Sym) (x y : Block) :
    ssse3MulAdd mulf x y = blockXor x (ssse3MulBlock mulf y) := by
  unfold ssse3MulAdd ssse3MulBlock
  simp only [muladd128_fst, muladd128_snd]
  rw [blockOfQuarters_xor, blockOfQuarters_quarters]

theorem ssse3MulAdd_spec (mulf : Sym → Sym) (x y : Block) :
    ssse3MulAdd mulf x y = blockXor x (specMulBlock (mulNibble mulf) y) := by
  rw [ssse3MulAdd_eq, ssse3MulBlock_spec]

theorem ssse3Fftb_eq (mulf : Sym → Sym) (x y : Block) :
    ssse3Fftb mulf x y = (ssse3MulAdd mulf x y, blockXor y (ssse3MulAdd mulf x y)) := by
  unfold ssse3Fftb ssse3MulAdd
  simp only []
  rw [blockOfQuarters_xor, blockOfQuarters_quarters]

theorem ssse3Ifftb_eq (mulf : Sym → Sym) (x y : Block) :
    ssse3Ifftb mulf x y = (ssse3MulAdd mulf x (blockXor y x), blockXor y x) := by
  unfold ssse3Ifftb ssse3MulAdd
  simp only []
  rw [blockOfQuarters_xor, blockOfQuarters_quarters, blockOfQuarters_quarters,
    blockQuarter_xor _ _ 0 (by omega), blockQuarter_xor _ _ 1 (by omega),
    blockQuarter_xor _ _ 2 (by omega), blockQuarter_xor _ _ 3 (by omega)]

/-- T4 (Ssse3, fft): `x' = x ^ y·m`, `y' = y ^ x'` (operand order of the code) -/
theorem ssse3Fftb_spec (mulf : Sym → Sym) (x y : Block) :
    ssse3Fftb mulf x y =
      (blockXor x (specMulBlock (mulNibble mulf) y),
       blockXor y (blockXor x (specMulBlock (mulNibble mulf) y))) := by
  rw [ssse3Fftb_eq, ssse3MulAdd_spec]

/-- T4 (Ssse3, ifft): `y' = y ^ x`, `x' = x ^ y'·m` (operand order of the code) -/
theorem ssse3Ifftb_spec (mulf : Sym → Sym) (x y : Block) :
    ssse3Ifftb mulf x y =
      (blockXor x (specMulBlock (mulNibble mulf) (blockXor y x)), blockXor y x) := by
  rw [ssse3Ifftb_eq, ssse3MulAdd_spec]

end RS
