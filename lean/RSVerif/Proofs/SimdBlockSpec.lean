/-
  The per-block kernels of the four engine families (Model/SimdBlock.lean) equal the symbol-level
  specification.
-/
import RSVerif.Proofs.SimdSpec
import RSVerif.Proofs.BlocksSpec
import RSVerif.Model.SimdBlock

namespace RS

/-! ### vectors of bytes: total access -/

theorem vget {n : Nat} (a : Vector Byte n) (j : Nat) (h : j < n) : a.toArray.getD j 0#8 = a[j] := by
  have : j < a.toArray.size := by rw [Vector.size_toArray]; exact h
  rw [Array.getD_eq_getD_getElem?, Array.getElem?_eq_getElem this]
  rfl

theorem vget_ofFn {n : Nat} (f : Fin n → Byte) (j : Nat) (h : j < n) :
    (Vector.ofFn f).toArray.getD j 0#8 = f ⟨j, h⟩ := by
  rw [vget _ _ h, Vector.getElem_ofFn]

theorem vget_zipWith {n : Nat} (f : Byte → Byte → Byte) (a b : Vector Byte n) (j : Nat) (h : j < n) :
    (Vector.zipWith f a b).toArray.getD j 0#8 = f (a.toArray.getD j 0#8) (b.toArray.getD j 0#8) := by
  rw [vget _ _ h, vget _ _ h, vget _ _ h, Vector.getElem_zipWith]

theorem vget_replicate {n : Nat} (x : Byte) (j : Nat) (h : j < n) :
    (Vector.replicate n x).toArray.getD j 0#8 = x := by
  rw [vget _ _ h, Vector.getElem_replicate]

theorem vext {n : Nat} (a b : Vector Byte n)
    (h : ∀ j, j < n → a.toArray.getD j 0#8 = b.toArray.getD j 0#8) : a = b := by
  apply Vector.ext
  intro j hj
  rw [← vget a j hj, ← vget b j hj]
  exact h j hj

/-- `a[i]` for `i : Fin 16` in total form -/
theorem v128_fin (a : V128) (i : Fin 16) : a[i] = a.toArray.getD i.val 0#8 := by
  rw [v128_getD a i.val i.isLt]; rfl

/-! ### the block-level specification -/

theorem joinBytes_toNat (l h : Byte) : (joinBytes l h).toNat = l.toNat + 256 * h.toNat :=
  symOfBytes_toNat l h

theorem joinBytes_inj (l h l' h' : Byte) (e : joinBytes l h = joinBytes l' h') : l = l' ∧ h = h' := by
  have e' := congrArg BitVec.toNat e
  rw [joinBytes_toNat, joinBytes_toNat] at e'
  have := l.isLt
  have := l'.isLt
  constructor <;> apply BitVec.eq_of_toNat_eq <;> omega

theorem blockSym_eq (b : Block) (i : Fin 32) :
    blockSym b i = joinBytes (b.toArray.getD i.val 0#8) (b.toArray.getD (i.val + 32) 0#8) := rfl

/-- a block is determined by its 32 symbols -/
theorem block_ext_sym (b b' : Block) (h : ∀ i : Fin 32, blockSym b i = blockSym b' i) : b = b' := by
  apply vext
  intro j hj
  by_cases hlt : j < 32
  · have e := h ⟨j, hlt⟩
    rw [blockSym_eq, blockSym_eq] at e
    exact (joinBytes_inj _ _ _ _ e).1
  · have e := h ⟨j - 32, by omega⟩
    rw [blockSym_eq, blockSym_eq] at e
    have e2 := (joinBytes_inj _ _ _ _ e).2
    have : j - 32 + 32 = j := by omega
    simp only [this] at e2
    exact e2

theorem specMulBlock_lo (f : Sym → Sym) (b : Block) (i : Fin 32) :
    (specMulBlock f b).toArray.getD i.val 0#8 = BitVec.ofNat 8 ((f (blockSym b i)).toNat % 256) := by
  unfold specMulBlock
  rw [vget_ofFn _ _ (by omega)]
  have h1 : i.val % 32 = i.val := by omega
  simp only [h1, i.isLt, if_true]
  rfl

theorem specMulBlock_hi (f : Sym → Sym) (b : Block) (i : Fin 32) :
    (specMulBlock f b).toArray.getD (i.val + 32) 0#8 = BitVec.ofNat 8 ((f (blockSym b i)).toNat / 256) := by
  unfold specMulBlock
  rw [vget_ofFn _ _ (by omega)]
  have h1 : (i.val + 32) % 32 = i.val := by omega
  have h2 : ¬ i.val + 32 < 32 := by omega
  simp only [h1, h2, if_false]
  rfl

/-- symbol `i` of `specMulBlock f b` is `f` of symbol `i` of `b` -/
theorem blockSym_specMulBlock (f : Sym → Sym) (b : Block) (i : Fin 32) :
    blockSym (specMulBlock f b) i = f (blockSym b i) := by
  rw [blockSym_eq, specMulBlock_lo, specMulBlock_hi, joinBytes_split]

theorem blockXor_getD (x y : Block) (j : Nat) (h : j < 64) :
    (blockXor x y).toArray.getD j 0#8 = x.toArray.getD j 0#8 ^^^ y.toArray.getD j 0#8 := by
  unfold blockXor
  rw [vget_zipWith _ _ _ _ h]

theorem blockSym_blockXor (x y : Block) (i : Fin 32) :
    blockSym (blockXor x y) i = blockSym x i ^^^ blockSym y i := by
  rw [blockSym_eq, blockSym_eq, blockSym_eq, blockXor_getD _ _ _ (by omega),
    blockXor_getD _ _ _ (by omega), joinBytes_xor]

/-! ### quarters -/

theorem blockQuarter_getD (b : Block) (q j : Nat) (hj : j < 16) :
    (blockQuarter b q).toArray.getD j 0#8 = b.toArray.getD (16 * q + j) 0#8 := by
  unfold blockQuarter
  rw [vget_ofFn _ _ hj]

theorem blockOfQuarters_getD0 (q0 q1 q2 q3 : V128) (j : Nat) (hj : j < 16) :
    (blockOfQuarters q0 q1 q2 q3).toArray.getD j 0#8 = q0.toArray.getD j 0#8 := by
  unfold blockOfQuarters
  rw [vget_ofFn _ _ (by omega)]
  simp only [hj, if_true]

theorem blockOfQuarters_getD1 (q0 q1 q2 q3 : V128) (j : Nat) (hj : j < 16) :
    (blockOfQuarters q0 q1 q2 q3).toArray.getD (j + 16) 0#8 = q1.toArray.getD j 0#8 := by
  unfold blockOfQuarters
  rw [vget_ofFn _ _ (by omega)]
  have h1 : ¬ j + 16 < 16 := by omega
  have h2 : j + 16 < 32 := by omega
  have h3 : j + 16 - 16 = j := by omega
  simp only [h1, h2, h3, if_true, if_false]

theorem blockOfQuarters_getD2 (q0 q1 q2 q3 : V128) (j : Nat) (hj : j < 16) :
    (blockOfQuarters q0 q1 q2 q3).toArray.getD (j + 32) 0#8 = q2.toArray.getD j 0#8 := by
  unfold blockOfQuarters
  rw [vget_ofFn _ _ (by omega)]
  have h1 : ¬ j + 32 < 16 := by omega
  have h2 : ¬ j + 32 < 32 := by omega
  have h3 : j + 32 < 48 := by omega
  have h4 : j + 32 - 32 = j := by omega
  simp only [h1, h2, h3, h4, if_true, if_false]

theorem blockOfQuarters_getD3 (q0 q1 q2 q3 : V128) (j : Nat) (hj : j < 16) :
    (blockOfQuarters q0 q1 q2 q3).toArray.getD (j + 48) 0#8 = q3.toArray.getD j 0#8 := by
  unfold blockOfQuarters
  rw [vget_ofFn _ _ (by omega)]
  have h1 : ¬ j + 48 < 16 := by omega
  have h2 : ¬ j + 48 < 32 := by omega
  have h3 : ¬ j + 48 < 48 := by omega
  have h4 : j + 48 - 48 = j := by omega
  simp only [h1, h2, h3, h4, if_false]

/-- a statement about all 64 bytes, split by quarter -/
theorem forall_lt64 (P : Nat → Prop) (h0 : ∀ j, j < 16 → P j) (h1 : ∀ j, j < 16 → P (j + 16))
    (h2 : ∀ j, j < 16 → P (j + 32)) (h3 : ∀ j, j < 16 → P (j + 48)) : ∀ j, j < 64 → P j := by
  intro j hj
  by_cases c0 : j < 16
  · exact h0 j c0
  · by_cases c1 : j < 32
    · have := h1 (j - 16) (by omega); rwa [show j - 16 + 16 = j by omega] at this
    · by_cases c2 : j < 48
      · have := h2 (j - 32) (by omega); rwa [show j - 32 + 32 = j by omega] at this
      · have := h3 (j - 48) (by omega); rwa [show j - 48 + 48 = j by omega] at this

/-- loading the four quarters and storing them back is the identity -/
theorem blockOfQuarters_quarters (b : Block) :
    blockOfQuarters (blockQuarter b 0) (blockQuarter b 1) (blockQuarter b 2) (blockQuarter b 3) = b := by
  apply vext
  apply forall_lt64 <;> intro j hj
  · rw [blockOfQuarters_getD0 _ _ _ _ _ hj, blockQuarter_getD _ _ _ hj]; congr 1; omega
  · rw [blockOfQuarters_getD1 _ _ _ _ _ hj, blockQuarter_getD _ _ _ hj]; congr 1; omega
  · rw [blockOfQuarters_getD2 _ _ _ _ _ hj, blockQuarter_getD _ _ _ hj]; congr 1; omega
  · rw [blockOfQuarters_getD3 _ _ _ _ _ hj, blockQuarter_getD _ _ _ hj]; congr 1; omega

theorem v128xor_getD (a b : V128) (j : Nat) (hj : j < 16) :
    (v128xor a b).toArray.getD j 0#8 = a.toArray.getD j 0#8 ^^^ b.toArray.getD j 0#8 := by
  unfold v128xor
  rw [vget_zipWith _ _ _ _ hj]

/-- storing quarter-wise xors is the bytewise xor of the stored blocks -/
theorem blockOfQuarters_xor (a0 a1 a2 a3 b0 b1 b2 b3 : V128) :
    blockOfQuarters (v128xor a0 b0) (v128xor a1 b1) (v128xor a2 b2) (v128xor a3 b3) =
      blockXor (blockOfQuarters a0 a1 a2 a3) (blockOfQuarters b0 b1 b2 b3) := by
  apply vext
  apply forall_lt64 <;> intro j hj
  · rw [blockXor_getD _ _ _ (by omega), blockOfQuarters_getD0 _ _ _ _ _ hj,
      blockOfQuarters_getD0 _ _ _ _ _ hj, blockOfQuarters_getD0 _ _ _ _ _ hj, v128xor_getD _ _ _ hj]
  · rw [blockXor_getD _ _ _ (by omega), blockOfQuarters_getD1 _ _ _ _ _ hj,
      blockOfQuarters_getD1 _ _ _ _ _ hj, blockOfQuarters_getD1 _ _ _ _ _ hj, v128xor_getD _ _ _ hj]
  · rw [blockXor_getD _ _ _ (by omega), blockOfQuarters_getD2 _ _ _ _ _ hj,
      blockOfQuarters_getD2 _ _ _ _ _ hj, blockOfQuarters_getD2 _ _ _ _ _ hj, v128xor_getD _ _ _ hj]
  · rw [blockXor_getD _ _ _ (by omega), blockOfQuarters_getD3 _ _ _ _ _ hj,
      blockOfQuarters_getD3 _ _ _ _ _ hj, blockOfQuarters_getD3 _ _ _ _ _ hj, v128xor_getD _ _ _ hj]

/-- loading a quarter of a bytewise xor -/
theorem blockQuarter_xor (x y : Block) (q : Nat) (hq : q < 4) :
    blockQuarter (blockXor x y) q = v128xor (blockQuarter x q) (blockQuarter y q) := by
  apply vext
  intro j hj
  rw [v128xor_getD _ _ _ hj, blockQuarter_getD _ _ _ hj, blockQuarter_getD _ _ _ hj,
    blockQuarter_getD _ _ _ hj, blockXor_getD _ _ _ (by omega)]

/-- symbols of a block stored quarter-wise: first 16 from quarters 0 / 2, last 16 from 1 / 3 -/
theorem blockSym_blockOfQuarters_lo (q0 q1 q2 q3 : V128) (i : Fin 32) (h : i.val < 16) :
    blockSym (blockOfQuarters q0 q1 q2 q3) i = symOf q0 q2 ⟨i.val, h⟩ := by
  rw [blockSym_eq, symOf_eq, blockOfQuarters_getD0 _ _ _ _ _ h, blockOfQuarters_getD2 _ _ _ _ _ h,
    v128_fin, v128_fin]

theorem blockSym_blockOfQuarters_hi (q0 q1 q2 q3 : V128) (i : Fin 32) (h : ¬ i.val < 16) :
    blockSym (blockOfQuarters q0 q1 q2 q3) i = symOf q1 q3 ⟨i.val - 16, by omega⟩ := by
  have hlt : i.val - 16 < 16 := by omega
  have e1 : i.val = i.val - 16 + 16 := by omega
  have e2 : i.val + 32 = i.val - 16 + 48 := by omega
  rw [blockSym_eq, symOf_eq, v128_fin, v128_fin]
  conv => lhs; rw [e2]; arg 1; rw [e1]
  rw [blockOfQuarters_getD1 _ _ _ _ _ hlt, blockOfQuarters_getD3 _ _ _ _ _ hlt]

theorem symOf_quarters_lo (b : Block) (i : Fin 32) (h : i.val < 16) :
    symOf (blockQuarter b 0) (blockQuarter b 2) ⟨i.val, h⟩ = blockSym b i := by
  rw [blockSym_eq, symOf_eq, v128_fin, v128_fin, blockQuarter_getD _ _ _ h, blockQuarter_getD _ _ _ h]
  congr 2 <;> omega

theorem symOf_quarters_hi (b : Block) (i : Fin 32) (h : ¬ i.val < 16) :
    symOf (blockQuarter b 1) (blockQuarter b 3) ⟨i.val - 16, by omega⟩ = blockSym b i := by
  have hlt : i.val - 16 < 16 := by omega
  rw [blockSym_eq, symOf_eq, v128_fin, v128_fin, blockQuarter_getD _ _ _ hlt,
    blockQuarter_getD _ _ _ hlt]
  congr 2 <;> omega

/-! ### Ssse3 -/

/-- every symbol of the block goes through the four nibble tables -/
theorem ssse3MulBlock_sym (mulf : Sym → Sym) (b : Block) (i : Fin 32) :
    blockSym (ssse3MulBlock mulf b) i = mulNibble mulf (blockSym b i) := by
  unfold ssse3MulBlock
  by_cases h : i.val < 16
  · rw [blockSym_blockOfQuarters_lo _ _ _ _ i h, mul128_nibble, symOf_quarters_lo _ i h]
  · rw [blockSym_blockOfQuarters_hi _ _ _ _ i h, mul128_nibble, symOf_quarters_hi _ i h]

/-- T1 (Ssse3) -/
theorem ssse3MulBlock_spec (mulf : Sym → Sym) (b : Block) :
    ssse3MulBlock mulf b = specMulBlock (mulNibble mulf) b := by
  apply block_ext_sym
  intro i
  rw [ssse3MulBlock_sym, blockSym_specMulBlock]

theorem muladd128_fst (mulf : Sym → Sym) (xLo xHi yLo yHi : V128) :
    (muladd128 mulf xLo xHi yLo yHi).1 = v128xor xLo (mul128 mulf yLo yHi).1 := rfl

theorem muladd128_snd (mulf : Sym → Sym) (xLo xHi yLo yHi : V128) :
    (muladd128 mulf xLo xHi yLo yHi).2 = v128xor xHi (mul128 mulf yLo yHi).2 := rfl

/-- `muladd_128` on both halves is: xor with the multiplied block -/
theorem ssse3MulAdd_eq (mulf : Sym → Sym) (x y : Block) :
    ssse3MulAdd mulf x y = blockXor x (ssse3MulBlock mulf y) := by
  unfold ssse3MulAdd ssse3MulBlock
  simp only [muladd128_fst, muladd128_snd]
  rw [blockOfQuarters_xor, blockOfQuarters_quarters]

theorem ssse3MulAdd_spec (mulf : Sym → Sym) (x y : Block) :
    ssse3MulAdd mulf x y = blockXor x (specMulBlock (mulNibble mulf) y) := by
  rw [ssse3MulAdd_eq, ssse3MulBlock_spec]

theorem ssse3Fftb_eq (mulf : Sym → Sym) (x y : Block) :
    ssse3Fftb mulf x y = (ssse3MulAdd mulf x y, blockXor y (ssse3MulAdd mulf x y)) := by
  unfold ssse3Fftb ssse3MulAdd
  simp only []
  rw [blockOfQuarters_xor, blockOfQuarters_quarters]

theorem ssse3Ifftb_eq (mulf : Sym → Sym) (x y : Block) :
    ssse3Ifftb mulf x y = (ssse3MulAdd mulf x (blockXor y x), blockXor y x) := by
  unfold ssse3Ifftb ssse3MulAdd
  simp only []
  rw [blockOfQuarters_xor, blockOfQuarters_quarters, blockOfQuarters_quarters,
    blockQuarter_xor _ _ 0 (by omega), blockQuarter_xor _ _ 1 (by omega),
    blockQuarter_xor _ _ 2 (by omega), blockQuarter_xor _ _ 3 (by omega)]

/-- T4 (Ssse3, fft): `x' = x ^ y·m`, `y' = y ^ x'` (operand order of the code) -/
theorem ssse3Fftb_spec (mulf : Sym → Sym) (x y : Block) :
    ssse3Fftb mulf x y =
      (blockXor x (specMulBlock (mulNibble mulf) y),
       blockXor y (blockXor x (specMulBlock (mulNibble mulf) y))) := by
  rw [ssse3Fftb_eq, ssse3MulAdd_spec]

/-- T4 (Ssse3, ifft): `y' = y ^ x`, `x' = x ^ y'·m` (operand order of the code) -/
theorem ssse3Ifftb_spec (mulf : Sym → Sym) (x y : Block) :
    ssse3Ifftb mulf x y =
      (blockXor x (specMulBlock (mulNibble mulf) (blockXor y x)), blockXor y x) := by
  rw [ssse3Ifftb_eq, ssse3MulAdd_spec]

/-! ### Neon: the same kernel with `vqtbl1q_u8` / `vshrq_n_u8` -/

/-- `vshrq_n_u8(a, 4)` (per-byte shift) = `(a >>64 4) & 0x0f` (64-bit lane shift, then mask) -/
theorem vshrq4_eq (a : V128) : vshrq4 a = v128and (v128srli64 a 4) (v128set1 0x0f#8) := by
  apply Vector.ext
  intro i hi
  have h := srli4_and a ⟨i, hi⟩
  simp only [Fin.getElem_fin] at h
  rw [h]
  simp only [vshrq4, Vector.getElem_map]

theorem and_clr_lt (a : V128) (i : Fin 16) : ((v128and a (v128set1 0x0f#8))[i]).toNat < 16 := by
  rw [and_clr, and_0f_toNat]; omega

theorem srli4_and_lt (a : V128) (i : Fin 16) :
    ((v128and (v128srli64 a 4) (v128set1 0x0f#8))[i]).toNat < 16 := by
  rw [srli4_and, ushr4_toNat]
  have := a[i].isLt
  omega

/-- `vqtbl1q_u8` and `pshufb` agree on index vectors whose bytes are all `< 16` -/
theorem vqtbl1q_eq_shuffle (t idx : V128) (h : ∀ i : Fin 16, (idx[i]).toNat < 16) :
    vqtbl1q t idx = v128shuffle t idx := by
  apply Vector.ext
  intro i hi
  have h1 := shuffle_nibble' t idx ⟨i, hi⟩ (h ⟨i, hi⟩)
  have h2 := h ⟨i, hi⟩
  simp only [Fin.getElem_fin] at h1 h2
  rw [h1]
  simp only [vqtbl1q, Vector.getElem_ofFn, Fin.getElem_fin, h2, if_true]

/-- `Neon::mul_128` returns the same two vectors as `Ssse3::mul_128` -/
theorem neonMul128_eq (mulf : Sym → Sym) (valueLo valueHi : V128) :
    neonMul128 mulf valueLo valueHi = mul128 mulf valueLo valueHi := by
  unfold neonMul128 mul128
  simp only [vshrq4_eq, vqtbl1q_eq_shuffle _ _ (and_clr_lt _)]

theorem neonMuladd128_eq (mulf : Sym → Sym) (xLo xHi yLo yHi : V128) :
    neonMuladd128 mulf xLo xHi yLo yHi = muladd128 mulf xLo xHi yLo yHi := by
  unfold neonMuladd128 muladd128
  rw [neonMul128_eq]

theorem neonMulBlock_eq_ssse3 (mulf : Sym → Sym) (b : Block) :
    neonMulBlock mulf b = ssse3MulBlock mulf b := by
  unfold neonMulBlock ssse3MulBlock
  simp only [neonMul128_eq]

theorem neonMulAdd_eq_ssse3 (mulf : Sym → Sym) (x y : Block) :
    neonMulAdd mulf x y = ssse3MulAdd mulf x y := by
  unfold neonMulAdd ssse3MulAdd
  simp only [neonMuladd128_eq]

theorem neonFftb_eq_ssse3 (mulf : Sym → Sym) (x y : Block) :
    neonFftb mulf x y = ssse3Fftb mulf x y := by
  unfold neonFftb ssse3Fftb
  simp only [neonMuladd128_eq]

theorem neonIfftb_eq_ssse3 (mulf : Sym → Sym) (x y : Block) :
    neonIfftb mulf x y = ssse3Ifftb mulf x y := by
  unfold neonIfftb ssse3Ifftb
  simp only [neonMuladd128_eq]

/-- T1 (Neon) -/
theorem neonMulBlock_spec (mulf : Sym → Sym) (b : Block) :
    neonMulBlock mulf b = specMulBlock (mulNibble mulf) b := by
  rw [neonMulBlock_eq_ssse3, ssse3MulBlock_spec]

theorem neonMulAdd_spec (mulf : Sym → Sym) (x y : Block) :
    neonMulAdd mulf x y = blockXor x (specMulBlock (mulNibble mulf) y) := by
  rw [neonMulAdd_eq_ssse3, ssse3MulAdd_spec]

/-- T4 (Neon, fft) -/
theorem neonFftb_spec (mulf : Sym → Sym) (x y : Block) :
    neonFftb mulf x y =
      (blockXor x (specMulBlock (mulNibble mulf) y),
       blockXor y (blockXor x (specMulBlock (mulNibble mulf) y))) := by
  rw [neonFftb_eq_ssse3, ssse3Fftb_spec]

/-- T4 (Neon, ifft) -/
theorem neonIfftb_spec (mulf : Sym → Sym) (x y : Block) :
    neonIfftb mulf x y =
      (blockXor x (specMulBlock (mulNibble mulf) (blockXor y x)), blockXor y x) := by
  rw [neonIfftb_eq_ssse3, ssse3Ifftb_spec]

/-! ### Avx2: every 256-bit intrinsic acts on the two 128-bit lanes separately -/

/-- the 128-bit lane `h` (0 or 1) of a 256-bit vector -/
def v256half (a : V256) (h : Nat) : V128 :=
  Vector.ofFn fun i => a.toArray.getD (16 * h + i.val) 0#8

theorem v256half_getD (a : V256) (h j : Nat) (hj : j < 16) :
    (v256half a h).toArray.getD j 0#8 = a.toArray.getD (16 * h + j) 0#8 := by
  unfold v256half
  rw [vget_ofFn _ _ hj]

theorem v128and_getD (a b : V128) (j : Nat) (hj : j < 16) :
    (v128and a b).toArray.getD j 0#8 = a.toArray.getD j 0#8 &&& b.toArray.getD j 0#8 := by
  unfold v128and
  rw [vget_zipWith _ _ _ _ hj]

theorem v256half_and (a b : V256) (h : Nat) (hh : h < 2) :
    v256half (v256and a b) h = v128and (v256half a h) (v256half b h) := by
  apply vext
  intro j hj
  rw [v128and_getD _ _ _ hj, v256half_getD _ _ _ hj, v256half_getD _ _ _ hj, v256half_getD _ _ _ hj]
  unfold v256and
  rw [vget_zipWith _ _ _ _ (by omega)]

theorem v256half_xor (a b : V256) (h : Nat) (hh : h < 2) :
    v256half (v256xor a b) h = v128xor (v256half a h) (v256half b h) := by
  apply vext
  intro j hj
  rw [v128xor_getD _ _ _ hj, v256half_getD _ _ _ hj, v256half_getD _ _ _ hj, v256half_getD _ _ _ hj]
  unfold v256xor
  rw [vget_zipWith _ _ _ _ (by omega)]

theorem v256half_set1 (x : Byte) (h : Nat) (hh : h < 2) :
    v256half (v256set1 x) h = v128set1 x := by
  apply vext
  intro j hj
  rw [v256half_getD _ _ _ hj]
  unfold v256set1 v128set1
  rw [vget_replicate _ _ (by omega), vget_replicate _ _ hj]

theorem lane64w_eq (a : V256) (h : Nat) :
    lane64w a h =
      (a.toArray.getD (8 * h + 0) 0#8).toNat * 256 ^ 0 + (a.toArray.getD (8 * h + 1) 0#8).toNat * 256 ^ 1 +
      (a.toArray.getD (8 * h + 2) 0#8).toNat * 256 ^ 2 + (a.toArray.getD (8 * h + 3) 0#8).toNat * 256 ^ 3 +
      (a.toArray.getD (8 * h + 4) 0#8).toNat * 256 ^ 4 + (a.toArray.getD (8 * h + 5) 0#8).toNat * 256 ^ 5 +
      (a.toArray.getD (8 * h + 6) 0#8).toNat * 256 ^ 6 + (a.toArray.getD (8 * h + 7) 0#8).toNat * 256 ^ 7 :=
  foldl_range8 (fun i => (a.toArray.getD (8 * h + i) 0#8).toNat * 256 ^ i)

/-- the 64-bit lane `l` of the 128-bit lane `h` is the 64-bit lane `2h + l` -/
theorem lane64_half (a : V256) (h l : Nat) (hl : l < 2) :
    lane64 (v256half a h) l = lane64w a (2 * h + l) := by
  have e : ∀ i, i < 8 →
      (v256half a h).toArray.getD (8 * l + i) 0#8 = a.toArray.getD (8 * (2 * h + l) + i) 0#8 := by
    intro i hi
    rw [v256half_getD _ _ _ (by omega)]
    congr 1
    omega
  rw [lane64_eq, lane64w_eq, e 0 (by omega), e 1 (by omega), e 2 (by omega), e 3 (by omega),
    e 4 (by omega), e 5 (by omega), e 6 (by omega), e 7 (by omega)]

/-- `_mm256_srli_epi64` shifts the two 128-bit lanes as `_mm_srli_epi64` does -/
theorem v256half_srli64 (a : V256) (n h : Nat) (hh : h < 2) :
    v256half (v256srli64 a n) h = v128srli64 (v256half a h) n := by
  apply vext
  intro j hj
  rw [v256half_getD _ _ _ hj]
  unfold v256srli64 v128srli64
  rw [vget_ofFn _ _ (by omega), vget_ofFn _ _ hj]
  simp only []
  rw [lane64_half _ _ _ (by omega)]
  have e1 : (16 * h + j) / 8 = 2 * h + j / 8 := by omega
  have e2 : (16 * h + j) % 8 = j % 8 := by omega
  rw [e1, e2]

/-- `_mm256_shuffle_epi8` with a broadcast table: each 128-bit lane is `pshufb` with that table -/
theorem v256half_shuffle_broadcast (t : V128) (idx : V256) (h : Nat) (hh : h < 2) :
    v256half (v256shuffle (v256broadcast t) idx) h = v128shuffle t (v256half idx h) := by
  apply vext
  intro j hj
  have hlt : 16 * h + j < 32 := by omega
  rw [v256half_getD _ _ _ hj]
  unfold v256shuffle v128shuffle
  rw [vget_ofFn _ _ hlt, vget_ofFn _ _ hj]
  simp only [Fin.getElem_fin]
  rw [← vget idx _ hlt, ← vget (v256half idx h) j hj, v256half_getD _ _ _ hj]
  have hb : ∀ k, k < 16 →
      (v256broadcast t).toArray.getD (16 * ((16 * h + j) / 16) + k) 0#8 = t.toArray.getD k 0#8 := by
    intro k hk
    unfold v256broadcast
    rw [vget_ofFn _ _ (by omega)]
    simp only []
    congr 1
    omega
  rw [hb _ (Nat.mod_lt _ (by decide))]

theorem v256half_lutLo (mulf : Sym → Sym) (k : Nat) (idx : V256) (h : Nat) (hh : h < 2) :
    v256half (v256shuffle (lutLo256 mulf k) idx) h = v128shuffle (lutLo mulf k) (v256half idx h) :=
  v256half_shuffle_broadcast _ _ _ hh

theorem v256half_lutHi (mulf : Sym → Sym) (k : Nat) (idx : V256) (h : Nat) (hh : h < 2) :
    v256half (v256shuffle (lutHi256 mulf k) idx) h = v128shuffle (lutHi mulf k) (v256half idx h) :=
  v256half_shuffle_broadcast _ _ _ hh

/-- `Avx2::mul_256` is `Ssse3::mul_128` on each of the two 128-bit lanes -/
theorem v256half_mul256_fst (mulf : Sym → Sym) (lo hi : V256) (h : Nat) (hh : h < 2) :
    v256half (mul256 mulf lo hi).1 h = (mul128 mulf (v256half lo h) (v256half hi h)).1 := by
  unfold mul256 mul128
  simp only [v256half_xor _ _ _ hh, v256half_lutLo _ _ _ _ hh, v256half_and _ _ _ hh,
    v256half_srli64 _ _ _ hh, v256half_set1 _ _ hh]

theorem v256half_mul256_snd (mulf : Sym → Sym) (lo hi : V256) (h : Nat) (hh : h < 2) :
    v256half (mul256 mulf lo hi).2 h = (mul128 mulf (v256half lo h) (v256half hi h)).2 := by
  unfold mul256 mul128
  simp only [v256half_xor _ _ _ hh, v256half_lutHi _ _ _ _ hh, v256half_and _ _ _ hh,
    v256half_srli64 _ _ _ hh, v256half_set1 _ _ hh]

theorem v256half_muladd256_fst (mulf : Sym → Sym) (xLo xHi yLo yHi : V256) (h : Nat) (hh : h < 2) :
    v256half (muladd256 mulf xLo xHi yLo yHi).1 h =
      (muladd128 mulf (v256half xLo h) (v256half xHi h) (v256half yLo h) (v256half yHi h)).1 := by
  unfold muladd256 muladd128
  simp only [v256half_xor _ _ _ hh, v256half_mul256_fst _ _ _ _ hh]

theorem v256half_muladd256_snd (mulf : Sym → Sym) (xLo xHi yLo yHi : V256) (h : Nat) (hh : h < 2) :
    v256half (muladd256 mulf xLo xHi yLo yHi).2 h =
      (muladd128 mulf (v256half xLo h) (v256half xHi h) (v256half yLo h) (v256half yHi h)).2 := by
  unfold muladd256 muladd128
  simp only [v256half_xor _ _ _ hh, v256half_mul256_snd _ _ _ _ hh]

/-- a 32-byte load is two 16-byte loads -/
theorem v256half_blockHalf (b : Block) (H h : Nat) (hh : h < 2) :
    v256half (blockHalf b H) h = blockQuarter b (2 * H + h) := by
  apply vext
  intro j hj
  rw [v256half_getD _ _ _ hj, blockQuarter_getD _ _ _ hj]
  unfold blockHalf
  rw [vget_ofFn _ _ (by omega)]
  simp only []
  congr 1
  omega

/-- two 32-byte stores are four 16-byte stores -/
theorem blockOfHalves_eq (lo hi : V256) :
    blockOfHalves lo hi =
      blockOfQuarters (v256half lo 0) (v256half lo 1) (v256half hi 0) (v256half hi 1) := by
  have hget : ∀ j, j < 64 → (blockOfHalves lo hi).toArray.getD j 0#8 =
      if j < 32 then lo.toArray.getD j 0#8 else hi.toArray.getD (j - 32) 0#8 := by
    intro j hj
    unfold blockOfHalves
    rw [vget_ofFn _ _ hj]
  apply vext
  apply forall_lt64 <;> intro j hj
  · rw [blockOfQuarters_getD0 _ _ _ _ _ hj, v256half_getD _ _ _ hj, hget _ (by omega),
      if_pos (by omega)]
    congr 1
    omega
  · rw [blockOfQuarters_getD1 _ _ _ _ _ hj, v256half_getD _ _ _ hj, hget _ (by omega),
      if_pos (by omega)]
    congr 1
    omega
  · rw [blockOfQuarters_getD2 _ _ _ _ _ hj, v256half_getD _ _ _ hj, hget _ (by omega),
      if_neg (by omega)]
    congr 1
    omega
  · rw [blockOfQuarters_getD3 _ _ _ _ _ hj, v256half_getD _ _ _ hj, hget _ (by omega),
      if_neg (by omega)]
    congr 1
    omega

theorem avx2MulBlock_eq_ssse3 (mulf : Sym → Sym) (b : Block) :
    avx2MulBlock mulf b = ssse3MulBlock mulf b := by
  unfold avx2MulBlock ssse3MulBlock
  simp only [blockOfHalves_eq, v256half_mul256_fst _ _ _ _ (show 0 < 2 by omega),
    v256half_mul256_fst _ _ _ _ (show 1 < 2 by omega), v256half_mul256_snd _ _ _ _ (show 0 < 2 by omega),
    v256half_mul256_snd _ _ _ _ (show 1 < 2 by omega), v256half_blockHalf _ _ _ (show 0 < 2 by omega),
    v256half_blockHalf _ _ _ (show 1 < 2 by omega)]

theorem avx2MulAdd_eq_ssse3 (mulf : Sym → Sym) (x y : Block) :
    avx2MulAdd mulf x y = ssse3MulAdd mulf x y := by
  unfold avx2MulAdd ssse3MulAdd
  simp only [blockOfHalves_eq, v256half_muladd256_fst _ _ _ _ _ _ (show 0 < 2 by omega),
    v256half_muladd256_fst _ _ _ _ _ _ (show 1 < 2 by omega),
    v256half_muladd256_snd _ _ _ _ _ _ (show 0 < 2 by omega),
    v256half_muladd256_snd _ _ _ _ _ _ (show 1 < 2 by omega),
    v256half_blockHalf _ _ _ (show 0 < 2 by omega), v256half_blockHalf _ _ _ (show 1 < 2 by omega)]

theorem avx2Fftb_eq_ssse3 (mulf : Sym → Sym) (x y : Block) :
    avx2Fftb mulf x y = ssse3Fftb mulf x y := by
  unfold avx2Fftb ssse3Fftb
  simp only [blockOfHalves_eq, v256half_xor _ _ _ (show 0 < 2 by omega),
    v256half_xor _ _ _ (show 1 < 2 by omega),
    v256half_muladd256_fst _ _ _ _ _ _ (show 0 < 2 by omega),
    v256half_muladd256_fst _ _ _ _ _ _ (show 1 < 2 by omega),
    v256half_muladd256_snd _ _ _ _ _ _ (show 0 < 2 by omega),
    v256half_muladd256_snd _ _ _ _ _ _ (show 1 < 2 by omega),
    v256half_blockHalf _ _ _ (show 0 < 2 by omega), v256half_blockHalf _ _ _ (show 1 < 2 by omega)]

theorem avx2Ifftb_eq_ssse3 (mulf : Sym → Sym) (x y : Block) :
    avx2Ifftb mulf x y = ssse3Ifftb mulf x y := by
  unfold avx2Ifftb ssse3Ifftb
  simp only [blockOfHalves_eq, v256half_xor _ _ _ (show 0 < 2 by omega),
    v256half_xor _ _ _ (show 1 < 2 by omega),
    v256half_muladd256_fst _ _ _ _ _ _ (show 0 < 2 by omega),
    v256half_muladd256_fst _ _ _ _ _ _ (show 1 < 2 by omega),
    v256half_muladd256_snd _ _ _ _ _ _ (show 0 < 2 by omega),
    v256half_muladd256_snd _ _ _ _ _ _ (show 1 < 2 by omega),
    v256half_blockHalf _ _ _ (show 0 < 2 by omega), v256half_blockHalf _ _ _ (show 1 < 2 by omega)]

/-- T1 (Avx2) -/
theorem avx2MulBlock_spec (mulf : Sym → Sym) (b : Block) :
    avx2MulBlock mulf b = specMulBlock (mulNibble mulf) b := by
  rw [avx2MulBlock_eq_ssse3, ssse3MulBlock_spec]

theorem avx2MulAdd_spec (mulf : Sym → Sym) (x y : Block) :
    avx2MulAdd mulf x y = blockXor x (specMulBlock (mulNibble mulf) y) := by
  rw [avx2MulAdd_eq_ssse3, ssse3MulAdd_spec]

/-- T4 (Avx2, fft) -/
theorem avx2Fftb_spec (mulf : Sym → Sym) (x y : Block) :
    avx2Fftb mulf x y =
      (blockXor x (specMulBlock (mulNibble mulf) y),
       blockXor y (blockXor x (specMulBlock (mulNibble mulf) y))) := by
  rw [avx2Fftb_eq_ssse3, ssse3Fftb_spec]

/-- T4 (Avx2, ifft) -/
theorem avx2Ifftb_spec (mulf : Sym → Sym) (x y : Block) :
    avx2Ifftb mulf x y =
      (blockXor x (specMulBlock (mulNibble mulf) (blockXor y x)), blockXor y x) := by
  rw [avx2Ifftb_eq_ssse3, ssse3Ifftb_spec]

/-! ### NoSimd: the in-place loop `for i in 0..32` -/

theorem vget_set (c : Block) (i : Nat) (x : Byte) (j : Nat) (hj : j < 64) :
    (c.setIfInBounds i x).toArray.getD j 0#8 = if i = j then x else c.toArray.getD j 0#8 := by
  rw [vget _ _ hj, vget _ _ hj, Vector.getElem_setIfInBounds]

/-- `prod as u8` -/
theorem setWidth8_lo (p : Sym) : p.setWidth 8 = BitVec.ofNat 8 (p.toNat % 256) := by
  apply BitVec.eq_of_toNat_eq
  rw [BitVec.toNat_setWidth, BitVec.toNat_ofNat]
  omega

/-- `(prod >> 8) as u8` -/
theorem setWidth8_hi (p : Sym) : (p >>> 8).setWidth 8 = BitVec.ofNat 8 (p.toNat / 256) := by
  apply BitVec.eq_of_toNat_eq
  rw [BitVec.toNat_setWidth, BitVec.toNat_ofNat, BitVec.toNat_ushiftRight, Nat.shiftRight_eq_div_pow]

/-- the four table lookups on the two bytes of a symbol are `mulNibble` of the symbol -/
theorem nosimdProd_eq (mulf : Sym → Sym) (lo hi : Byte) :
    nosimdProd mulf lo hi = mulNibble mulf (joinBytes lo hi) := by
  have hlo := lo.isLt
  have e1 : (joinBytes lo hi).toNat % 256 = lo.toNat := by rw [joinBytes_toNat]; omega
  have e2 : (joinBytes lo hi).toNat / 256 = hi.toNat := by rw [joinBytes_toNat]; omega
  unfold nosimdProd mulNibble
  simp only [e1, e2]
  rw [and_0f_toNat, and_0f_toNat, ushr4_toNat, ushr4_toNat]

/-- invariant of a loop `for k in 0..n` (`n ≤ 32`) that in iteration `k` finalises the byte pair
    `(k, k + 32)`: after `n` iterations the pairs `< n` hold their final value `new`, the others
    are untouched -/
theorem fold_range_inv (step : Block → Nat → Block) (b : Block) (new : Nat → Byte)
    (hstep : ∀ (k : Nat) (c : Block), k < 32 →
      (∀ j, j < 64 → c.toArray.getD j 0#8 = if j % 32 < k then new j else b.toArray.getD j 0#8) →
      (∀ j, j < 64 → (step c k).toArray.getD j 0#8 =
        if j % 32 < k + 1 then new j else b.toArray.getD j 0#8)) :
    ∀ n, n ≤ 32 → ∀ j, j < 64 → ((List.range n).foldl step b).toArray.getD j 0#8 =
      if j % 32 < n then new j else b.toArray.getD j 0#8 := by
  intro n
  induction n with
  | zero =>
    intro _ j _
    simp only [List.range_zero, List.foldl_nil, Nat.not_lt_zero, if_false]
  | succ n ih =>
    intro hn j hj
    rw [List.range_succ, List.foldl_append, List.foldl_cons, List.foldl_nil]
    exact hstep n _ (by omega) (ih (by omega)) j hj

theorem fold_range32 (step : Block → Nat → Block) (b target : Block)
    (hstep : ∀ (k : Nat) (c : Block), k < 32 →
      (∀ j, j < 64 → c.toArray.getD j 0#8 =
        if j % 32 < k then target.toArray.getD j 0#8 else b.toArray.getD j 0#8) →
      (∀ j, j < 64 → (step c k).toArray.getD j 0#8 =
        if j % 32 < k + 1 then target.toArray.getD j 0#8 else b.toArray.getD j 0#8)) :
    (List.range 32).foldl step b = target := by
  apply vext
  intro j hj
  rw [fold_range_inv step b (fun j => target.toArray.getD j 0#8) hstep 32 (by omega) j hj,
    if_pos (Nat.mod_lt _ (by decide))]

/-- T1 (NoSimd) -/
theorem nosimdMulBlock_spec (mulf : Sym → Sym) (b : Block) :
    nosimdMulBlock mulf b = specMulBlock (mulNibble mulf) b := by
  unfold nosimdMulBlock
  apply fold_range32
  intro k c hk hc j hj
  have ck : c.toArray.getD k 0#8 = b.toArray.getD k 0#8 := by
    rw [hc k (by omega), if_neg (by omega)]
  have ck32 : c.toArray.getD (k + 32) 0#8 = b.toArray.getD (k + 32) 0#8 := by
    rw [hc (k + 32) (by omega), if_neg (by omega)]
  simp only []
  rw [vget_set _ _ _ _ hj, vget_set _ _ _ _ hj, ck, ck32, nosimdProd_eq, setWidth8_hi, setWidth8_lo]
  by_cases h1 : k + 32 = j
  · subst h1
    rw [if_pos rfl, if_pos (by omega)]
    exact (specMulBlock_hi (mulNibble mulf) b ⟨k, hk⟩).symm
  · rw [if_neg h1]
    by_cases h2 : k = j
    · subst h2
      rw [if_pos rfl, if_pos (by omega)]
      exact (specMulBlock_lo (mulNibble mulf) b ⟨k, hk⟩).symm
    · rw [if_neg h2, hc j hj]
      by_cases h3 : j % 32 < k
      · rw [if_pos h3, if_pos (by omega)]
      · rw [if_neg h3, if_neg (by omega)]

/-- `NoSimd::mul_add` on one chunk pair: `x ^= y·m` -/
theorem nosimdMulAdd_spec (mulf : Sym → Sym) (x y : Block) :
    nosimdMulAdd mulf x y = blockXor x (specMulBlock (mulNibble mulf) y) := by
  unfold nosimdMulAdd
  apply fold_range32
  intro k c hk hc j hj
  have ck : c.toArray.getD k 0#8 = x.toArray.getD k 0#8 := by
    rw [hc k (by omega), if_neg (by omega)]
  have ck32 : c.toArray.getD (k + 32) 0#8 = x.toArray.getD (k + 32) 0#8 := by
    rw [hc (k + 32) (by omega), if_neg (by omega)]
  simp only []
  have hne : ¬ k = k + 32 := by omega
  rw [vget_set _ _ _ _ hj, vget_set _ _ _ _ hj, vget_set _ _ _ (k + 32) (by omega),
    if_neg hne, ck, ck32, nosimdProd_eq, setWidth8_hi, setWidth8_lo]
  by_cases h1 : k + 32 = j
  · subst h1
    rw [if_pos rfl, if_pos (by omega), blockXor_getD _ _ _ hj]
    exact congrArg _ (specMulBlock_hi (mulNibble mulf) y ⟨k, hk⟩).symm
  · rw [if_neg h1]
    by_cases h2 : k = j
    · subst h2
      rw [if_pos rfl, if_pos (by omega), blockXor_getD _ _ _ hj]
      exact congrArg _ (specMulBlock_lo (mulNibble mulf) y ⟨k, hk⟩).symm
    · rw [if_neg h2, hc j hj]
      by_cases h3 : j % 32 < k
      · rw [if_pos h3, if_pos (by omega)]
      · rw [if_neg h3, if_neg (by omega)]

/-- T4 (NoSimd, fft): `mul_add(x, y); xor(y, x)` -/
theorem nosimdFftb_spec (mulf : Sym → Sym) (x y : Block) :
    nosimdFftb mulf x y =
      (blockXor x (specMulBlock (mulNibble mulf) y),
       blockXor y (blockXor x (specMulBlock (mulNibble mulf) y))) := by
  unfold nosimdFftb
  simp only [nosimdMulAdd_spec]

/-- T4 (NoSimd, ifft): `xor(y, x); mul_add(x, y)` -/
theorem nosimdIfftb_spec (mulf : Sym → Sym) (x y : Block) :
    nosimdIfftb mulf x y =
      (blockXor x (specMulBlock (mulNibble mulf) (blockXor y x)), blockXor y x) := by
  unfold nosimdIfftb
  simp only [nosimdMulAdd_spec]

/-! ### T2: the four kernels agree, byte for byte, for any table contents -/

theorem kernels_agree_block (mulf : Sym → Sym) (b : Block) :
    ssse3MulBlock mulf b = nosimdMulBlock mulf b ∧ avx2MulBlock mulf b = nosimdMulBlock mulf b ∧
    neonMulBlock mulf b = nosimdMulBlock mulf b := by
  rw [ssse3MulBlock_spec, avx2MulBlock_spec, neonMulBlock_spec, nosimdMulBlock_spec]
  exact ⟨rfl, rfl, rfl⟩

theorem muladd_agree_block (mulf : Sym → Sym) (x y : Block) :
    ssse3MulAdd mulf x y = nosimdMulAdd mulf x y ∧ avx2MulAdd mulf x y = nosimdMulAdd mulf x y ∧
    neonMulAdd mulf x y = nosimdMulAdd mulf x y := by
  rw [ssse3MulAdd_spec, avx2MulAdd_spec, neonMulAdd_spec, nosimdMulAdd_spec]
  exact ⟨rfl, rfl, rfl⟩

theorem fftb_agree_block (mulf : Sym → Sym) (x y : Block) :
    ssse3Fftb mulf x y = nosimdFftb mulf x y ∧ avx2Fftb mulf x y = nosimdFftb mulf x y ∧
    neonFftb mulf x y = nosimdFftb mulf x y := by
  rw [ssse3Fftb_spec, avx2Fftb_spec, neonFftb_spec, nosimdFftb_spec]
  exact ⟨rfl, rfl, rfl⟩

theorem ifftb_agree_block (mulf : Sym → Sym) (x y : Block) :
    ssse3Ifftb mulf x y = nosimdIfftb mulf x y ∧ avx2Ifftb mulf x y = nosimdIfftb mulf x y ∧
    neonIfftb mulf x y = nosimdIfftb mulf x y := by
  rw [ssse3Ifftb_spec, avx2Ifftb_spec, neonIfftb_spec, nosimdIfftb_spec]
  exact ⟨rfl, rfl, rfl⟩

/-! ### T3: tables filled from an XOR-additive map; the field instance -/

theorem mulNibble_funext (mulf : Sym → Sym) (hadd : ∀ a b, mulf (a ^^^ b) = mulf a ^^^ mulf b) :
    mulNibble mulf = mulf :=
  funext (mulNibble_eq mulf hadd)

theorem ssse3MulBlock_eq (mulf : Sym → Sym) (hadd : ∀ a b, mulf (a ^^^ b) = mulf a ^^^ mulf b)
    (b : Block) : ssse3MulBlock mulf b = specMulBlock mulf b := by
  rw [ssse3MulBlock_spec, mulNibble_funext mulf hadd]

theorem avx2MulBlock_eq (mulf : Sym → Sym) (hadd : ∀ a b, mulf (a ^^^ b) = mulf a ^^^ mulf b)
    (b : Block) : avx2MulBlock mulf b = specMulBlock mulf b := by
  rw [avx2MulBlock_spec, mulNibble_funext mulf hadd]

theorem neonMulBlock_eq (mulf : Sym → Sym) (hadd : ∀ a b, mulf (a ^^^ b) = mulf a ^^^ mulf b)
    (b : Block) : neonMulBlock mulf b = specMulBlock mulf b := by
  rw [neonMulBlock_spec, mulNibble_funext mulf hadd]

theorem nosimdMulBlock_eq (mulf : Sym → Sym) (hadd : ∀ a b, mulf (a ^^^ b) = mulf a ^^^ mulf b)
    (b : Block) : nosimdMulBlock mulf b = specMulBlock mulf b := by
  rw [nosimdMulBlock_spec, mulNibble_funext mulf hadd]

theorem gmul_gexp_add (m : Nat) (a b : Sym) :
    (fun y => gmul (gexp m) y) (a ^^^ b) = (fun y => gmul (gexp m) y) a ^^^ (fun y => gmul (gexp m) y) b :=
  gmul_xor_right (gexp m) a b

/-- every engine's block multiply, with the tables of `log_m = m`, multiplies each of the 32 symbols
    by `g^m` in the field (all multipliers, all blocks, all 32 symbols) -/
theorem ssse3MulBlock_gmul (m : Nat) (b : Block) (i : Fin 32) :
    blockSym (ssse3MulBlock (fun y => gmul (gexp m) y) b) i = gmul (gexp m) (blockSym b i) := by
  rw [ssse3MulBlock_eq _ (gmul_gexp_add m), blockSym_specMulBlock]

theorem avx2MulBlock_gmul (m : Nat) (b : Block) (i : Fin 32) :
    blockSym (avx2MulBlock (fun y => gmul (gexp m) y) b) i = gmul (gexp m) (blockSym b i) := by
  rw [avx2MulBlock_eq _ (gmul_gexp_add m), blockSym_specMulBlock]

theorem neonMulBlock_gmul (m : Nat) (b : Block) (i : Fin 32) :
    blockSym (neonMulBlock (fun y => gmul (gexp m) y) b) i = gmul (gexp m) (blockSym b i) := by
  rw [neonMulBlock_eq _ (gmul_gexp_add m), blockSym_specMulBlock]

theorem nosimdMulBlock_gmul (m : Nat) (b : Block) (i : Fin 32) :
    blockSym (nosimdMulBlock (fun y => gmul (gexp m) y) b) i = gmul (gexp m) (blockSym b i) := by
  rw [nosimdMulBlock_eq _ (gmul_gexp_add m), blockSym_specMulBlock]

/-- the same against `Engine::mul` of the model (`mulLog`), as `mul128_mulLog` -/
theorem ssse3MulBlock_mulLog (m : Nat) (b : Block) (i : Fin 32) :
    blockSym (ssse3MulBlock (fun y => mulLog y m) b) i = mulLog (blockSym b i) m :=
  ssse3MulBlock_gmul m b i

theorem avx2MulBlock_mulLog (m : Nat) (b : Block) (i : Fin 32) :
    blockSym (avx2MulBlock (fun y => mulLog y m) b) i = mulLog (blockSym b i) m :=
  avx2MulBlock_gmul m b i

theorem neonMulBlock_mulLog (m : Nat) (b : Block) (i : Fin 32) :
    blockSym (neonMulBlock (fun y => mulLog y m) b) i = mulLog (blockSym b i) m :=
  neonMulBlock_gmul m b i

theorem nosimdMulBlock_mulLog (m : Nat) (b : Block) (i : Fin 32) :
    blockSym (nosimdMulBlock (fun y => mulLog y m) b) i = mulLog (blockSym b i) m :=
  nosimdMulBlock_gmul m b i

/-! ### T4: the butterflies at symbol level -/

/-- the forward butterfly of the specification on one block pair: `x' = x ^ f(y)`, `y' = y ^ x'` -/
def specFftb (f : Sym → Sym) (x y : Block) : Block × Block :=
  (blockXor x (specMulBlock f y), blockXor y (blockXor x (specMulBlock f y)))

/-- the inverse butterfly of the specification: `y' = y ^ x`, `x' = x ^ f(y')` -/
def specIfftb (f : Sym → Sym) (x y : Block) : Block × Block :=
  (blockXor x (specMulBlock f (blockXor y x)), blockXor y x)

theorem specFftb_sym (f : Sym → Sym) (x y : Block) (i : Fin 32) :
    blockSym (specFftb f x y).1 i = blockSym x i ^^^ f (blockSym y i) ∧
    blockSym (specFftb f x y).2 i = blockSym y i ^^^ (blockSym x i ^^^ f (blockSym y i)) := by
  unfold specFftb
  constructor
  · rw [blockSym_blockXor, blockSym_specMulBlock]
  · rw [blockSym_blockXor, blockSym_blockXor, blockSym_specMulBlock]

theorem specIfftb_sym (f : Sym → Sym) (x y : Block) (i : Fin 32) :
    blockSym (specIfftb f x y).1 i = blockSym x i ^^^ f (blockSym y i ^^^ blockSym x i) ∧
    blockSym (specIfftb f x y).2 i = blockSym y i ^^^ blockSym x i := by
  unfold specIfftb
  constructor
  · rw [blockSym_blockXor, blockSym_specMulBlock, blockSym_blockXor]
  · rw [blockSym_blockXor]

theorem ssse3Fftb_sym (mulf : Sym → Sym) (x y : Block) (i : Fin 32) :
    blockSym (ssse3Fftb mulf x y).1 i = blockSym x i ^^^ mulNibble mulf (blockSym y i) ∧
    blockSym (ssse3Fftb mulf x y).2 i =
      blockSym y i ^^^ (blockSym x i ^^^ mulNibble mulf (blockSym y i)) := by
  rw [ssse3Fftb_spec]; exact specFftb_sym (mulNibble mulf) x y i

theorem avx2Fftb_sym (mulf : Sym → Sym) (x y : Block) (i : Fin 32) :
    blockSym (avx2Fftb mulf x y).1 i = blockSym x i ^^^ mulNibble mulf (blockSym y i) ∧
    blockSym (avx2Fftb mulf x y).2 i =
      blockSym y i ^^^ (blockSym x i ^^^ mulNibble mulf (blockSym y i)) := by
  rw [avx2Fftb_spec]; exact specFftb_sym (mulNibble mulf) x y i

theorem neonFftb_sym (mulf : Sym → Sym) (x y : Block) (i : Fin 32) :
    blockSym (neonFftb mulf x y).1 i = blockSym x i ^^^ mulNibble mulf (blockSym y i) ∧
    blockSym (neonFftb mulf x y).2 i =
      blockSym y i ^^^ (blockSym x i ^^^ mulNibble mulf (blockSym y i)) := by
  rw [neonFftb_spec]; exact specFftb_sym (mulNibble mulf) x y i

theorem nosimdFftb_sym (mulf : Sym → Sym) (x y : Block) (i : Fin 32) :
    blockSym (nosimdFftb mulf x y).1 i = blockSym x i ^^^ mulNibble mulf (blockSym y i) ∧
    blockSym (nosimdFftb mulf x y).2 i =
      blockSym y i ^^^ (blockSym x i ^^^ mulNibble mulf (blockSym y i)) := by
  rw [nosimdFftb_spec]; exact specFftb_sym (mulNibble mulf) x y i

theorem ssse3Ifftb_sym (mulf : Sym → Sym) (x y : Block) (i : Fin 32) :
    blockSym (ssse3Ifftb mulf x y).1 i =
      blockSym x i ^^^ mulNibble mulf (blockSym y i ^^^ blockSym x i) ∧
    blockSym (ssse3Ifftb mulf x y).2 i = blockSym y i ^^^ blockSym x i := by
  rw [ssse3Ifftb_spec]; exact specIfftb_sym (mulNibble mulf) x y i

theorem avx2Ifftb_sym (mulf : Sym → Sym) (x y : Block) (i : Fin 32) :
    blockSym (avx2Ifftb mulf x y).1 i =
      blockSym x i ^^^ mulNibble mulf (blockSym y i ^^^ blockSym x i) ∧
    blockSym (avx2Ifftb mulf x y).2 i = blockSym y i ^^^ blockSym x i := by
  rw [avx2Ifftb_spec]; exact specIfftb_sym (mulNibble mulf) x y i

theorem neonIfftb_sym (mulf : Sym → Sym) (x y : Block) (i : Fin 32) :
    blockSym (neonIfftb mulf x y).1 i =
      blockSym x i ^^^ mulNibble mulf (blockSym y i ^^^ blockSym x i) ∧
    blockSym (neonIfftb mulf x y).2 i = blockSym y i ^^^ blockSym x i := by
  rw [neonIfftb_spec]; exact specIfftb_sym (mulNibble mulf) x y i

theorem nosimdIfftb_sym (mulf : Sym → Sym) (x y : Block) (i : Fin 32) :
    blockSym (nosimdIfftb mulf x y).1 i =
      blockSym x i ^^^ mulNibble mulf (blockSym y i ^^^ blockSym x i) ∧
    blockSym (nosimdIfftb mulf x y).2 i = blockSym y i ^^^ blockSym x i := by
  rw [nosimdIfftb_spec]; exact specIfftb_sym (mulNibble mulf) x y i

/-- the field instance of the butterflies (tables of `log_m = m`), for all four engines at once:
    `x' = x ⊕ g^m ⊗ y`, `y' = y ⊕ x'` and `y' = y ⊕ x`, `x' = x ⊕ g^m ⊗ y'` in every symbol -/
theorem butterflies_gmul (m : Nat) (x y : Block) (i : Fin 32)
    (fft : Block × Block) (ifft : Block × Block)
    (hfft : fft = ssse3Fftb (fun y => gmul (gexp m) y) x y ∨ fft = avx2Fftb (fun y => gmul (gexp m) y) x y ∨
      fft = neonFftb (fun y => gmul (gexp m) y) x y ∨ fft = nosimdFftb (fun y => gmul (gexp m) y) x y)
    (hifft : ifft = ssse3Ifftb (fun y => gmul (gexp m) y) x y ∨ ifft = avx2Ifftb (fun y => gmul (gexp m) y) x y ∨
      ifft = neonIfftb (fun y => gmul (gexp m) y) x y ∨ ifft = nosimdIfftb (fun y => gmul (gexp m) y) x y) :
    (blockSym fft.1 i = blockSym x i ^^^ gmul (gexp m) (blockSym y i) ∧
     blockSym fft.2 i = blockSym y i ^^^ (blockSym x i ^^^ gmul (gexp m) (blockSym y i))) ∧
    (blockSym ifft.1 i = blockSym x i ^^^ gmul (gexp m) (blockSym y i ^^^ blockSym x i) ∧
     blockSym ifft.2 i = blockSym y i ^^^ blockSym x i) := by
  have hn := mulNibble_funext _ (gmul_gexp_add m)
  have e1 : fft = specFftb (fun y => gmul (gexp m) y) x y := by
    rcases hfft with h | h | h | h
    · rw [h, ssse3Fftb_spec, hn]; rfl
    · rw [h, avx2Fftb_spec, hn]; rfl
    · rw [h, neonFftb_spec, hn]; rfl
    · rw [h, nosimdFftb_spec, hn]; rfl
  have e2 : ifft = specIfftb (fun y => gmul (gexp m) y) x y := by
    rcases hifft with h | h | h | h
    · rw [h, ssse3Ifftb_spec, hn]; rfl
    · rw [h, avx2Ifftb_spec, hn]; rfl
    · rw [h, neonIfftb_spec, hn]; rfl
    · rw [h, nosimdIfftb_spec, hn]; rfl
  rw [e1, e2]
  exact ⟨specFftb_sym _ x y i, specIfftb_sym _ x y i⟩

/-! ### T5: the block spec is the per-block operation of `bMul` / `bXor` / `bLane` (Model/Blocks.lean) -/

theorem shard_getD_irrel (s : BShard) (q : Nat) (hq : q < s.size) (d d' : Block) :
    s.getD q d = s.getD q d' := by
  rw [Array.getD_eq_getD_getElem?, Array.getD_eq_getD_getElem?, Array.getElem?_eq_getElem hq]
  rfl

/-- block `q` of `bMul f s` is `specMulBlock f` of block `q` of `s` -/
theorem specMulBlock_bMul (f : Sym → Sym) (s : BShard) (q : Nat) (hq : q < s.size) (d : Block) :
    (bMul f s).getD q d = specMulBlock f (s.getD q d) := by
  unfold bMul
  rw [ofFn_getD _ _ hq, shard_getD_irrel s q hq d (Vector.replicate 64 0#8)]
  rfl

/-- block `q` of `bXor x y` is `blockXor` of the blocks `q` -/
theorem blockXor_bXor (x y : BShard) (q : Nat) (hq : q < x.size) (hq' : q < y.size) (d : Block) :
    (bXor x y).getD q d = blockXor (x.getD q d) (y.getD q d) := by
  unfold bXor
  rw [ofFn_getD _ _ hq, shard_getD_irrel x q hq d (Vector.replicate 64 0#8),
    shard_getD_irrel y q hq' d (Vector.replicate 64 0#8)]
  rfl

/-- lane `l` of a shard is symbol `l % 32` of block `l / 32` -/
theorem bLane_blockSym (s : BShard) (l : Nat) :
    bLane s l = blockSym (s.getD (l / 32) (Vector.replicate 64 0#8)) ⟨l % 32, Nat.mod_lt _ (by decide)⟩ :=
  rfl

/-- lane level: running any engine's block kernel on every block is `bMul (mulNibble mulf)`, i.e.
    block `q` of `bMul (mulNibble mulf) s` is what each of the four kernels writes -/
theorem bMul_block_engines (mulf : Sym → Sym) (s : BShard) (q : Nat) (hq : q < s.size) (d : Block) :
    (bMul (mulNibble mulf) s).getD q d = nosimdMulBlock mulf (s.getD q d) ∧
    (bMul (mulNibble mulf) s).getD q d = ssse3MulBlock mulf (s.getD q d) ∧
    (bMul (mulNibble mulf) s).getD q d = avx2MulBlock mulf (s.getD q d) ∧
    (bMul (mulNibble mulf) s).getD q d = neonMulBlock mulf (s.getD q d) := by
  rw [specMulBlock_bMul _ _ _ hq, nosimdMulBlock_spec, ssse3MulBlock_spec, avx2MulBlock_spec,
    neonMulBlock_spec]
  exact ⟨rfl, rfl, rfl, rfl⟩

/-- lane `l` of a shard whose blocks went through `specMulBlock f` -/
theorem bLane_specMulBlock (f : Sym → Sym) (s : BShard) (l : Nat) :
    blockSym (specMulBlock f (s.getD (l / 32) (Vector.replicate 64 0#8))) ⟨l % 32, Nat.mod_lt _ (by decide)⟩
      = f (bLane s l) := by
  rw [blockSym_specMulBlock, ← bLane_blockSym]

end RS

#print axioms RS.ssse3MulBlock_spec
#print axioms RS.avx2MulBlock_spec
#print axioms RS.neonMulBlock_spec
#print axioms RS.nosimdMulBlock_spec
#print axioms RS.kernels_agree_block
#print axioms RS.muladd_agree_block
#print axioms RS.fftb_agree_block
#print axioms RS.ifftb_agree_block
#print axioms RS.ssse3MulBlock_eq
#print axioms RS.avx2MulBlock_eq
#print axioms RS.neonMulBlock_eq
#print axioms RS.nosimdMulBlock_eq
#print axioms RS.ssse3MulBlock_gmul
#print axioms RS.avx2MulBlock_gmul
#print axioms RS.neonMulBlock_gmul
#print axioms RS.nosimdMulBlock_gmul
#print axioms RS.ssse3MulBlock_mulLog
#print axioms RS.avx2MulBlock_mulLog
#print axioms RS.neonMulBlock_mulLog
#print axioms RS.nosimdMulBlock_mulLog
#print axioms RS.ssse3Fftb_spec
#print axioms RS.avx2Fftb_spec
#print axioms RS.neonFftb_spec
#print axioms RS.nosimdFftb_spec
#print axioms RS.ssse3Ifftb_spec
#print axioms RS.avx2Ifftb_spec
#print axioms RS.neonIfftb_spec
#print axioms RS.nosimdIfftb_spec
#print axioms RS.ssse3Fftb_sym
#print axioms RS.avx2Fftb_sym
#print axioms RS.neonFftb_sym
#print axioms RS.nosimdFftb_sym
#print axioms RS.ssse3Ifftb_sym
#print axioms RS.avx2Ifftb_sym
#print axioms RS.neonIfftb_sym
#print axioms RS.nosimdIfftb_sym
#print axioms RS.butterflies_gmul
#print axioms RS.specMulBlock_bMul
#print axioms RS.blockXor_bXor
#print axioms RS.bMul_block_engines
#print axioms RS.bLane_specMulBlock
