/-
  C02: the recovery shards computed by the FFT-based encoders of reed-solomon-simd are exactly
  the closed-form scaled-Cauchy code of `Model/Spec.lean`.

    encodeHigh_eq_cauchy   (Theorem A, this file)
    encodeLow_eq_cauchy    (Theorem B, `Proofs/CauchyEncLow.lean`)

  High rate, one lane (`m = npow2 r = 2^e`): every chunk `c` of the originals is interpolated
  on the coset `(c+1)m + [0, m)` (`ifft`), the coefficient blocks are XOR-ed into chunk 0, and
  the sum is evaluated at the points `0 … r-1` (`fft`).  By `lch_transfer_high_cauchy` the value
  at `j` of the block of chunk `c` is `⊕_u cauchyHigh k r j (cm+u) · data[cm+u]`.
-/
import RSVerif.Proofs.CauchyEncLow

namespace RS
namespace CE
open ShardAlg

/-! ### one chunk -/

/-- the coefficient block of chunk `c`, evaluated at the point `j < m` -/
theorem block_eval (s : Sched) (e : Nat) (he : e ≤ 16) (k r : Nat) (hrp : npow2 r = 2 ^ e)
    (a : Array Sym) (c trunc : Nat) (ht : trunc ≤ 2 ^ e) (hsz : (c + 1) * 2 ^ e ≤ a.size)
    (hb : (c + 2) * 2 ^ e ≤ 65536)
    (hz : ∀ i, trunc ≤ i → i < 2 ^ e → rd a (c * 2 ^ e + i) = 0#16) {j : Nat} (hj : j < 2 ^ e) :
    lchF (2 ^ e) (fun t => rd (ifft s a (c * 2 ^ e) (2 ^ e) trunc (c * 2 ^ e + 2 ^ e))
        (c * 2 ^ e + t)) (BitVec.ofNat 16 j) =
      xsum (2 ^ e) (fun u => gmul (cauchyHigh k r j (c * 2 ^ e + u)) (rd a (c * 2 ^ e + u))) := by
  have e1 : (c + 1) * 2 ^ e = c * 2 ^ e + 2 ^ e := Nat.succ_mul _ _
  have e2 : (c + 2) * 2 ^ e = c * 2 ^ e + 2 * 2 ^ e := Nat.add_mul _ _ _
  have hdvd : 2 ^ e ∣ c * 2 ^ e + 2 ^ e := Nat.dvd_add (Nat.dvd_mul_left _ _) (Nat.dvd_refl _)
  rw [lch_transfer_high_cauchy (k := k) (r := r) he hrp hdvd (by omega) (by omega) _ hj]
  apply xsum_congr'
  intro u hu
  rw [ifft_window s a (c * 2 ^ e) e trunc (c * 2 ^ e + 2 ^ e) he hdvd (by omega) (by omega) ht hz hu,
    Nat.add_sub_cancel]

/-- interpolating chunk `c ≥ 1` and XOR-ing its coefficient block into chunk 0 adds the
    contribution of chunk `c` to the value at every point `j < m` -/
theorem absorb (s : Sched) (e : Nat) (he : e ≤ 16) (k r : Nat) (hrp : npow2 r = 2 ^ e)
    (a : Array Sym) (c trunc : Nat) (hc : 1 ≤ c) (ht : trunc ≤ 2 ^ e)
    (hsz : (c + 1) * 2 ^ e ≤ a.size) (hb : (c + 2) * 2 ^ e ≤ 65536)
    (hz : ∀ i, trunc ≤ i → i < 2 ^ e → rd a (c * 2 ^ e + i) = 0#16) :
    (xorWithin (ifft s a (c * 2 ^ e) (2 ^ e) trunc (c * 2 ^ e + 2 ^ e)) 0 (c * 2 ^ e) (2 ^ e)).size
      = a.size ∧
    (∀ p, (c + 1) * 2 ^ e ≤ p →
      rd (xorWithin (ifft s a (c * 2 ^ e) (2 ^ e) trunc (c * 2 ^ e + 2 ^ e)) 0 (c * 2 ^ e) (2 ^ e)) p
        = rd a p) ∧
    ∀ j, j < 2 ^ e →
      lchF (2 ^ e) (fun t => rd (xorWithin (ifft s a (c * 2 ^ e) (2 ^ e) trunc (c * 2 ^ e + 2 ^ e))
          0 (c * 2 ^ e) (2 ^ e)) t) (BitVec.ofNat 16 j) =
        lchF (2 ^ e) (fun t => rd a t) (BitVec.ofNat 16 j) ^^^
          xsum (2 ^ e) (fun u => gmul (cauchyHigh k r j (c * 2 ^ e + u)) (rd a (c * 2 ^ e + u))) := by
  have hm : 0 < 2 ^ e := Nat.two_pow_pos e
  have e1 : (c + 1) * 2 ^ e = c * 2 ^ e + 2 ^ e := Nat.succ_mul _ _
  have hcm : 1 * 2 ^ e ≤ c * 2 ^ e := Nat.mul_le_mul_right _ hc
  rw [Nat.one_mul] at hcm
  have hdis : 0 + 2 ^ e ≤ c * 2 ^ e ∨ c * 2 ^ e + 2 ^ e ≤ 0 := Or.inl (by omega)
  generalize ha' : ifft s a (c * 2 ^ e) (2 ^ e) trunc (c * 2 ^ e + 2 ^ e) = a'
  have hs' : a'.size = a.size := by rw [← ha']; simp
  have hfr : ∀ p, p < c * 2 ^ e ∨ c * 2 ^ e + 2 ^ e ≤ p → rd a' p = rd a p := by
    intro p hp; rw [← ha']; exact ifft_frame _ _ _ _ _ _ hp
  refine ⟨by rw [xorWithin_size _ _ _ _ hdis, hs'], fun p hp => ?_, fun j hj => ?_⟩
  · by_cases hpa : p < a.size
    · rw [rd_xorWithin _ _ _ _ hdis (by rw [hs']; exact hpa), if_neg (by omega)]
      exact hfr p (Or.inr (by omega))
    · rw [rd_eq_zero _ (by rw [xorWithin_size _ _ _ _ hdis, hs']; exact hpa), rd_eq_zero _ hpa]
  · rw [← block_eval s e he k r hrp a c trunc ht hsz hb hz hj, ha', ← lchF_xor]
    apply lchF_congr
    intro t ht
    rw [rd_xorWithin _ _ _ _ hdis (by rw [hs']; omega), if_pos (by omega), hfr t (Or.inl (by omega))]
    have e3 : t - 0 + c * 2 ^ e = c * 2 ^ e + t := by omega
    rw [e3]
    rfl

/-! ### the invariant of the chunk loop -/

/-- the zero-padded originals -/
def dat (k : Nat) (mem : Array Sym) (i : Nat) : Sym := if i < k then rd mem i else 0#16

/-- after the chunks `0 … c`: positions from `(c+1)m` on are untouched, and the polynomial whose
    LCH coefficients are in `[0, m)` takes at every point `j < m` the value
    `⊕_{i < (c+1)m} cauchyHigh k r j i · data[i]` -/
def HInv (e k r : Nat) (mem : Array Sym) (c : Nat) (a : Array Sym) : Prop :=
  a.size = mem.size ∧ (∀ p, (c + 1) * 2 ^ e ≤ p → rd a p = rd mem p) ∧
  ∀ j, j < 2 ^ e → lchF (2 ^ e) (fun t => rd a t) (BitVec.ofNat 16 j) =
    xsum ((c + 1) * 2 ^ e) (fun i => gmul (cauchyHigh k r j i) (dat k mem i))

theorem HInv_step (s : Sched) (e : Nat) (he : e ≤ 16) (k r : Nat) (hrp : npow2 r = 2 ^ e)
    (mem : Array Sym) (c : Nat) (a : Array Sym) (hk : (c + 2) * 2 ^ e ≤ k)
    (hsz : (c + 2) * 2 ^ e ≤ mem.size) (hb : (c + 3) * 2 ^ e ≤ 65536)
    (H : HInv e k r mem c a) : HInv e k r mem (c + 1) (highFullChunk s (2 ^ e) a (c + 1)) := by
  obtain ⟨h1, h2, h3⟩ := H
  have e1 : (c + 1 + 1) * 2 ^ e = (c + 1) * 2 ^ e + 2 ^ e := Nat.succ_mul _ _
  have e0 : (c + 2) * 2 ^ e = (c + 1) * 2 ^ e + 2 ^ e := Nat.succ_mul _ _
  obtain ⟨a1, a2, a3⟩ := absorb s e he k r hrp a (c + 1) (2 ^ e) (by omega) (Nat.le_refl _)
    (by rw [h1]; exact hsz) hb (fun i h1 h2 => absurd h2 (by omega))
  unfold highFullChunk
  refine ⟨by rw [a1, h1], fun p hp => ?_, fun j hj => ?_⟩
  · rw [a2 p hp, h2 p (by omega)]
  · rw [a3 j hj, h3 j hj, e1, xsum_split']
    congr 1
    apply xsum_congr'
    intro u hu
    rw [h2 _ (by omega), dat, if_pos (by omega)]

/-! ### one lane -/

/-- the last step: evaluate at the points `0 … r-1`, drop the zero padding -/
theorem finish (s : Sched) (e : Nat) (he : e ≤ 16) (k r : Nat) (hrm : r ≤ 2 ^ e) (mem a : Array Sym)
    (n : Nat) (hkn : k ≤ n) (hsz : 2 ^ e ≤ a.size)
    (H : ∀ j, j < 2 ^ e → lchF (2 ^ e) (fun t => rd a t) (BitVec.ofNat 16 j) =
      xsum n (fun i => gmul (cauchyHigh k r j i) (dat k mem i))) {j : Nat} (hj : j < r) :
    rd (fft s a 0 (2 ^ e) r 0) j = xsum k (fun i => gmul (cauchyHigh k r j i) (rd mem i)) := by
  have h := fft_window s a 0 e r 0 he (Nat.dvd_zero _) (by omega) hrm hj
  simp only [Nat.zero_add] at h
  rw [h, H j (by omega),
    xsum_trim hkn (fun t h1 _ => by rw [dat, if_neg (by omega)]; exact gmul_zero_right _)]
  exact xsum_congr' (fun t ht => by rw [dat, if_pos ht])

/-- `encodeHigh` with the chunk size `npow2 r` replaced by `2^e` -/
theorem encodeHigh_core (s : Sched) (e k r : Nat) (he : e ≤ 16) (hrp : npow2 r = 2 ^ e)
    (_hk0 : 0 < k) (hrm : r ≤ 2 ^ e) (mem : Array Sym) (hkN : k ≤ mem.size)
    (hmN : 2 ^ e ≤ mem.size) (hm2 : 2 * 2 ^ e ≤ 65536)
    (hgeo : ∀ c, c * 2 ^ e < k → (c + 2) * 2 ^ e ≤ 65536 ∧ (c + 1) * 2 ^ e ≤ mem.size)
    (j : Nat) (hj : j < r) :
    rd (let chunk := 2 ^ e
        let first := min k chunk
        let a := zeroRange mem first chunk
        let a := ifft s a 0 chunk first chunk
        let a :=
          if k > chunk then
            let q := k / chunk
            let a := (List.range (q - 1)).foldl (fun a i => highFullChunk s chunk a (i + 1)) a
            let start := q * chunk
            let last := k % chunk
            if last > 0 then
              let a := zeroRange a (start + last) a.size
              let a := ifft s a start chunk last (start + chunk)
              xorWithin a 0 start chunk
            else a
          else a
        fft s a 0 chunk r 0) j =
      xsum k (fun i => gmul (cauchyHigh k r j i) (rd mem i)) := by
  have hm : 0 < 2 ^ e := Nat.two_pow_pos e
  simp only []
  -- stage 1 as an instance of `block_eval` with `c = 0`
  have hst : ∀ trunc, trunc ≤ 2 ^ e → trunc ≤ k → ∀ j, j < 2 ^ e →
      lchF (2 ^ e) (fun t => rd (ifft s (zeroRange mem trunc (2 ^ e)) 0 (2 ^ e) trunc (2 ^ e)) t)
        (BitVec.ofNat 16 j) =
      xsum (2 ^ e) (fun u => gmul (cauchyHigh k r j u) (if u < trunc then rd mem u else 0#16)) := by
    intro trunc ht htk j hj
    have h := block_eval s e he k r hrp (zeroRange mem trunc (2 ^ e)) 0 trunc ht
      (by simp; omega) (by omega)
      (fun i h1 h2 => by rw [Stale.rd_zeroRange, if_pos (by omega)]; rfl) hj
    simp only [Nat.zero_mul, Nat.zero_add] at h
    rw [h]
    apply xsum_congr'
    intro u hu
    rw [Stale.rd_zeroRange]
    by_cases hut : u < trunc
    · rw [if_neg (by omega), if_pos hut]
    · rw [if_pos (by omega), if_neg hut]; rfl
  by_cases hkc : k > 2 ^ e
  · -- several chunks
    rw [if_pos hkc, Nat.min_eq_right (Nat.le_of_lt hkc)]
    have hq : k / 2 ^ e * 2 ^ e ≤ k := Nat.div_mul_le_self _ _
    have hdm : 2 ^ e * (k / 2 ^ e) + k % 2 ^ e = k := Nat.div_add_mod k (2 ^ e)
    have hcomm : 2 ^ e * (k / 2 ^ e) = k / 2 ^ e * 2 ^ e := Nat.mul_comm _ _
    have hq1 : 1 ≤ k / 2 ^ e := (Nat.le_div_iff_mul_le hm).2 (by omega)
    -- stage 1
    have H0 : HInv e k r mem 0
        (ifft s (zeroRange mem (2 ^ e) (2 ^ e)) 0 (2 ^ e) (2 ^ e) (2 ^ e)) := by
      refine ⟨by simp, fun p hp => ?_, fun j hj => ?_⟩
      · rw [Nat.zero_add, Nat.one_mul] at hp
        rw [ifft_frame _ _ _ _ _ _ (Or.inr (by omega)), Stale.rd_zeroRange, if_neg (by omega)]
      · rw [hst (2 ^ e) (Nat.le_refl _) (by omega) j hj, Nat.zero_add, Nat.one_mul]
        apply xsum_congr'
        intro u hu
        rw [if_pos hu, dat, if_pos (by omega)]
    -- the loop
    have HL := foldl_range_inv (fun i a => HInv e k r mem i a)
      (fun a i => highFullChunk s (2 ^ e) a (i + 1)) (k / 2 ^ e - 1) H0
      (fun i a hi H => by
        have h1 : (i + 2) * 2 ^ e ≤ k / 2 ^ e * 2 ^ e := Nat.mul_le_mul_right _ (by omega)
        have h2 : (i + 1) * 2 ^ e < k := by
          have : (i + 2) * 2 ^ e = (i + 1) * 2 ^ e + 2 ^ e := Nat.succ_mul _ _
          omega
        have h3 := hgeo (i + 1) h2
        exact HInv_step s e he k r hrp mem i a (by omega) (by omega) h3.1 H)
    generalize (List.range (k / 2 ^ e - 1)).foldl
      (fun a i => highFullChunk s (2 ^ e) a (i + 1))
      (ifft s (zeroRange mem (2 ^ e) (2 ^ e)) 0 (2 ^ e) (2 ^ e) (2 ^ e)) = aL at HL
    have hqq : k / 2 ^ e - 1 + 1 = k / 2 ^ e := by omega
    obtain ⟨l1, l2, l3⟩ := HL
    rw [hqq] at l2 l3
    by_cases hl : k % 2 ^ e > 0
    · -- a final partial chunk
      rw [if_pos hl]
      have hqk : k / 2 ^ e * 2 ^ e < k := by omega
      have hg := hgeo (k / 2 ^ e) hqk
      have e1 : (k / 2 ^ e + 1) * 2 ^ e = k / 2 ^ e * 2 ^ e + 2 ^ e := Nat.succ_mul _ _
      have hkk : k / 2 ^ e * 2 ^ e + k % 2 ^ e = k := by omega
      have hlt : k % 2 ^ e < 2 ^ e := Nat.mod_lt _ hm
      rw [hkk, l1]
      have hz : ∀ p, rd (zeroRange aL k mem.size) p =
          if k ≤ p then 0#16 else rd aL p := by
        intro p
        rw [Stale.rd_zeroRange]
        by_cases hp : k ≤ p
        · rw [if_pos hp]
          by_cases hp2 : p < mem.size
          · rw [if_pos ⟨hp, hp2⟩]; rfl
          · rw [if_neg (fun h => hp2 h.2), rd_eq_zero _ (by rw [l1]; exact hp2)]; rfl
        · rw [if_neg hp, if_neg (fun h => hp h.1)]
      obtain ⟨a1, a2, a3⟩ := absorb s e he k r hrp (zeroRange aL k mem.size) (k / 2 ^ e)
        (k % 2 ^ e) hq1 (Nat.le_of_lt hlt) (by simp [l1]; omega) hg.1
        (fun i h1 h2 => by rw [hz, if_pos (by omega)])
      refine finish s e he k r hrm mem _ (k / 2 ^ e * 2 ^ e + 2 ^ e) (by omega)
        (by rw [a1]; simp [l1]; omega) (fun j hj => ?_) hj
      rw [a3 j hj, xsum_split', ← l3 j hj]
      congr 1
      · apply lchF_congr
        intro t ht
        rw [hz, if_neg (by omega)]
      · apply xsum_congr'
        intro u hu
        rw [hz, dat]
        by_cases hu2 : k / 2 ^ e * 2 ^ e + u < k
        · rw [if_neg (by omega), if_pos hu2, l2 _ (by omega)]
        · rw [if_pos (by omega), if_neg hu2]
    · -- `k` is a multiple of the chunk size
      rw [if_neg hl]
      exact finish s e he k r hrm mem aL (k / 2 ^ e * 2 ^ e) (by omega) (by rw [l1]; exact hmN)
        l3 hj
  · -- a single chunk
    rw [if_neg hkc, Nat.min_eq_left (by omega)]
    refine finish s e he k r hrm mem _ (2 ^ e) (by omega) (by simp; exact hmN)
      (fun j hj => ?_) hj
    rw [hst k (by omega) (Nat.le_refl _) j hj]
    rfl

/-- **C02, high rate, one lane.** -/
theorem encodeHigh_sym (s : Sched) (k r : Nat) (hsup : supportsHigh k r = true) (mem : Array Sym)
    (hsz : mem.size = highEncWorkCount k r) {j : Nat} (hj : j < r) :
    rd (encodeHigh s k r mem) j = xsum k (fun i => gmul (cauchyHigh k r j i) (rd mem i)) := by
  obtain ⟨hk0, hr0, hk, hr, hs⟩ := supportsHigh_eq.mp hsup
  obtain ⟨e, he, hm, hre, _⟩ := npow2_eq_pow (n := r) (by omega)
  have geo := high_geometry hsup
  simp only [] at geo
  obtain ⟨g1, g2, g3, g4, g5, _, _⟩ := geo
  rw [hm] at g1 g4 g5
  have hmN : 2 ^ e ≤ mem.size := by
    have := (g5 0 (by omega)).2
    rw [Nat.zero_add, Nat.one_mul] at this
    rw [hsz]; exact this
  have hcore := encodeHigh_core s e k r he hm hk0 hre mem (by rw [hsz]; exact g2) hmN g1
    (fun c hc => by rw [hsz]; exact g5 c hc) j hj
  unfold encodeHigh
  rw [hm]
  exact hcore

end CE

/-! ### all lanes -/

open CE in
/-- **Theorem A (C02, high rate)**, with the originals given separately: the first `k` entries of
    the work memory are the originals, everything else is arbitrary stale content. -/
theorem encodeHigh_eq_cauchy' {L : Nat} (s : Sched) (k r : Nat)
    (hsup : supportsHigh k r = true) (mem orig : Array (Vector Sym L))
    (hsz : mem.size = highEncWorkCount k r)
    (horig : ∀ i, i < k → rd mem i = orig.getD i (Vector.replicate L 0#16)) {j : Nat} (hj : j < r) :
    rd (encodeHigh s k r mem) j = (cauchyEncode .high k r orig).getD j (Vector.replicate L 0#16) := by
  apply Vector.ext
  intro l hl
  show (rd (encodeHigh s k r mem) j)[(⟨l, hl⟩ : Fin L)] =
    ((cauchyEncode .high k r orig).getD j (Vector.replicate L 0#16))[(⟨l, hl⟩ : Fin L)]
  rw [cauchyEncode_lane_high k r orig hj ⟨l, hl⟩, rd_lane, encodeHigh_lane ⟨l, hl⟩,
    encodeHigh_sym s k r hsup _ (by rw [Array.size_map]; exact hsz) hj]
  apply xsum_congr'
  intro i hi
  rw [← rd_lane, horig i hi]

/-- **Theorem A (C02, high rate).**  The recovery shards computed by the FFT-based high-rate
    encoder are exactly the closed-form scaled-Cauchy code of the first `k` entries of the work
    memory, for every schedule, every supported configuration and every lane count. -/
theorem encodeHigh_eq_cauchy {L : Nat} (s : Sched) (k r : Nat)
    (hsup : supportsHigh k r = true) (mem : Array (Vector Sym L))
    (hsz : mem.size = highEncWorkCount k r) {j : Nat} (hj : j < r) :
    rd (encodeHigh s k r mem) j =
      (cauchyEncode .high k r (mem.extract 0 k)).getD j (Vector.replicate L 0#16) := by
  apply encodeHigh_eq_cauchy' s k r hsup mem _ hsz _ hj
  intro i hi
  have hk : k ≤ mem.size := by
    have geo := high_geometry hsup
    simp only [] at geo
    omega
  have hi' : i < mem.size := by omega
  simp [rd, Array.getD_eq_getD_getElem?, hi, hi']

end RS

#print axioms RS.CE.encodeHigh_sym
#print axioms RS.CE.encodeLow_sym
#print axioms RS.encodeHigh_eq_cauchy'
#print axioms RS.encodeLow_eq_cauchy'
#print axioms RS.encodeHigh_eq_cauchy
#print axioms RS.encodeLow_eq_cauchy
