/-
  Development behind Proofs/SrcMulSpec.lean: an invariant rule for `forStep` loops in the form
  `Ok o Q` ("o returns some v without panicking and Q v holds"), `set!`/`getD` lemmas, the specification of
  `write16`, and the two inner loops of `initialize_mul16` / `initialize_mul128`.
  NOTE for maintenance: the closed 4194304-entry arrays are `generalize`d to variables before any rewriting, and
  `bind_some'` (not the `rfl`-lemma `Option.bind_some`) is used on the long bind chains.
-/
import RSVerif.Gen.SrcMul
import RSVerif.Model.TableInit
import RSVerif.Proofs.SrcTablesAux

namespace RS.SrcM
open RS RS.RustU RS.SrcU RS.SrcT

/-- `o` returns some `v` (no panic) and `Q v` holds -/
def Ok {σ : Type} (o : Option σ) (Q : σ → Prop) : Prop := ∃ v, o = some v ∧ Q v

theorem Ok.elim {σ : Type} {o : Option σ} {Q : σ → Prop} (h : Ok o Q) : ∃ v, o = some v ∧ Q v := h

theorem Ok.some {σ : Type} {v : σ} {Q : σ → Prop} (h : Q v) : Ok (Option.some v) Q := ⟨v, rfl, h⟩

theorem Ok.bind {σ τ : Type} {o : Option σ} {P : σ → Prop} {k : σ → Option τ} {Q : τ → Prop}
    (h : Ok o P) (hk : ∀ v, P v → Ok (k v) Q) : Ok (o.bind k) Q := by
  obtain ⟨v, h1, h2⟩ := h
  rw [h1, bind_some']; exact hk v h2

theorem forStepAux_inv {σ : Type} (P : Nat → σ → Prop) (hi : Nat) (f : Nat → σ → Option σ)
    (hstep : ∀ i s, i < hi → P i s → Ok (f i s) (P (i + 1))) :
    ∀ cnt i s, i + cnt ≤ hi → P i s → Ok (forStepAux 1 f cnt i s) (P (i + cnt))
  | 0, _, s, _, hP => ⟨s, rfl, hP⟩
  | cnt + 1, i, s, hle, hP => by
    obtain ⟨s1, h1, h2⟩ := hstep i s (by omega) hP
    obtain ⟨s2, h3, h4⟩ := forStepAux_inv P hi f hstep cnt (i + 1) s1 (by omega) h2
    refine ⟨s2, ?_, ?_⟩
    · simp only [forStepAux, h1, Option.bind_some, h3]
    · have : i + (cnt + 1) = i + 1 + cnt := by omega
      rw [this]; exact h4

/-- `for i in 0..hi` with an invariant -/
theorem Ok.forStep0 {σ τ : Type} (P : Nat → σ → Prop) {hi : Nat} {f : Nat → σ → Option σ}
    {s : σ} {k : σ → Option τ} {Q : τ → Prop} (hP : P 0 s)
    (hstep : ∀ i s, i < hi → P i s → Ok (f i s) (P (i + 1)))
    (hk : ∀ s', P hi s' → Ok (k s') Q) :
    Ok ((forStep 0 hi 1 f s).bind k) Q := by
  have h := forStepAux_inv P hi f hstep hi 0 s (by omega) hP
  rw [Nat.zero_add] at h
  have e : forStep 0 hi 1 f s = forStepAux 1 f hi 0 s := by
    unfold forStep
    simp only [Nat.one_ne_zero, if_false, Nat.add_sub_cancel, Nat.div_one, Nat.sub_zero]
  rw [e]
  exact Ok.bind h hk

/-! ### `set!` / `getD` -/

theorem size_set (t : Array Nat) (a v : Nat) : (t.set! a v).size = t.size := by
  rw [Array.set!_eq_setIfInBounds, Array.size_setIfInBounds]

theorem getD_set (t : Array Nat) (a v x : Nat) (h : a < t.size) :
    (t.set! a v).getD x 0 = if x = a then v else t.getD x 0 := by
  rw [Array.set!_eq_setIfInBounds, RS.getD_setIfInBounds]
  by_cases hx : x = a
  · subst hx; rw [if_pos ⟨rfl, h⟩, if_pos rfl]
  · rw [if_neg (fun c => hx c.1.symm), if_neg hx]

theorem getD_set_ne (t : Array Nat) (a v x : Nat) (h : x ≠ a) : (t.set! a v).getD x 0 = t.getD x 0 := by
  rw [Array.set!_eq_setIfInBounds, RS.getD_setIfInBounds, if_neg (fun c => h c.1.symm)]

theorem getD_set4 (s : Array Nat) (a0 a1 a2 a3 v0 v1 v2 v3 x : Nat) (h0 : a0 < s.size) (h1 : a1 < s.size)
    (h2 : a2 < s.size) (h3 : a3 < s.size) :
    ((((s.set! a0 v0).set! a1 v1).set! a2 v2).set! a3 v3).getD x 0 =
      if x = a3 then v3 else if x = a2 then v2 else if x = a1 then v1 else if x = a0 then v0 else s.getD x 0 := by
  rw [getD_set _ _ _ _ (by rw [size_set, size_set, size_set]; exact h3),
    getD_set _ _ _ _ (by rw [size_set, size_set]; exact h2),
    getD_set _ _ _ _ (by rw [size_set]; exact h1), getD_set _ _ _ _ h0]

/-! ### `write16` -/

theorem write16_fold (bytes : Array Nat) (off : Nat) (arr : Array Nat) : ∀ n, off + n ≤ arr.size →
    ((List.range n).foldl (fun a j => a.set! (off + j) (bytes.getD j 0)) arr).size = arr.size ∧
    ∀ x, ((List.range n).foldl (fun a j => a.set! (off + j) (bytes.getD j 0)) arr).getD x 0 =
      if off ≤ x ∧ x < off + n then bytes.getD (x - off) 0 else arr.getD x 0 := by
  intro n
  induction n with
  | zero =>
    intro _
    refine ⟨rfl, fun x => ?_⟩
    rw [if_neg (by omega)]; rfl
  | succ n ih =>
    intro hn
    obtain ⟨h1, h2⟩ := ih (by omega)
    rw [List.range_succ, List.foldl_append, List.foldl_cons, List.foldl_nil]
    refine ⟨by rw [size_set, h1], fun x => ?_⟩
    rw [getD_set _ _ _ _ (by rw [h1]; omega), h2 x]
    by_cases hx : x = off + n
    · subst hx
      rw [if_pos rfl, if_pos (by omega), Nat.add_sub_cancel_left]
    · rw [if_neg hx]
      by_cases hx2 : off ≤ x ∧ x < off + n
      · rw [if_pos hx2, if_pos (by omega)]
      · rw [if_neg hx2, if_neg (by omega)]

theorem write16_ok (arr : Array Nat) (off : Nat) (bytes : Array Nat) (hb : bytes.size = 16)
    (ho : off + 16 ≤ arr.size) :
    Ok (write16 arr off bytes) (fun r => r.size = arr.size ∧
      (∀ j, j < 16 → r.getD (off + j) 0 = bytes.getD j 0) ∧
      ∀ x, x < off ∨ off + 16 ≤ x → r.getD x 0 = arr.getD x 0) := by
  obtain ⟨h1, h2⟩ := write16_fold bytes off arr 16 ho
  unfold write16
  rw [if_pos ⟨hb, ho⟩]
  refine Ok.some ⟨h1, fun j hj => ?_, fun x hx => ?_⟩
  · rw [h2, if_pos (by omega), Nat.add_sub_cancel_left]
  · rw [h2, if_neg (by omega)]

/-! ### arithmetic -/

theorem shift_lt {k x : Nat} (hk : k < 4) (hx : x < 16) : x * 2 ^ (4 * k) < 65536 := by
  have hp : 2 ^ (4 * k) ≤ 2 ^ 12 := Nat.pow_le_pow_right (by omega) (by omega)
  have := Nat.mul_le_mul (show x ≤ 15 by omega) hp
  omega

theorem sh0 {j : Nat} (hj : j < 16) : j % 65536 = j * 2 ^ (4 * 0) := by omega
theorem sh1 {j : Nat} (hj : j < 16) : j * 2 ^ 4 % 18446744073709551616 % 65536 = j * 2 ^ (4 * 1) := by omega
theorem sh2 {j : Nat} (hj : j < 16) : j * 2 ^ 8 % 18446744073709551616 % 65536 = j * 2 ^ (4 * 2) := by omega
theorem sh3 {j : Nat} (hj : j < 16) : j * 2 ^ 12 % 18446744073709551616 % 65536 = j * 2 ^ (4 * 3) := by omega

/-- the three-level index is injective -/
theorem idx_inj {a k i a' k' i' : Nat} (hk : k < 4) (hi : i < 16) (hk' : k' < 4) (hi' : i' < 16)
    (h : (a * 4 + k) * 16 + i = (a' * 4 + k') * 16 + i') : a = a' ∧ k = k' ∧ i = i' := by
  omega

end RS.SrcM
