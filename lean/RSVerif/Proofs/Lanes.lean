/-
  The lane-vector shard algebra `Vector Sym L` satisfies the shard-algebra laws (pointwise from
  the laws of `Sym`).
-/
import RSVerif.Proofs.FieldLaws

namespace RS
open ShardAlg

instance instLawfulShardAlgVector {L : Nat} : LawfulShardAlg (Vector Sym L) where
  add_comm a b := by
    apply Vector.ext; intro i hi
    simp [ShardAlg.add, BitVec.xor_comm]
  add_assoc a b c := by
    apply Vector.ext; intro i hi
    simp [ShardAlg.add, BitVec.xor_assoc]
  add_zero a := by
    apply Vector.ext; intro i hi
    simp [ShardAlg.add, ShardAlg.zero]
  add_self a := by
    apply Vector.ext; intro i hi
    simp [ShardAlg.add, ShardAlg.zero]
  smul_add c a b := by
    apply Vector.ext; intro i hi
    simp [ShardAlg.add, ShardAlg.smul, gmul_xor_right]
  smul_zero c := by
    apply Vector.ext; intro i hi
    simpa [ShardAlg.smul, ShardAlg.zero] using gmul_zero_right c
  zero_smul a := by
    apply Vector.ext; intro i hi
    simpa [ShardAlg.smul, ShardAlg.zero] using gmul_zero_left a[i]
  add_smul c d a := by
    apply Vector.ext; intro i hi
    simp [ShardAlg.add, ShardAlg.smul, gmul_xor_left]
  smul_smul c d a := by
    apply Vector.ext; intro i hi
    simp [ShardAlg.smul, gmul_assoc]
  one_smul a := by
    apply Vector.ext; intro i hi
    simp [ShardAlg.smul, gmul_one_left]

end RS
