/-
  Data-path part of "results never depend on what the codec object did before":
  the encoders / decoders of `Model/Codec.lean` only look at the positions of the work memory
  that hold inserted shards.  Everything else is zero-filled (or overwritten) before it is read.

    decodeHigh_congr, decodeLow_congr, encodeLow_congr, encodeHigh_congr

  Helper lemmas live in the namespace `RS.Stale`.
-/
import RSVerif.Model.State
import RSVerif.Proofs.Sched

namespace RS
open ShardAlg

namespace Stale

variable {V : Type} [ShardAlg V]

/-! ### arithmetic of `npow2` / `nextMultipleOf` -/

/-- `npow2` on the supported range: a power of two, not below the argument -/
theorem npow2_spec (x : Nat) (h : x ≤ 65536) : ∃ n, npow2 x = 2 ^ n ∧ x ≤ 2 ^ n := by
  unfold npow2
  by_cases h0 : x ≤ 1
  · rw [if_pos h0]; exact ⟨0, rfl, h0⟩
  rw [if_neg h0]
  by_cases h1 : x ≤ 2
  · rw [if_pos h1]; exact ⟨1, rfl, h1⟩
  rw [if_neg h1]
  by_cases h2 : x ≤ 4
  · rw [if_pos h2]; exact ⟨2, rfl, h2⟩
  rw [if_neg h2]
  by_cases h3 : x ≤ 8
  · rw [if_pos h3]; exact ⟨3, rfl, h3⟩
  rw [if_neg h3]
  by_cases h4 : x ≤ 16
  · rw [if_pos h4]; exact ⟨4, rfl, h4⟩
  rw [if_neg h4]
  by_cases h5 : x ≤ 32
  · rw [if_pos h5]; exact ⟨5, rfl, h5⟩
  rw [if_neg h5]
  by_cases h6 : x ≤ 64
  · rw [if_pos h6]; exact ⟨6, rfl, h6⟩
  rw [if_neg h6]
  by_cases h7 : x ≤ 128
  · rw [if_pos h7]; exact ⟨7, rfl, h7⟩
  rw [if_neg h7]
  by_cases h8 : x ≤ 256
  · rw [if_pos h8]; exact ⟨8, rfl, h8⟩
  rw [if_neg h8]
  by_cases h9 : x ≤ 512
  · rw [if_pos h9]; exact ⟨9, rfl, h9⟩
  rw [if_neg h9]
  by_cases h10 : x ≤ 1024
  · rw [if_pos h10]; exact ⟨10, rfl, h10⟩
  rw [if_neg h10]
  by_cases h11 : x ≤ 2048
  · rw [if_pos h11]; exact ⟨11, rfl, h11⟩
  rw [if_neg h11]
  by_cases h12 : x ≤ 4096
  · rw [if_pos h12]; exact ⟨12, rfl, h12⟩
  rw [if_neg h12]
  by_cases h13 : x ≤ 8192
  · rw [if_pos h13]; exact ⟨13, rfl, h13⟩
  rw [if_neg h13]
  by_cases h14 : x ≤ 16384
  · rw [if_pos h14]; exact ⟨14, rfl, h14⟩
  rw [if_neg h14]
  by_cases h15 : x ≤ 32768
  · rw [if_pos h15]; exact ⟨15, rfl, h15⟩
  rw [if_neg h15]
  by_cases h16 : x ≤ 65536
  · rw [if_pos h16]; exact ⟨16, rfl, h16⟩
  rw [if_neg h16]
  omega

theorem npow2_pow2 (x : Nat) (h : x ≤ 65536) : ∃ n, npow2 x = 2 ^ n := by
  obtain ⟨n, hn, _⟩ := npow2_spec x h
  exact ⟨n, hn⟩

theorem le_npow2 (x : Nat) (h : x ≤ 65536) : x ≤ npow2 x := by
  obtain ⟨n, hn, hx⟩ := npow2_spec x h
  rw [hn]; exact hx

theorem npow2_pos (x : Nat) (h : x ≤ 65536) : 0 < npow2 x := by
  obtain ⟨n, hn⟩ := npow2_pow2 x h
  rw [hn]; exact Nat.two_pow_pos n

theorem le_nextMultipleOf (n c : Nat) : n ≤ nextMultipleOf n c := by
  unfold nextMultipleOf; split <;> omega

/-- `0 < n ≤ c`: one chunk -/
theorem nextMultipleOf_small {n c : Nat} (hn : 0 < n) (hc : n ≤ c) : nextMultipleOf n c = c := by
  unfold nextMultipleOf
  by_cases h : n = c
  · subst h; simp
  · have : n % c = n := Nat.mod_eq_of_lt (by omega)
    rw [this, if_neg (by omega)]; omega

/-- the work count is covered by `⌈n/c⌉` chunks -/
theorem nextMultipleOf_le {n c : Nat} (hn : 0 < n) (hc : 0 < c) :
    nextMultipleOf n c ≤ ((n + c - 1) / c - 1 + 1) * c := by
  have hdm := Nat.div_add_mod n c
  have hm : n % c < c := Nat.mod_lt _ hc
  unfold nextMultipleOf
  by_cases h0 : n % c = 0
  · rw [if_pos h0]
    have hq : 0 < n / c := by
      rcases Nat.eq_zero_or_pos (n / c) with h | h
      · rw [h, Nat.mul_zero] at hdm; omega
      · exact h
    have := (divmod_of_eq (D := c) (q := n / c) (m := c - 1) (i := n + c - 1)
      (by omega) (by omega)).1
    rw [this, Nat.mul_comm]
    have : n / c - 1 + 1 = n / c := by omega
    rw [this]; omega
  · rw [if_neg h0]
    have := (divmod_of_eq (D := c) (q := n / c + 1) (m := n % c - 1) (i := n + c - 1)
      (by rw [Nat.mul_succ]; omega) (by omega)).1
    rw [this, Nat.mul_comm, Nat.add_sub_cancel, Nat.mul_succ]
    omega

/-! ### generic fold lemma -/

/-- an index-dependent relation carried along two parallel folds over `List.range n` -/
theorem foldl_range_rel {β : Type} (R : Nat → β → β → Prop) (f : β → Nat → β) (n : Nat)
    (hstep : ∀ i a b, i < n → R i a b → R (i + 1) (f a i) (f b i)) {a b : β} (h0 : R 0 a b) :
    R n ((List.range n).foldl f a) ((List.range n).foldl f b) := by
  induction n with
  | zero => exact h0
  | succ n ih =>
    rw [List.range_succ, List.foldl_append, List.foldl_append]
    exact hstep n _ _ (Nat.lt_succ_self n) (ih fun i a b hi => hstep i a b (Nat.lt_succ_of_lt hi))

/-! ### the relation "same size `N`, equal below `m`" -/

structure Rel (N m : Nat) (a b : Array V) : Prop where
  sa : a.size = N
  sb : b.size = N
  agree : ∀ p, p < m → rd a p = rd b p

theorem Rel.eq {N m : Nat} {a b : Array V} (H : Rel N m a b) (h : N ≤ m) : a = b := by
  apply ext_rd (by rw [H.sa, H.sb])
  funext p
  by_cases hp : p < N
  · exact H.agree p (by omega)
  · rw [rd_eq_zero _ (by rw [H.sa]; exact hp), rd_eq_zero _ (by rw [H.sb]; exact hp)]

theorem Rel.mono {N m m' : Nat} {a b : Array V} (H : Rel N m a b) (h : m' ≤ m) : Rel N m' a b :=
  ⟨H.sa, H.sb, fun p hp => H.agree p (by omega)⟩

theorem Rel.refl' {N m : Nat} {a : Array V} (h : a.size = N) : Rel N m a a := ⟨h, h, fun _ _ => rfl⟩

/-! ### primitive operations -/

@[simp] theorem zeroRange_size (a : Array V) (lo hi : Nat) : (zeroRange a lo hi).size = a.size := by
  simp [zeroRange]

theorem rd_zeroRange (a : Array V) (lo hi p : Nat) :
    rd (zeroRange a lo hi) p = if lo ≤ p ∧ p < hi then zero else rd a p := by
  by_cases hp : p < a.size
  · rw [rd_eq_getElem _ (by simpa using hp)]
    simp only [zeroRange, Array.getElem_ofFn]
  · rw [rd_eq_zero _ (by simpa using hp), rd_eq_zero _ hp, ite_self]

/-- zero-filling `[lo, hi)` extends agreement: if the positions below `m'` outside `[lo, hi)`
    are below `m`, agreement below `m` becomes agreement below `m'` -/
theorem zeroRange_rel {N m m' lo hi : Nat} {a b : Array V} (H : Rel N m a b)
    (h : ∀ p, p < m' → ¬ (lo ≤ p ∧ p < hi) → p < m) :
    Rel N m' (zeroRange a lo hi) (zeroRange b lo hi) := by
  refine ⟨by simp [H.sa], by simp [H.sb], fun p hp => ?_⟩
  rw [rd_zeroRange, rd_zeroRange]
  by_cases hr : lo ≤ p ∧ p < hi
  · rw [if_pos hr, if_pos hr]
  · rw [if_neg hr, if_neg hr]; exact H.agree p (h p hp hr)

theorem rd_setIfInBounds (a : Array V) (i : Nat) (v : V) (p : Nat) :
    rd (a.setIfInBounds i v) p = if p = i ∧ i < a.size then v else rd a p := by
  unfold rd
  by_cases hp : p = i
  · subst hp
    by_cases hi : p < a.size
    · simp [Array.getD, hi]
    · simp [Array.getD, hi]
  · have : ¬ (p = i ∧ i < a.size) := fun h => hp h.1
    rw [if_neg this]
    by_cases hi : p < a.size
    · simp [Array.getD, hi, Ne.symm hp]
    · simp [Array.getD, hi]

/-- writing the same value at the same index, possibly extending the agreement by that index -/
theorem set_rel {N m : Nat} {a b : Array V} (H : Rel N m a b) (i : Nat) {v w : V} (hv : v = w) :
    Rel N m (a.setIfInBounds i v) (b.setIfInBounds i w) := by
  subst hv
  refine ⟨by simp [H.sa], by simp [H.sb], fun p hp => ?_⟩
  rw [rd_setIfInBounds, rd_setIfInBounds, H.sa, H.sb, H.agree p hp]

theorem set_rel_succ {N m : Nat} {a b : Array V} (H : Rel N m a b) {v w : V} (hv : v = w) :
    Rel N (m + 1) (a.setIfInBounds m v) (b.setIfInBounds m w) := by
  subst hv
  refine ⟨by simp [H.sa], by simp [H.sb], fun p hp => ?_⟩
  rw [rd_setIfInBounds, rd_setIfInBounds, H.sa, H.sb]
  by_cases h : p = m ∧ m < N
  · rw [if_pos h, if_pos h]
  · rw [if_neg h, if_neg h]
    by_cases hpm : p = m
    · subst hpm
      rw [rd_eq_zero _ (by rw [H.sa]; omega), rd_eq_zero _ (by rw [H.sb]; omega)]
    · exact H.agree p (by omega)

theorem xorWithin_rel {N m x y count : Nat} {a b : Array V} (H : Rel N m a b)
    (hx : x + count ≤ m) (hy : y + count ≤ m) :
    Rel N m (xorWithin a x y count) (xorWithin b x y count) := by
  unfold xorWithin
  refine foldl_range_rel (fun _ => Rel N m) _ count (fun i a b hi H => ?_) H
  exact set_rel H _ (by rw [H.agree _ (by omega), H.agree _ (by omega)])

/-- copying `[0, count)` to `[m, m + count)` extends agreement below `m` to `m + count` -/
theorem copyWithin_rel {N m count : Nat} {a b : Array V} (H : Rel N m a b) (hc : count ≤ m) :
    Rel N (m + count) (copyWithin a 0 m count) (copyWithin b 0 m count) := by
  unfold copyWithin
  refine foldl_range_rel (fun i => Rel N (m + i)) _ count (fun i a b hi H => ?_) H
  exact set_rel_succ H (by rw [H.agree _ (by omega)])

/-! ### butterfly layers -/

section layers
variable {delta : Nat} {proc : Nat → Bool} {d pos size m : Nat} {f g : Nat → V}

theorem ifftPt_agree (hd : 0 < d) (hdvd : 2 * d ∣ size) (hm : pos + size ≤ m)
    (H : ∀ p, p < m → f p = g p) {p : Nat} (hp : p < m) :
    ifftPt delta proc d pos size f p = ifftPt delta proc d pos size g p := by
  rcases window_cases pos size p with h | ⟨i, hi, rfl⟩
  · rw [ifftPt_out h, ifftPt_out h]; exact H p hp
  · cases hpr : proc (i / (2 * d) * (2 * d)) with
    | false => rw [ifftPt_skip hi hpr, ifftPt_skip hi hpr]; exact H _ hp
    | true =>
      by_cases hlo : i % (2 * d) < d
      · have := lo_partner_lt hd hdvd hi hlo
        rw [ifftPt_lo hi hpr hlo, ifftPt_lo hi hpr hlo, H _ hp, H (pos + (i + d)) (by omega)]
      · obtain ⟨a1, _, _⟩ := hi_partner hd hlo
        rw [ifftPt_hi hi hpr hlo a1, ifftPt_hi hi hpr hlo a1, H _ hp, H (pos + (i - d)) (by omega)]

theorem fftPt_agree' (hd : 0 < d) (hdvd : 2 * d ∣ size) (hm : pos + size ≤ m)
    (H : ∀ p, p < m → f p = g p) {p : Nat} (hp : p < m) :
    fftPt delta proc d pos size f p = fftPt delta proc d pos size g p := by
  rcases window_cases pos size p with h | ⟨i, hi, rfl⟩
  · rw [fftPt_out h, fftPt_out h]; exact H p hp
  · cases hpr : proc (i / (2 * d) * (2 * d)) with
    | false => rw [fftPt_skip hi hpr, fftPt_skip hi hpr]; exact H _ hp
    | true =>
      by_cases hlo : i % (2 * d) < d
      · have := lo_partner_lt hd hdvd hi hlo
        rw [fftPt_lo hi hpr hlo, fftPt_lo hi hpr hlo, H _ hp, H (pos + (i + d)) (by omega)]
      · obtain ⟨a1, _, _⟩ := hi_partner hd hlo
        rw [fftPt_hi hi hpr hlo a1, fftPt_hi hi hpr hlo a1, H _ hp, H (pos + (i - d)) (by omega)]

end layers

theorem ifftLayer_rel {N m delta d pos size : Nat} {proc : Nat → Bool} {a b : Array V}
    (hd : 0 < d) (hdvd : 2 * d ∣ size) (hm : pos + size ≤ m) (H : Rel N m a b) :
    Rel N m (ifftLayer delta proc d pos size a) (ifftLayer delta proc d pos size b) := by
  refine ⟨by simp [H.sa], by simp [H.sb], fun p hp => ?_⟩
  by_cases hN : p < N
  · rw [rd_ifftLayer_of_lt _ _ _ _ _ _ (by rw [H.sa]; exact hN),
      rd_ifftLayer_of_lt _ _ _ _ _ _ (by rw [H.sb]; exact hN)]
    exact ifftPt_agree hd hdvd hm H.agree hp
  · rw [rd_eq_zero _ (by simpa [H.sa] using hN), rd_eq_zero _ (by simpa [H.sb] using hN)]

theorem fftLayer_rel {N m delta d pos size : Nat} {proc : Nat → Bool} {a b : Array V}
    (hd : 0 < d) (hdvd : 2 * d ∣ size) (hm : pos + size ≤ m) (H : Rel N m a b) :
    Rel N m (fftLayer delta proc d pos size a) (fftLayer delta proc d pos size b) := by
  refine ⟨by simp [H.sa], by simp [H.sb], fun p hp => ?_⟩
  by_cases hN : p < N
  · rw [rd_fftLayer_of_lt _ _ _ _ _ _ (by rw [H.sa]; exact hN),
      rd_fftLayer_of_lt _ _ _ _ _ _ (by rw [H.sb]; exact hN)]
    exact fftPt_agree' hd hdvd hm H.agree hp
  · rw [rd_eq_zero _ (by simpa [H.sa] using hN), rd_eq_zero _ (by simpa [H.sb] using hN)]

/-- every layer distance of the plan is a power of two whose double divides `size` -/
def PlanDvd (size : Nat) (plan : List Layer) : Prop := ∀ l, l ∈ plan → 0 < l.1 ∧ 2 * l.1 ∣ size

theorem pow_dvd {j n : Nat} (h : j < n) : 0 < 2 ^ j ∧ 2 * 2 ^ j ∣ 2 ^ n :=
  ⟨Nat.two_pow_pos j, two_pow_dvd_of_eq (l := j) (m := n - j - 1) (by congr 1; omega)⟩

theorem fftPlanOK_dist {trunc n : Nat} {P : List Layer} (h : FftPlanOK trunc n P) :
    ∀ l, l ∈ P → ∃ j, j < n ∧ l.1 = 2 ^ j := by
  induction h with
  | nil => intro l hl; cases hl
  | @cons n proc plan _ _ ih =>
    intro l hl
    rcases List.mem_cons.1 hl with rfl | hl
    · exact ⟨n, Nat.lt_succ_self n, rfl⟩
    · obtain ⟨j, hj, e⟩ := ih l hl
      exact ⟨j, Nat.lt_succ_of_lt hj, e⟩

theorem ifftPlanOK_dist {trunc lvl m : Nat} {P : List Layer} (h : IfftPlanOK trunc lvl m P) :
    ∀ l, l ∈ P → ∃ j, j < lvl + m ∧ l.1 = 2 ^ j := by
  induction h with
  | nil => intro l hl; cases hl
  | @cons lvl m proc plan _ _ ih =>
    intro l hl
    rcases List.mem_cons.1 hl with rfl | hl
    · exact ⟨lvl, by omega, rfl⟩
    · obtain ⟨j, hj, e⟩ := ih l hl
      exact ⟨j, by omega, e⟩

theorem fftPlan_dvd (s : Sched) (n trunc : Nat) : PlanDvd (2 ^ n) (fftPlan s n trunc) := by
  intro l hl
  obtain ⟨j, hj, e⟩ := fftPlanOK_dist (fftPlan_ok s n trunc) l hl
  rw [e]; exact pow_dvd hj

theorem ifftPlan_dvd (s : Sched) (n trunc : Nat) : PlanDvd (2 ^ n) (ifftPlan s n trunc) := by
  intro l hl
  obtain ⟨j, hj, e⟩ := ifftPlanOK_dist (ifftPlan_ok s n trunc) l hl
  rw [e]; exact pow_dvd (by omega)

theorem runIfftPlan_rel {N m delta pos size : Nat} {plan : List Layer} (hP : PlanDvd size plan)
    (hm : pos + size ≤ m) {a b : Array V} (H : Rel N m a b) :
    Rel N m (runIfftPlan delta pos size plan a) (runIfftPlan delta pos size plan b) := by
  induction plan generalizing a b with
  | nil => exact H
  | cons l ls ih =>
    simp only [runIfftPlan, List.foldl_cons] at ih ⊢
    have hl := hP l (List.mem_cons_self ..)
    exact ih (fun l' h' => hP l' (List.mem_cons_of_mem _ h')) (ifftLayer_rel hl.1 hl.2 hm H)

theorem runFftPlan_rel {N m delta pos size : Nat} {plan : List Layer} (hP : PlanDvd size plan)
    (hm : pos + size ≤ m) {a b : Array V} (H : Rel N m a b) :
    Rel N m (runFftPlan delta pos size plan a) (runFftPlan delta pos size plan b) := by
  induction plan generalizing a b with
  | nil => exact H
  | cons l ls ih =>
    simp only [runFftPlan, List.foldl_cons] at ih ⊢
    have hl := hP l (List.mem_cons_self ..)
    exact ih (fun l' h' => hP l' (List.mem_cons_of_mem _ h')) (fftLayer_rel hl.1 hl.2 hm H)

end Stale

open Stale

variable {V : Type} [ShardAlg V]

/-! ### congruence of the transforms on a window (`size` a power of two) -/

/-- `ifft` on the window `[pos, pos+size) ⊆ [0, m)` preserves "same size, equal below `m`";
    with `fft_frame`/`ifft_frame` this says the transform only reads and writes its window. -/
theorem ifft_congr (s : Sched) {N m pos size n : Nat} (trunc delta : Nat) {a b : Array V}
    (hs : size = 2 ^ n) (hm : pos + size ≤ m) (H : Stale.Rel N m a b) :
    Stale.Rel N m (ifft s a pos size trunc delta) (ifft s b pos size trunc delta) := by
  have hn : Nat.log2 size = n := by rw [hs]; exact Nat.log2_two_pow
  unfold ifft
  rw [hn]
  exact runIfftPlan_rel (by rw [hs]; exact ifftPlan_dvd s n trunc) hm H

theorem fft_congr (s : Sched) {N m pos size n : Nat} (trunc delta : Nat) {a b : Array V}
    (hs : size = 2 ^ n) (hm : pos + size ≤ m) (H : Stale.Rel N m a b) :
    Stale.Rel N m (fft s a pos size trunc delta) (fft s b pos size trunc delta) := by
  have hn : Nat.log2 size = n := by rw [hs]; exact Nat.log2_two_pow
  unfold fft
  rw [hn]
  exact runFftPlan_rel (by rw [hs]; exact fftPlan_dvd s n trunc) hm H

/-! ### 3. decoders -/

theorem decodePrepare_congr (isData recv : Nat → Bool) (loc : Array Nat) (mem mem' : Array V)
    (hsz : mem'.size = mem.size)
    (hag : ∀ p, recv p = true → isData p = true → rd mem p = rd mem' p) :
    decodePrepare isData recv loc mem = decodePrepare isData recv loc mem' := by
  apply Array.ext
  · simp [decodePrepare, hsz]
  · intro i h1 h2
    simp only [decodePrepare, Array.getElem_ofFn]
    cases hd : isData i <;> cases hr : recv i <;> simp [hag i, hd, hr]

theorem decodeHigh_congr (s : Sched) (lw : Array Nat) (k r : Nat) (recv : Nat → Bool)
    (mem mem' : Array V) (hsz : mem'.size = mem.size)
    (hag : ∀ p, recv p = true → (p < r || (npow2 r ≤ p && p < npow2 r + k)) = true →
      rd mem p = rd mem' p) :
    decodeHigh s lw k r recv mem = decodeHigh s lw k r recv mem' := by
  unfold decodeHigh
  simp only []
  rw [decodePrepare_congr _ recv _ mem mem' hsz hag]

theorem decodeLow_congr (s : Sched) (lw : Array Nat) (k r : Nat) (recv : Nat → Bool)
    (mem mem' : Array V) (hsz : mem'.size = mem.size)
    (hag : ∀ p, recv p = true → (p < k || (npow2 k ≤ p && p < npow2 k + r)) = true →
      rd mem p = rd mem' p) :
    decodeLow s lw k r recv mem = decodeLow s lw k r recv mem' := by
  unfold decodeLow
  simp only []
  rw [decodePrepare_congr _ recv _ mem mem' hsz hag]

/-! ### 2. low-rate encoder -/

namespace Stale

/-- the part of `encodeLow` after the copies -/
def lowRest (s : Sched) (k r : Nat) (a : Array V) : Array V :=
  let chunk := npow2 k
  let q := r / chunk
  let a := (List.range q).foldl
    (fun a c => fft s a (c * chunk) chunk chunk (c * chunk + chunk)) a
  let last := r % chunk
  if last > 0 then fft s a (q * chunk) chunk last (q * chunk + chunk) else a

theorem encodeLow_eq (s : Sched) (k r : Nat) (mem : Array V) :
    encodeLow s k r mem =
      lowRest s k r
        ((List.range ((r + npow2 k - 1) / npow2 k - 1)).foldl
          (fun a i => copyWithin a 0 ((i + 1) * npow2 k) (npow2 k))
          (ifft s (zeroRange mem k (npow2 k)) 0 (npow2 k) k 0)) := rfl

theorem supportsLow_bounds {k r : Nat} (h : supportsLow k r = true) :
    0 < k ∧ 0 < r ∧ k < 65536 ∧ r < 65536 := by
  simp only [supportsLow, Bool.and_eq_true, decide_eq_true_eq] at h
  omega

theorem supportsHigh_bounds {k r : Nat} (h : supportsHigh k r = true) :
    0 < k ∧ 0 < r ∧ k < 65536 ∧ r < 65536 := by
  simp only [supportsHigh, Bool.and_eq_true, decide_eq_true_eq] at h
  omega

end Stale

/-- the low-rate encoder only depends on the `k` inserted originals: `[k, chunk)` is zero-filled
    and `[chunk, work_count)` is overwritten by the copies before anything reads it -/
theorem encodeLow_congr (s : Sched) (k r : Nat) (mem mem' : Array V)
    (hsup : supportsLow k r = true) (hsz : mem.size = lowEncWorkCount k r)
    (hsz' : mem'.size = mem.size) (hag : ∀ p, p < k → rd mem p = rd mem' p) :
    encodeLow s k r mem = encodeLow s k r mem' := by
  obtain ⟨hk, hr, hk', _⟩ := supportsLow_bounds hsup
  obtain ⟨n, hn⟩ := npow2_pow2 k (by omega)
  have hkc := le_npow2 k (by omega)
  have hc := npow2_pos k (by omega)
  have H0 : Stale.Rel (lowEncWorkCount k r) k mem mem' := ⟨hsz, by rw [hsz', hsz], hag⟩
  have H1 := zeroRange_rel (m' := npow2 k) (lo := k) (hi := npow2 k) H0
    (fun p hp hr => by omega)
  have H2 := ifft_congr s k 0 hn (Nat.le_of_eq (Nat.zero_add _)) H1
  have H3 := foldl_range_rel (fun i => Stale.Rel (lowEncWorkCount k r) ((i + 1) * npow2 k))
    (fun (a : Array V) i => copyWithin a 0 ((i + 1) * npow2 k) (npow2 k))
    ((r + npow2 k - 1) / npow2 k - 1)
    (fun i a b _ H => by
      have := copyWithin_rel H (count := npow2 k) (by rw [Nat.succ_mul]; omega)
      rw [Nat.succ_mul (i + 1)]
      exact this)
    (by rw [Nat.zero_add, Nat.one_mul]; exact H2)
  rw [encodeLow_eq, encodeLow_eq, H3.eq (nextMultipleOf_le hr hc)]

/-! ### 1. high-rate encoder -/

namespace Stale

def highStage1 (s : Sched) (k r : Nat) (mem : Array V) : Array V :=
  ifft s (zeroRange mem (min k (npow2 r)) (npow2 r)) 0 (npow2 r) (min k (npow2 r)) (npow2 r)

def highLoop (s : Sched) (k r : Nat) (a : Array V) : Array V :=
  (List.range (k / npow2 r - 1)).foldl (fun a i => highFullChunk s (npow2 r) a (i + 1)) a

def highTailRest (s : Sched) (k r : Nat) (a : Array V) : Array V :=
  xorWithin
    (ifft s a (k / npow2 r * npow2 r) (npow2 r) (k % npow2 r) (k / npow2 r * npow2 r + npow2 r))
    0 (k / npow2 r * npow2 r) (npow2 r)

theorem encodeHigh_eq (s : Sched) (k r : Nat) (mem : Array V) :
    encodeHigh s k r mem =
      fft s
        (if k > npow2 r then
          (if k % npow2 r > 0 then
            highTailRest s k r
              (zeroRange (highLoop s k r (highStage1 s k r mem))
                (k / npow2 r * npow2 r + k % npow2 r) (highLoop s k r (highStage1 s k r mem)).size)
          else highLoop s k r (highStage1 s k r mem))
        else highStage1 s k r mem) 0 (npow2 r) r 0 := rfl

end Stale

/-- the high-rate encoder only depends on the `k` inserted originals: the tail of the first
    chunk and the tail of the final partial chunk are zero-filled before they are read, and
    nothing else lies beyond position `k` -/
theorem encodeHigh_congr (s : Sched) (k r : Nat) (mem mem' : Array V)
    (hsup : supportsHigh k r = true) (hsz : mem.size = highEncWorkCount k r)
    (hsz' : mem'.size = mem.size) (hag : ∀ p, p < k → rd mem p = rd mem' p) :
    encodeHigh s k r mem = encodeHigh s k r mem' := by
  obtain ⟨hk, hr, _, hr'⟩ := supportsHigh_bounds hsup
  obtain ⟨n, hn⟩ := npow2_pow2 r (by omega)
  have hc := npow2_pos r (by omega)
  have H0 : Stale.Rel (highEncWorkCount k r) k mem mem' := ⟨hsz, by rw [hsz', hsz], hag⟩
  have H1 := zeroRange_rel (m' := max k (npow2 r)) (lo := min k (npow2 r)) (hi := npow2 r) H0
    (fun p hp hr => by omega)
  have H2 : Stale.Rel (highEncWorkCount k r) (max k (npow2 r))
      (highStage1 s k r mem) (highStage1 s k r mem') :=
    ifft_congr s _ _ hn (by omega) H1
  rw [encodeHigh_eq, encodeHigh_eq]
  by_cases hkc : k > npow2 r
  · rw [if_pos hkc, if_pos hkc]
    have H3 : Stale.Rel (highEncWorkCount k r) k
        (highLoop s k r (highStage1 s k r mem)) (highLoop s k r (highStage1 s k r mem')) := by
      unfold highLoop
      refine foldl_range_rel (fun _ => Stale.Rel (highEncWorkCount k r) k) _ _
        (fun i a b hi H => ?_) (H2.mono (by omega))
      have h1 : (i + 1 + 1) * npow2 r ≤ k / npow2 r * npow2 r :=
        Nat.mul_le_mul_right _ (by omega)
      have h2 := Nat.div_mul_le_self k (npow2 r)
      rw [Nat.succ_mul] at h1
      unfold highFullChunk
      exact xorWithin_rel (ifft_congr s _ _ hn (by omega) H) (by omega) (by omega)
    by_cases hl : k % npow2 r > 0
    · rw [if_pos hl, if_pos hl]
      have e : k / npow2 r * npow2 r + k % npow2 r = k := by
        rw [Nat.mul_comm]; exact Nat.div_add_mod k (npow2 r)
      rw [e, H3.sa, H3.sb]
      have H4 := zeroRange_rel (m' := highEncWorkCount k r) (lo := k)
        (hi := highEncWorkCount k r) H3 (fun p hp hr => by omega)
      rw [H4.eq (Nat.le_refl _)]
    · rw [if_neg hl, if_neg hl]
      have e : highEncWorkCount k r = k := by
        unfold highEncWorkCount nextMultipleOf; rw [if_pos (by omega)]
      rw [H3.eq (by omega)]
  · rw [if_neg hkc, if_neg hkc]
    have e : highEncWorkCount k r = npow2 r := nextMultipleOf_small hk (by omega)
    rw [H2.eq (by omega)]

end RS

#print axioms RS.decodeHigh_congr
#print axioms RS.decodeLow_congr
#print axioms RS.encodeLow_congr
#print axioms RS.encodeHigh_congr
