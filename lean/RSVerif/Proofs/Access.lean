/-
  C12 (result accessors, iterators, drop = new round), C11 (order / surplus at the bookkeeping
  level), C10 (one-shot = streaming at the model level).
-/
import RSVerif.Model.State
import RSVerif.Model.Iter
import RSVerif.Model.Spec
import RSVerif.Proofs.Inv
import RSVerif.Proofs.RestoredBasic

namespace RS

/-! ## C12 — accessors -/

/-! ### 1. `recovery` -/

theorem recovery_isSome_iff (w : EncWork) (i : Nat) : (w.recovery i).isSome = true ↔ i < w.r := by
  unfold EncWork.recovery
  by_cases h : i < w.r <;> simp [h]

theorem recovery_size {w : EncWork} {i : Nat} {s : Array Nat} (h : w.recovery i = some s) :
    s.size = w.sb := by
  unfold EncWork.recovery at h
  split at h
  · simp only [Option.some.injEq] at h
    subst h
    simp [unlayout]
  · simp at h

theorem recovery_eq_of_lt {w : EncWork} {i : Nat} (h : i < w.r) :
    w.recovery i = some (unlayout w.sb (w.mem.getD i (Vector.replicate w.L 0#16))) := by
  unfold EncWork.recovery; simp [h]

theorem recovery_eq_none_of_ge {w : EncWork} {i : Nat} (h : w.r ≤ i) : w.recovery i = none := by
  unfold EncWork.recovery
  have : ¬ i < w.r := by omega
  simp [this]

/-! ### 2. `recoveryList` -/

theorem recoveryList_aux (w : EncWork) (l : List Nat) (hl : ∀ i ∈ l, i < w.r) :
    (l.filterMap fun i => w.recovery i)
      = l.map (fun i => unlayout w.sb (w.mem.getD i (Vector.replicate w.L 0#16))) := by
  induction l with
  | nil => rfl
  | cons i is ih =>
    have hi : i < w.r := hl i (by simp)
    have ih' := ih (fun j hj => hl j (by simp [hj]))
    simp only [List.filterMap_cons, List.map_cons, recovery_eq_of_lt hi, ih']

theorem recoveryList_eq (w : EncWork) :
    w.recoveryList
      = (List.range w.r).map (fun i => unlayout w.sb (w.mem.getD i (Vector.replicate w.L 0#16))) := by
  unfold EncWork.recoveryList
  exact recoveryList_aux w _ (fun i hi => List.mem_range.mp hi)

theorem recoveryList_length (w : EncWork) : w.recoveryList.length = w.r := by
  rw [recoveryList_eq]; simp

theorem recoveryList_getElem? (w : EncWork) (i : Nat) : w.recoveryList[i]? = w.recovery i := by
  rw [recoveryList_eq]
  by_cases h : i < w.r
  · rw [recovery_eq_of_lt h]
    simp [h]
  · rw [recovery_eq_none_of_ge (by omega)]
    simp [h]

/-! ### 3. the `Recovery` iterator -/

theorem recoveryTake_ended (w : EncWork) (n : Nat) (c : Cursor) (h : c.ended = true) :
    recoveryTake w n c = List.replicate n none := by
  induction n with
  | zero => rfl
  | succ n ih =>
    simp only [recoveryTake, recoveryNext, h, if_true, List.replicate_succ, ih]

/-- from cursor position `j ≤ r`: the remaining `r - j` shards, then `none` forever -/
theorem recoveryTake_from (w : EncWork) (d : Nat) :
    ∀ (j n : Nat), j + d = w.r →
      recoveryTake w (d + n) { ended := false, next := j }
        = ((List.range' j d).map fun i => w.recovery i) ++ List.replicate n none := by
  induction d with
  | zero =>
    intro j n hj
    simp only [Nat.zero_add, List.range'_zero, List.map_nil, List.nil_append]
    cases n with
    | zero => rfl
    | succ n =>
      have hn : w.recovery j = none := recovery_eq_none_of_ge (by omega)
      simp only [recoveryTake, recoveryNext, hn, List.replicate_succ]
      simp only [Bool.false_eq_true, if_false]
      rw [recoveryTake_ended w n _ rfl]
  | succ d ih =>
    intro j n hj
    have hlt : j < w.r := by omega
    have hs := recovery_eq_of_lt hlt
    have e : d + 1 + n = (d + n) + 1 := by omega
    rw [e]
    simp only [recoveryTake, recoveryNext, hs, Bool.false_eq_true, if_false]
    rw [ih (j + 1) n (by omega)]
    simp [List.range'_succ, hs]

theorem recoveryTake_eq (w : EncWork) (n : Nat) :
    recoveryTake w (w.r + n) {} = (w.recoveryList.map some) ++ List.replicate n none := by
  have h := recoveryTake_from w w.r 0 n (by omega)
  have hc : ({} : Cursor) = { ended := false, next := 0 } := rfl
  rw [hc, h]
  congr 1
  rw [recoveryList_eq, List.map_map, ← List.range_eq_range']
  apply List.map_congr_left
  intro i hi
  simp [recovery_eq_of_lt (List.mem_range.mp hi)]

/-! ### 4. `restored_original` -/

theorem restoredOriginal_isSome_iff (w : DecWork) (i : Nat) :
    (w.restoredOriginal i).isSome = true ↔ i < w.k ∧ w.recvAt (w.obase + i) = false := by
  unfold DecWork.restoredOriginal
  by_cases h : i < w.k ∧ w.recvAt (w.obase + i) = false <;> simp [h]

theorem restoredOriginal_eq_none_iff (w : DecWork) (i : Nat) :
    w.restoredOriginal i = none ↔ ¬ (i < w.k ∧ w.recvAt (w.obase + i) = false) := by
  rw [← restoredOriginal_isSome_iff]
  cases w.restoredOriginal i <;> simp

/-! ### 5. the `RestoredOriginal` iterator -/

/-- what `restoredSearch` returns: the first index `≥ j` below `k` that was not received -/
theorem restoredSearch_spec (w : DecWork) (d : Nat) :
    ∀ j, j + d = w.k →
      match restoredSearch w d j with
      | none => ∀ m, j ≤ m → m < w.k → w.restoredOriginal m = none
      | some (i, s) => j ≤ i ∧ i < w.k ∧ w.restoredOriginal i = some s ∧
          ∀ m, j ≤ m → m < i → w.restoredOriginal m = none := by
  induction d with
  | zero =>
    intro j hj
    simp only [restoredSearch]
    intro m h1 h2; omega
  | succ d ih =>
    intro j hj
    have hlt : j < w.k := by omega
    simp only [restoredSearch, hlt, if_true]
    cases hr : w.restoredOriginal j with
    | some s =>
      simp only
      exact ⟨Nat.le_refl _, hlt, hr, fun m h1 h2 => by omega⟩
    | none =>
      simp only
      have := ih (j + 1) (by omega)
      cases hs : restoredSearch w d (j + 1) with
      | none =>
        rw [hs] at this
        simp only at this ⊢
        intro m h1 h2
        by_cases hm : m = j
        · subst hm; exact hr
        · exact this m (by omega) h2
      | some p =>
        obtain ⟨i, s⟩ := p
        rw [hs] at this
        simp only at this ⊢
        obtain ⟨a, b, c, e⟩ := this
        refine ⟨by omega, b, c, ?_⟩
        intro m h1 h2
        by_cases hm : m = j
        · subst hm; exact hr
        · exact e m (by omega) h2

/-- `restoredSearch w (k - j) j = some (i, s)`: `i` is the first index `≥ j` that is `< k` and
    not received, `s` its shard -/
theorem restoredSearch_eq_some_iff (w : DecWork) (j i : Nat) (s : Array Nat) (hj : j ≤ w.k) :
    restoredSearch w (w.k - j) j = some (i, s) ↔
      j ≤ i ∧ i < w.k ∧ w.recvAt (w.obase + i) = false ∧
      (∀ m, j ≤ m → m < i → w.recvAt (w.obase + m) = true) ∧
      s = unlayout w.sb (w.mem.getD (w.obase + i) (Vector.replicate w.L 0#16)) := by
  have hspec := restoredSearch_spec w (w.k - j) j (by omega)
  constructor
  · intro h
    rw [h] at hspec
    simp only at hspec
    obtain ⟨a, b, c, e⟩ := hspec
    have hsome : (w.restoredOriginal i).isSome = true := by rw [c]; rfl
    have hi := (restoredOriginal_isSome_iff w i).mp hsome
    refine ⟨a, b, hi.2, ?_, ?_⟩
    · intro m h1 h2
      have hn := (restoredOriginal_eq_none_iff w m).mp (e m h1 h2)
      have hmk : m < w.k := by omega
      cases hb : w.recvAt (w.obase + m) with
      | true => rfl
      | false => exact absurd ⟨hmk, hb⟩ hn
    · unfold DecWork.restoredOriginal at c
      simp only [hi, and_self, if_true, Option.some.injEq] at c
      exact c.symm
  · rintro ⟨a, b, c, e, f⟩
    have hi : w.restoredOriginal i = some s := by
      unfold DecWork.restoredOriginal
      simp [b, c, f]
    cases hs : restoredSearch w (w.k - j) j with
    | none =>
      rw [hs] at hspec
      simp only at hspec
      have := hspec i a b
      rw [hi] at this
      cases this
    | some p =>
      obtain ⟨i', s'⟩ := p
      rw [hs] at hspec
      simp only at hspec
      obtain ⟨a', b', c', e'⟩ := hspec
      have hii : i' = i := by
        rcases Nat.lt_trichotomy i' i with h | h | h
        · have hsome : (w.restoredOriginal i').isSome = true := by rw [c']; rfl
          have := ((restoredOriginal_isSome_iff w i').mp hsome).2
          rw [e i' a' h] at this
          cases this
        · exact h
        · have := e' i a h
          rw [hi] at this
          cases this
      subst hii
      rw [hi] at c'
      cases c'
      rfl

theorem restoredSearch_eq_none_iff (w : DecWork) (j : Nat) (hj : j ≤ w.k) :
    restoredSearch w (w.k - j) j = none ↔
      ∀ m, j ≤ m → m < w.k → w.recvAt (w.obase + m) = true := by
  have hspec := restoredSearch_spec w (w.k - j) j (by omega)
  constructor
  · intro h m h1 h2
    rw [h] at hspec
    simp only at hspec
    have hn := (restoredOriginal_eq_none_iff w m).mp (hspec m h1 h2)
    cases hb : w.recvAt (w.obase + m) with
    | true => rfl
    | false => exact absurd ⟨h2, hb⟩ hn
  · intro h
    cases hs : restoredSearch w (w.k - j) j with
    | none => rfl
    | some p =>
      obtain ⟨i, s⟩ := p
      rw [hs] at hspec
      simp only at hspec
      obtain ⟨a, b, c, _⟩ := hspec
      have hsome : (w.restoredOriginal i).isSome = true := by rw [c]; rfl
      have := ((restoredOriginal_isSome_iff w i).mp hsome).2
      rw [h i a b] at this
      cases this

/-- the entries of `restoredList` from index `j` on -/
def DecWork.restoredFrom (w : DecWork) (j : Nat) : List (Nat × Array Nat) :=
  (List.range' j (w.k - j)).filterMap fun i => (w.restoredOriginal i).map fun s => (i, s)

theorem restoredFrom_zero (w : DecWork) : w.restoredFrom 0 = w.restoredList := by
  unfold DecWork.restoredFrom DecWork.restoredList
  rw [Nat.sub_zero, ← List.range_eq_range']

theorem restoredFrom_step (w : DecWork) (j : Nat) (hj : j < w.k) :
    w.restoredFrom j =
      match w.restoredOriginal j with
      | some s => (j, s) :: w.restoredFrom (j + 1)
      | none => w.restoredFrom (j + 1) := by
  unfold DecWork.restoredFrom
  have e : w.k - j = (w.k - (j + 1)) + 1 := by omega
  rw [e, List.range'_succ, List.filterMap_cons]
  cases w.restoredOriginal j <;> simp

/-- skipping a stretch of received indexes does not change the rest of the list -/
theorem restoredFrom_skip (w : DecWork) (d : Nat) :
    ∀ j i, i = j + d → i ≤ w.k → (∀ m, j ≤ m → m < i → w.restoredOriginal m = none) →
      w.restoredFrom j = w.restoredFrom i := by
  induction d with
  | zero => intro j i hi _ _; subst hi; rfl
  | succ d ih =>
    intro j i hi hk hn
    have hj : j < w.k := by omega
    rw [restoredFrom_step w j hj, hn j (Nat.le_refl _) (by omega)]
    exact ih (j + 1) i (by omega) hk (fun m h1 h2 => hn m (by omega) h2)

theorem restoredSearch_list (w : DecWork) (j : Nat) (hj : j ≤ w.k) :
    match restoredSearch w (w.k - j) j with
    | none => w.restoredFrom j = []
    | some (i, s) => i < w.k ∧ w.restoredFrom j = (i, s) :: w.restoredFrom (i + 1) := by
  have hspec := restoredSearch_spec w (w.k - j) j (by omega)
  cases hs : restoredSearch w (w.k - j) j with
  | none =>
    rw [hs] at hspec
    simp only at hspec ⊢
    rw [restoredFrom_skip w (w.k - j) j w.k (by omega) (Nat.le_refl _) hspec]
    unfold DecWork.restoredFrom
    simp
  | some p =>
    obtain ⟨i, s⟩ := p
    rw [hs] at hspec
    simp only at hspec ⊢
    obtain ⟨a, b, c, e⟩ := hspec
    refine ⟨b, ?_⟩
    rw [restoredFrom_skip w (i - j) j i (by omega) (by omega) e, restoredFrom_step w i b, c]

theorem restoredTake_ended (w : DecWork) (n : Nat) (c : Cursor) (h : c.ended = true) :
    restoredTake w n c = List.replicate n none := by
  induction n with
  | zero => rfl
  | succ n ih =>
    simp only [restoredTake, restoredNext, h, if_true, List.replicate_succ, ih]

theorem restoredTake_from (w : DecWork) (n : Nat) (m : Nat) :
    ∀ j, j ≤ w.k → (w.restoredFrom j).length = m →
      restoredTake w (m + n) { ended := false, next := j }
        = ((w.restoredFrom j).map some) ++ List.replicate n none := by
  induction m with
  | zero =>
    intro j hj hlen
    have hnil : w.restoredFrom j = [] := List.eq_nil_of_length_eq_zero hlen
    have hl := restoredSearch_list w j hj
    cases hs : restoredSearch w (w.k - j) j with
    | some p =>
      obtain ⟨i, s⟩ := p
      rw [hs] at hl
      simp only at hl
      rw [hnil] at hl
      cases hl.2
    | none =>
      rw [hnil]
      simp only [Nat.zero_add, List.map_nil, List.nil_append]
      cases n with
      | zero => rfl
      | succ n =>
        simp only [restoredTake, restoredNext, hs, List.replicate_succ]
        simp only [Bool.false_eq_true, if_false]
        rw [restoredTake_ended w n _ rfl]
  | succ m ih =>
    intro j hj hlen
    have hl := restoredSearch_list w j hj
    cases hs : restoredSearch w (w.k - j) j with
    | none =>
      rw [hs] at hl
      simp only at hl
      rw [hl] at hlen
      cases hlen
    | some p =>
      obtain ⟨i, s⟩ := p
      rw [hs] at hl
      simp only at hl
      obtain ⟨hik, hcons⟩ := hl
      have hlen' : (w.restoredFrom (i + 1)).length = m := by
        rw [hcons] at hlen
        simpa using hlen
      have e : m + 1 + n = (m + n) + 1 := by omega
      rw [e]
      simp only [restoredTake, restoredNext, hs, Bool.false_eq_true, if_false]
      rw [ih (i + 1) (by omega) hlen', hcons]
      rfl

theorem restoredTake_eq (w : DecWork) (n : Nat) :
    restoredTake w (w.restoredList.length + n) {}
      = (w.restoredList.map some) ++ List.replicate n none := by
  have h := restoredTake_from w n w.restoredList.length 0 (Nat.zero_le _)
    (by rw [restoredFrom_zero])
  rw [restoredFrom_zero] at h
  exact h

/-! ### 6. dropping the result starts a new round -/

theorem Encoder.encode_ok_state {e e' : Encoder} {out : List (Array Nat)} {rate : Rate}
    {w : EncWork} (hin : e.inner = .some rate w) (h : e.encode = (.ok out, e')) :
    ∃ w', e'.inner = .some rate w' ∧ w'.recv = 0 ∧ (w'.k, w'.r, w'.sb) = (w.k, w.r, w.sb) ∧
      w'.L = w.L ∧ w'.heldBlocks = w.heldBlocks ∧ w'.allocs = w.allocs ∧
      e'.kind = e.kind ∧ e'.sched = e.sched ∧ w.recv = w.k ∧
      out = ({ w with mem := encodeMem rate e.sched w.k w.r w.mem } : EncWork).recoveryList := by
  unfold Encoder.encode at h
  rw [hin] at h
  simp only at h
  split at h
  · rename_i hk
    simp only [Prod.mk.injEq, Outcome.ok.injEq] at h
    obtain ⟨h1, h2⟩ := h
    subst h2
    exact ⟨_, rfl, rfl, rfl, rfl, rfl, rfl, rfl, rfl, hk, h1.symm⟩
  · simp only [Prod.mk.injEq] at h
    cases h.1

theorem recvAt_resetReceived (w : DecWork) (p : Nat) : w.resetReceived.recvAt p = false := by
  unfold DecWork.resetReceived DecWork.recvAt
  simp only [Array.getD_eq_getD_getElem?, Array.getElem?_replicate]
  split <;> rfl

theorem Decoder.decode_ok_state {lw : Array Nat} {d d' : Decoder} {out : List (Nat × Array Nat)}
    {rate : Rate} {w : DecWork} (hin : d.inner = .some rate w) (h : d.decode lw = (.ok out, d')) :
    ∃ w', d'.inner = .some rate w' ∧ w'.orecv = 0 ∧ w'.rrecv = 0 ∧ (∀ p, w'.recvAt p = false) ∧
      (w'.k, w'.r, w'.sb, w'.obase, w'.rbase) = (w.k, w.r, w.sb, w.obase, w.rbase) ∧
      w'.L = w.L ∧ w'.received.size = w.received.size ∧
      w'.heldBlocks = w.heldBlocks ∧ w'.allocs = w.allocs ∧ w'.bitAllocs = w.bitAllocs ∧
      d'.kind = d.kind ∧ d'.sched = d.sched := by
  unfold Decoder.decode at h
  rw [hin] at h
  simp only at h
  split at h
  · simp only [Prod.mk.injEq] at h
    cases h.1
  · split at h
    · simp only [Prod.mk.injEq, Outcome.ok.injEq] at h
      obtain ⟨_, h2⟩ := h
      subst h2
      refine ⟨_, rfl, rfl, rfl, recvAt_resetReceived _, rfl, rfl, ?_, rfl, rfl, rfl, rfl, rfl⟩
      simp [DecWork.resetReceived]
    · simp only [Prod.mk.injEq, Outcome.ok.injEq] at h
      obtain ⟨_, h2⟩ := h
      subst h2
      refine ⟨_, rfl, rfl, rfl, recvAt_resetReceived _, rfl, rfl, ?_, rfl, rfl, rfl, rfl, rfl⟩
      simp [DecWork.resetReceived]

/-! ## bookkeeping of the decoder's `add_*_shard` calls -/

/-- an `add_original_shard` / `add_recovery_shard` call
    (the second constructor cannot be called `rec`: that name is taken by the recursor) -/
inductive AddOp where
  | orig (i : Nat) (s : Array Nat)
  | recov (j : Nat) (t : Array Nat)

namespace AddOp
def shard : AddOp → Array Nat
  | .orig _ s => s
  | .recov _ t => t
def dO : AddOp → Nat
  | .orig _ _ => 1
  | .recov _ _ => 0
def dR : AddOp → Nat
  | .orig _ _ => 0
  | .recov _ _ => 1
def inRange (w : DecWork) : AddOp → Prop
  | .orig i _ => i < w.k
  | .recov j _ => j < w.r
def pos (w : DecWork) : AddOp → Nat
  | .orig i _ => w.obase + i
  | .recov j _ => w.rbase + j
end AddOp

def DecWork.addOp (w : DecWork) : AddOp → Outcome DecWork
  | .orig i s => w.addOriginal i s
  | .recov j t => w.addRecovery j t

/-- sequential adds, stopping at the first call that is not `ok` -/
def DecWork.addAll (w : DecWork) : List AddOp → Outcome DecWork
  | [] => .ok w
  | a :: l =>
    match w.addOp a with
    | .ok w1 => w1.addAll l
    | .err e => .err e
    | .panic why => .panic why

/-- public copy of the private `DecWork.insert` -/
def DecWork.put (w : DecWork) (pos : Nat) (shard : Array Nat) : Outcome DecWork :=
  if h : w.sb / 2 = w.L then
    if pos < w.mem.size then
      .ok { w with mem := w.mem.setIfInBounds pos (h ▸ layout w.sb shard),
                   received := w.received.setIfInBounds pos true }
    else .panic "shard index out of range"
  else .panic "lane count invariant broken"

theorem DecWork.addOriginal_eq_put (w : DecWork) (i : Nat) (s : Array Nat) :
    w.addOriginal i s =
      if i ≥ w.k then .err (.invalidOriginalIndex w.k i)
      else if w.recvAt (w.obase + i) then .err (.duplicateOriginal i)
      else if s.size ≠ w.sb then .err (.differentShardSize w.sb s.size)
      else (w.put (w.obase + i) s).bind fun w => .ok { w with orecv := w.orecv + 1 } := rfl

theorem DecWork.addRecovery_eq_put (w : DecWork) (j : Nat) (t : Array Nat) :
    w.addRecovery j t =
      if j ≥ w.r then .err (.invalidRecoveryIndex w.r j)
      else if w.recvAt (w.rbase + j) then .err (.duplicateRecovery j)
      else if t.size ≠ w.sb then .err (.differentShardSize w.sb t.size)
      else (w.put (w.rbase + j) t).bind fun w => .ok { w with rrecv := w.rrecv + 1 } := rfl

/-- memory and bitmap effect of a successful add at `pos` -/
def DecWork.place (w : DecWork) (pos : Nat) (shard : Array Nat) (h : w.sb / 2 = w.L) : DecWork :=
  { w with mem := w.mem.setIfInBounds pos (h ▸ layout w.sb shard),
           received := w.received.setIfInBounds pos true }

/-- counter effect of a successful add -/
def DecWork.bump (w : DecWork) (a : AddOp) : DecWork :=
  { w with orecv := w.orecv + a.dO, rrecv := w.rrecv + a.dR }

theorem DecWork.put_ok_iff {w w' : DecWork} {pos : Nat} {s : Array Nat} :
    w.put pos s = .ok w' ↔ ∃ h : w.sb / 2 = w.L, pos < w.mem.size ∧ w' = w.place pos s h := by
  unfold DecWork.put
  by_cases h : w.sb / 2 = w.L
  · by_cases h2 : pos < w.mem.size
    · simp only [dif_pos h, if_pos h2, Outcome.ok.injEq]
      constructor
      · intro e; exact ⟨h, h2, e.symm⟩
      · rintro ⟨_, _, e⟩; exact e.symm
    · simp only [dif_pos h, if_neg h2]
      constructor
      · intro e; cases e
      · rintro ⟨_, h2', _⟩; exact absurd h2' h2
  · simp only [dif_neg h]
    constructor
    · intro e; cases e
    · rintro ⟨h', _⟩; exact absurd h' h

theorem Outcome.bind_ok_iff {α β : Type} {x : Outcome α} {f : α → Outcome β} {b : β} :
    x.bind f = .ok b ↔ ∃ a, x = .ok a ∧ f a = .ok b := by
  cases x with
  | ok a => simp [Outcome.bind]
  | err e => simp [Outcome.bind]
  | panic why => simp [Outcome.bind]

/-- when exactly an add call succeeds, and what it does -/
theorem DecWork.addOp_ok_iff {w w' : DecWork} {a : AddOp} :
    w.addOp a = .ok w' ↔
      a.inRange w ∧ w.recvAt (a.pos w) = false ∧ a.shard.size = w.sb ∧
      ∃ h : w.sb / 2 = w.L, a.pos w < w.mem.size ∧ w' = (w.place (a.pos w) a.shard h).bump a := by
  cases a with
  | orig i s =>
    simp only [DecWork.addOp, AddOp.inRange, AddOp.pos, AddOp.shard, DecWork.addOriginal_eq_put]
    by_cases h1 : i ≥ w.k
    · simp only [if_pos h1]
      constructor
      · intro e; cases e
      · rintro ⟨h, _⟩; omega
    · by_cases h2 : w.recvAt (w.obase + i) = true
      · simp only [if_neg h1, h2]
        constructor
        · intro e; cases e
        · rintro ⟨_, h, _⟩; cases h
      · by_cases h3 : s.size ≠ w.sb
        · simp only [if_neg h1, if_neg h2, if_pos h3]
          constructor
          · intro e; cases e
          · rintro ⟨_, _, h, _⟩; exact absurd h h3
        · simp only [if_neg h1, if_neg h2, if_neg h3, Outcome.bind_ok_iff, DecWork.put_ok_iff]
          have h2' : w.recvAt (w.obase + i) = false := by simpa using h2
          have h3' : s.size = w.sb := by simpa using h3
          constructor
          · rintro ⟨w1, ⟨h, hm, e1⟩, e2⟩
            subst e1
            simp only [Outcome.ok.injEq] at e2
            exact ⟨by omega, h2', h3', h, hm, e2.symm⟩
          · rintro ⟨_, _, _, h, hm, e⟩
            exact ⟨_, ⟨h, hm, rfl⟩, by rw [e]; rfl⟩
  | recov j t =>
    simp only [DecWork.addOp, AddOp.inRange, AddOp.pos, AddOp.shard, DecWork.addRecovery_eq_put]
    by_cases h1 : j ≥ w.r
    · simp only [if_pos h1]
      constructor
      · intro e; cases e
      · rintro ⟨h, _⟩; omega
    · by_cases h2 : w.recvAt (w.rbase + j) = true
      · simp only [if_neg h1, h2]
        constructor
        · intro e; cases e
        · rintro ⟨_, h, _⟩; cases h
      · by_cases h3 : t.size ≠ w.sb
        · simp only [if_neg h1, if_neg h2, if_pos h3]
          constructor
          · intro e; cases e
          · rintro ⟨_, _, h, _⟩; exact absurd h h3
        · simp only [if_neg h1, if_neg h2, if_neg h3, Outcome.bind_ok_iff, DecWork.put_ok_iff]
          have h2' : w.recvAt (w.rbase + j) = false := by simpa using h2
          have h3' : t.size = w.sb := by simpa using h3
          constructor
          · rintro ⟨w1, ⟨h, hm, e1⟩, e2⟩
            subst e1
            simp only [Outcome.ok.injEq] at e2
            exact ⟨by omega, h2', h3', h, hm, e2.symm⟩
          · rintro ⟨_, _, _, h, hm, e⟩
            exact ⟨_, ⟨h, hm, rfl⟩, by rw [e]; rfl⟩

/-! ### what an add leaves unchanged -/

theorem AddOp.inRange_place_bump (w : DecWork) (p : Nat) (s : Array Nat) (h : w.sb / 2 = w.L)
    (a b : AddOp) : b.inRange ((w.place p s h).bump a) ↔ b.inRange w := by
  cases b <;> exact Iff.rfl

theorem AddOp.pos_place_bump (w : DecWork) (p : Nat) (s : Array Nat) (h : w.sb / 2 = w.L)
    (a b : AddOp) : b.pos ((w.place p s h).bump a) = b.pos w := by
  cases b <;> rfl

theorem DecWork.recvAt_place_bump (w : DecWork) (p : Nat) (s : Array Nat) (h : w.sb / 2 = w.L)
    (a : AddOp) (q : Nat) :
    ((w.place p s h).bump a).recvAt q
      = if p = q ∧ p < w.received.size then true else w.recvAt q := by
  simp only [DecWork.recvAt, DecWork.place, DecWork.bump, Array.getD_eq_getD_getElem?,
    Array.getElem?_setIfInBounds]
  by_cases h1 : p = q
  · subst h1
    by_cases h2 : p < w.received.size
    · simp [h2]
    · simp [h2]
  · simp [h1]

theorem DecWork.place_comm (w : DecWork) {p q : Nat} (hpq : p ≠ q) (s t : Array Nat)
    (h : w.sb / 2 = w.L) :
    (w.place p s h).place q t h = (w.place q t h).place p s h := by
  simp only [DecWork.place]
  rw [Array.setIfInBounds_comm (α := Bool) _ _ hpq,
    Array.setIfInBounds_comm (α := Vector Sym w.L) _ _ hpq]

/-- the two orders of two adds at different positions give the same state -/
theorem DecWork.place_bump_swap (w : DecWork) {p q : Nat} (hpq : p ≠ q) (s t : Array Nat)
    (h : w.sb / 2 = w.L) (a b : AddOp) :
    (((w.place p s h).bump a).place q t h).bump b
      = (((w.place q t h).bump b).place p s h).bump a := by
  simp only [DecWork.place, DecWork.bump]
  rw [Array.setIfInBounds_comm (α := Bool) _ _ hpq,
    Array.setIfInBounds_comm (α := Vector Sym w.L) _ _ hpq,
    Nat.add_right_comm w.orecv, Nat.add_right_comm w.rrecv]

theorem DecWork.place_bump (w : DecWork) (p : Nat) (s : Array Nat) (h : w.sb / 2 = w.L)
    (a : AddOp) : (w.bump a).place p s h = (w.place p s h).bump a := rfl

theorem DecWork.bump_comm (w : DecWork) (a b : AddOp) : (w.bump a).bump b = (w.bump b).bump a := by
  simp only [DecWork.bump, Nat.add_right_comm]

/-- the part of `DecWork.Inv` the commutation argument needs: the bitmap covers both windows -/
def DecWork.BitsOk (w : DecWork) : Prop :=
  max (w.obase + w.k) (w.rbase + w.r) ≤ w.received.size

theorem DecWork.Inv.bitsOk {rate : Rate} {w : DecWork} (h : DecWork.Inv rate w) : w.BitsOk := h.bits

theorem AddOp.pos_lt {w : DecWork} (hb : w.BitsOk) {a : AddOp} (ha : a.inRange w) :
    a.pos w < w.received.size := by
  unfold DecWork.BitsOk at hb
  cases a with
  | orig i s =>
    simp only [AddOp.inRange, AddOp.pos] at ha ⊢
    have : w.obase + w.k ≤ max (w.obase + w.k) (w.rbase + w.r) := Nat.le_max_left _ _
    omega
  | recov j t =>
    simp only [AddOp.inRange, AddOp.pos] at ha ⊢
    have : w.rbase + w.r ≤ max (w.obase + w.k) (w.rbase + w.r) := Nat.le_max_right _ _
    omega

theorem DecWork.BitsOk.addOp {w w' : DecWork} {a : AddOp} (hb : w.BitsOk)
    (h : w.addOp a = .ok w') : w'.BitsOk := by
  obtain ⟨_, _, _, hl, _, e⟩ := DecWork.addOp_ok_iff.mp h
  subst e
  unfold DecWork.BitsOk at hb ⊢
  simpa [DecWork.place, DecWork.bump] using hb

/-! ### 7. two successful adds commute -/

/-- two consecutive successful adds can be swapped; the final state (memory, bitmap, counters)
    is the same -/
theorem DecWork.addOp_comm {w w1 w2 : DecWork} (hb : w.BitsOk) {a b : AddOp}
    (h1 : w.addOp a = .ok w1) (h2 : w1.addOp b = .ok w2) :
    ∃ w1', w.addOp b = .ok w1' ∧ w1'.addOp a = .ok w2 := by
  obtain ⟨ra, na, sa, h, ma, e1⟩ := DecWork.addOp_ok_iff.mp h1
  subst e1
  obtain ⟨rb, nb, sb, h', mb, e2⟩ := DecWork.addOp_ok_iff.mp h2
  subst e2
  rw [AddOp.inRange_place_bump] at rb
  rw [AddOp.pos_place_bump] at nb mb
  rw [DecWork.recvAt_place_bump] at nb
  have hpa : a.pos w < w.received.size := AddOp.pos_lt hb ra
  have hne : a.pos w ≠ b.pos w := by
    intro heq
    rw [if_pos ⟨heq, hpa⟩] at nb
    cases nb
  have nb' : w.recvAt (b.pos w) = false := by
    rw [if_neg (fun hh => hne hh.1)] at nb
    exact nb
  have sb' : b.shard.size = w.sb := sb
  have mb' : b.pos w < w.mem.size := by
    simpa [DecWork.place, DecWork.bump] using mb
  refine ⟨(w.place (b.pos w) b.shard h).bump b, ?_, ?_⟩
  · exact DecWork.addOp_ok_iff.mpr ⟨rb, nb', sb', h, mb', rfl⟩
  · refine DecWork.addOp_ok_iff.mpr ⟨?_, ?_, sa, h, ?_, ?_⟩
    · rw [AddOp.inRange_place_bump]; exact ra
    · rw [AddOp.pos_place_bump, DecWork.recvAt_place_bump,
        if_neg (fun hh => hne hh.1.symm)]
      exact na
    · rw [AddOp.pos_place_bump]
      simpa [DecWork.place, DecWork.bump] using ma
    · rw [AddOp.pos_place_bump, AddOp.pos_place_bump]
      exact DecWork.place_bump_swap w hne a.shard b.shard h a b

/-- `add_original_shard` then `add_recovery_shard` = the other order -/
theorem addOriginal_addRecovery_comm {rate : Rate} {w w1 w2 : DecWork} (hinv : DecWork.Inv rate w)
    {i j : Nat} {s t : Array Nat}
    (h1 : w.addOriginal i s = .ok w1) (h2 : w1.addRecovery j t = .ok w2) :
    ∃ w1', w.addRecovery j t = .ok w1' ∧ w1'.addOriginal i s = .ok w2 :=
  DecWork.addOp_comm hinv.bitsOk (a := .orig i s) (b := .recov j t) h1 h2

theorem addRecovery_addOriginal_comm {rate : Rate} {w w1 w2 : DecWork} (hinv : DecWork.Inv rate w)
    {i j : Nat} {s t : Array Nat}
    (h1 : w.addRecovery j t = .ok w1) (h2 : w1.addOriginal i s = .ok w2) :
    ∃ w1', w.addOriginal i s = .ok w1' ∧ w1'.addRecovery j t = .ok w2 :=
  DecWork.addOp_comm hinv.bitsOk (a := .recov j t) (b := .orig i s) h1 h2

/-- two originals commute (`i ≠ i'` is automatic: a duplicate add fails) -/
theorem addOriginal_addOriginal_comm {rate : Rate} {w w1 w2 : DecWork} (hinv : DecWork.Inv rate w)
    {i i' : Nat} {s s' : Array Nat}
    (h1 : w.addOriginal i s = .ok w1) (h2 : w1.addOriginal i' s' = .ok w2) :
    i ≠ i' ∧ ∃ w1', w.addOriginal i' s' = .ok w1' ∧ w1'.addOriginal i s = .ok w2 := by
  refine ⟨?_, DecWork.addOp_comm hinv.bitsOk (a := .orig i s) (b := .orig i' s') h1 h2⟩
  intro heq
  subst heq
  obtain ⟨ra, na, sa, h, ma, e1⟩ := (DecWork.addOp_ok_iff (a := .orig i s)).mp h1
  subst e1
  obtain ⟨rb, nb, _⟩ := (DecWork.addOp_ok_iff (a := .orig i s')).mp h2
  rw [AddOp.pos_place_bump, DecWork.recvAt_place_bump] at nb
  have hpa := AddOp.pos_lt hinv.bitsOk ra
  rw [if_pos ⟨rfl, hpa⟩] at nb
  cases nb

theorem addRecovery_addRecovery_comm {rate : Rate} {w w1 w2 : DecWork} (hinv : DecWork.Inv rate w)
    {j j' : Nat} {t t' : Array Nat}
    (h1 : w.addRecovery j t = .ok w1) (h2 : w1.addRecovery j' t' = .ok w2) :
    j ≠ j' ∧ ∃ w1', w.addRecovery j' t' = .ok w1' ∧ w1'.addRecovery j t = .ok w2 := by
  refine ⟨?_, DecWork.addOp_comm hinv.bitsOk (a := .recov j t) (b := .recov j' t') h1 h2⟩
  intro heq
  subst heq
  obtain ⟨ra, na, sa, h, ma, e1⟩ := (DecWork.addOp_ok_iff (a := .recov j t)).mp h1
  subst e1
  obtain ⟨rb, nb, _⟩ := (DecWork.addOp_ok_iff (a := .recov j t')).mp h2
  rw [AddOp.pos_place_bump, DecWork.recvAt_place_bump] at nb
  have hpa := AddOp.pos_lt hinv.bitsOk ra
  rw [if_pos ⟨rfl, hpa⟩] at nb
  cases nb

/-! ### 8. any order of the same successful adds gives the same state -/

theorem DecWork.addAll_cons_ok_iff {w w2 : DecWork} {a : AddOp} {l : List AddOp} :
    w.addAll (a :: l) = .ok w2 ↔ ∃ w1, w.addOp a = .ok w1 ∧ w1.addAll l = .ok w2 := by
  simp only [DecWork.addAll]
  cases w.addOp a with
  | ok w1 => simp
  | err e => simp
  | panic why => simp

theorem DecWork.addAll_perm_aux {l l' : List AddOp} (hp : l.Perm l') :
    ∀ {w w2 : DecWork}, w.BitsOk → w.addAll l = .ok w2 → w.addAll l' = .ok w2 := by
  induction hp with
  | nil => intro w w2 _ h; exact h
  | cons x _ ih =>
    intro w w2 hb h
    obtain ⟨w1, h1, h2⟩ := DecWork.addAll_cons_ok_iff.mp h
    exact DecWork.addAll_cons_ok_iff.mpr ⟨w1, h1, ih (hb.addOp h1) h2⟩
  | swap x y l =>
    intro w w2 hb h
    obtain ⟨w1, h1, h'⟩ := DecWork.addAll_cons_ok_iff.mp h
    obtain ⟨w1', h2, h3⟩ := DecWork.addAll_cons_ok_iff.mp h'
    obtain ⟨v, g1, g2⟩ := DecWork.addOp_comm hb h1 h2
    exact DecWork.addAll_cons_ok_iff.mpr ⟨v, g1, DecWork.addAll_cons_ok_iff.mpr ⟨w1', g2, h3⟩⟩
  | trans _ _ ih1 ih2 =>
    intro w w2 hb h
    exact ih2 hb (ih1 hb h)

theorem addAll_perm {rate : Rate} {w w2 : DecWork} {l l' : List AddOp} (hinv : DecWork.Inv rate w)
    (hp : l.Perm l') (h : w.addAll l = .ok w2) : w.addAll l' = .ok w2 :=
  DecWork.addAll_perm_aux hp hinv.bitsOk h

/-! ### 9. a given original is never "restored" -/

theorem Decoder.decode_ok_out {lw : Array Nat} {d d' : Decoder} {out : List (Nat × Array Nat)}
    {rate : Rate} {w : DecWork} (hin : d.inner = .some rate w) (h : d.decode lw = (.ok out, d')) :
    w.k ≤ w.orecv + w.rrecv ∧
    out = (if w.orecv = w.k then w
           else { w with mem := decodeMem rate d.sched lw w.k w.r w.recvAt w.mem }).restoredList := by
  unfold Decoder.decode at h
  rw [hin] at h
  simp only at h
  split at h
  · simp only [Prod.mk.injEq] at h
    cases h.1
  · rename_i hge
    refine ⟨by omega, ?_⟩
    split at h
    · rename_i hk
      simp only [Prod.mk.injEq, Outcome.ok.injEq] at h
      rw [if_pos hk]; exact h.1.symm
    · rename_i hk
      simp only [Prod.mk.injEq, Outcome.ok.injEq] at h
      rw [if_neg hk]; exact h.1.symm

/-- the indexes a successful `decode` hands out are exactly the in-range originals that were not
    given, in ascending order; in particular a given original is never among them -/
theorem given_not_restored {lw : Array Nat} {d d' : Decoder} {out : List (Nat × Array Nat)}
    {rate : Rate} {w : DecWork} (hin : d.inner = .some rate w) (h : d.decode lw = (.ok out, d')) :
    out.map (·.1) = (List.range w.k).filter (fun i => !(w.recvAt (w.obase + i))) ∧
    ∀ i, w.recvAt (w.obase + i) = true → i ∉ out.map (·.1) := by
  have hout := (Decoder.decode_ok_out hin h).2
  have h1 : out.map (·.1) = (List.range w.k).filter (fun i => !(w.recvAt (w.obase + i))) := by
    rw [hout]
    split
    · exact restoredList_indices w
    · exact restoredList_indices
        ({ w with mem := decodeMem rate d.sched lw w.k w.r w.recvAt w.mem } : DecWork)
  refine ⟨h1, ?_⟩
  intro i hi hmem
  rw [h1, List.mem_filter] at hmem
  rw [hi] at hmem
  cases hmem.2

/-! ### 10. all originals given: nothing to restore -/

theorem countSet_le (bits : Array Bool) (base : Nat) : ∀ n, countSet bits base n ≤ n
  | 0 => Nat.le_refl _
  | n + 1 => by
    have := countSet_le bits base n
    simp only [countSet]
    split <;> omega

theorem countSet_eq_all (bits : Array Bool) (base : Nat) :
    ∀ n, countSet bits base n = n → ∀ m, m < n → bits.getD (base + m) false = true
  | 0 => fun _ m hm => absurd hm (Nat.not_lt_zero _)
  | n + 1 => by
    intro h m hm
    have hle := countSet_le bits base n
    simp only [countSet] at h
    by_cases hb : bits.getD (base + n) false = true
    · rw [if_pos hb] at h
      by_cases hmn : m = n
      · subst hmn; exact hb
      · exact countSet_eq_all bits base n (by omega) m (by omega)
    · rw [if_neg hb] at h
      omega

theorem all_given_recvAt {rate : Rate} {w : DecWork} (hinv : DecWork.Inv rate w)
    (hall : w.orecv = w.k) : ∀ i, i < w.k → w.recvAt (w.obase + i) = true := by
  have h := hinv.orecv
  rw [hall] at h
  exact countSet_eq_all w.received w.obase w.k h.symm

theorem all_given_empty {rate : Rate} {w : DecWork} (hinv : DecWork.Inv rate w)
    (hall : w.orecv = w.k) : w.restoredList = [] := by
  have hr := all_given_recvAt hinv hall
  unfold DecWork.restoredList
  rw [List.filterMap_eq_nil_iff]
  intro i hi
  have hik : i < w.k := List.mem_range.mp hi
  have : w.restoredOriginal i = none := by
    rw [restoredOriginal_eq_none_iff, hr i hik]
    intro hh; cases hh.2
  rw [this]; rfl

/-- with all `k` originals given `decode` returns the empty list, whatever recovery shards
    were added on top -/
theorem decode_all_given {lw : Array Nat} {d : Decoder} {rate : Rate} {w : DecWork}
    (hin : d.inner = .some rate w) (hinv : DecWork.Inv rate w) (hall : w.orecv = w.k) :
    d.decode lw = (.ok [], { d with inner := .some rate w.resetReceived }) := by
  unfold Decoder.decode
  rw [hin]
  simp only
  have h1 : ¬ (w.orecv + w.rrecv < w.k) := by omega
  rw [if_neg h1, if_pos hall, all_given_empty hinv hall]

/-! ### the two windows of the bitmap are disjoint (not needed above, recorded for C11) -/

theorem le_ite_chain (n c x : Nat) (hx : n ≤ x) : n ≤ if n ≤ c then c else x := by
  by_cases h : n ≤ c
  · rw [if_pos h]; exact h
  · rw [if_neg h]; exact hx

theorem le_npow2 (n : Nat) (h : n ≤ 65536) : n ≤ npow2 n := by
  unfold npow2
  iterate 16 apply le_ite_chain
  rw [if_pos h]; exact h

theorem supportsRate_lt {rate : Rate} {k r : Nat} (h : supportsRate rate k r = true) :
    k < 65536 ∧ r < 65536 := by
  cases rate <;>
    simp only [supportsRate, supportsHigh, supportsLow, Bool.and_eq_true, decide_eq_true_eq] at h <;>
    exact ⟨h.1.1.2, h.1.2⟩

/-- original window `[obase, obase + k)` and recovery window `[rbase, rbase + r)` never meet -/
theorem windows_disjoint {rate : Rate} {w : DecWork} (hinv : DecWork.Inv rate w) {i j : Nat}
    (hi : i < w.k) (hj : j < w.r) : w.obase + i ≠ w.rbase + j := by
  have hlt := supportsRate_lt hinv.supported
  have hk := le_npow2 w.k (by omega)
  have hr := le_npow2 w.r (by omega)
  have ho := hinv.obase
  have hrb := hinv.rbase
  cases rate
  · simp only at ho hrb; omega
  · simp only at ho hrb; omega

/-! ### 8'. the same at the level of the decoder object -/

def Decoder.addOp (d : Decoder) : AddOp → Outcome Unit × Decoder
  | .orig i s => d.addOriginal i s
  | .recov j t => d.addRecovery j t

/-- a sequence of add calls on the decoder object, stopping at the first that is not `ok` -/
def Decoder.addOps (d : Decoder) : List AddOp → Outcome Decoder
  | [] => .ok d
  | a :: l =>
    match d.addOp a with
    | (.ok _, d1) => d1.addOps l
    | (.err e, _) => .err e
    | (.panic why, _) => .panic why

theorem Decoder.addOp_eq {d : Decoder} {rate : Rate} {w : DecWork} (hin : d.inner = .some rate w)
    (a : AddOp) :
    d.addOp a = match w.addOp a with
      | .ok w' => (.ok (), { d with inner := .some rate w' })
      | .err er => (.err er, d)
      | .panic why => (.panic why, d) := by
  cases a <;> simp only [Decoder.addOp, Decoder.addOriginal, Decoder.addRecovery, hin, DecWork.addOp] <;> rfl

theorem Decoder.addOps_eq (l : List AddOp) :
    ∀ {d : Decoder} {rate : Rate} {w : DecWork}, d.inner = .some rate w →
      d.addOps l = match w.addAll l with
        | .ok w' => .ok { d with inner := .some rate w' }
        | .err er => .err er
        | .panic why => .panic why := by
  induction l with
  | nil =>
    intro d rate w hin
    simp only [Decoder.addOps, DecWork.addAll]
    cases d
    simp only at hin
    subst hin
    rfl
  | cons a l ih =>
    intro d rate w hin
    simp only [Decoder.addOps, DecWork.addAll, Decoder.addOp_eq hin]
    cases w.addOp a with
    | ok w1 =>
      simp only
      rw [ih (d := { d with inner := .some rate w1 }) rfl]
    | err er => rfl
    | panic why => rfl

theorem Decoder.addOps_ok_iff {d d1 : Decoder} {rate : Rate} {w : DecWork} {l : List AddOp}
    (hin : d.inner = .some rate w) :
    d.addOps l = .ok d1 ↔ ∃ w1, w.addAll l = .ok w1 ∧ d1 = { d with inner := .some rate w1 } := by
  rw [Decoder.addOps_eq l hin]
  cases w.addAll l with
  | ok w1 =>
    simp only [Outcome.ok.injEq]
    constructor
    · intro e; exact ⟨w1, rfl, e.symm⟩
    · rintro ⟨w1', e1, e2⟩; subst e1; exact e2.symm
  | err er => simp
  | panic why => simp

/-- any order / interleaving of the same successful adds leaves the decoder object in the same
    state, hence `decode` gives the same answer -/
theorem Decoder.addOps_perm {d d1 : Decoder} (hinv : Decoder.Inv d) {l l' : List AddOp}
    (hp : l.Perm l') (h : d.addOps l = .ok d1) : d.addOps l' = .ok d1 := by
  obtain ⟨rate, w, hin, _, hw⟩ := hinv
  obtain ⟨w1, h1, e⟩ := (Decoder.addOps_ok_iff hin).mp h
  exact (Decoder.addOps_ok_iff hin).mpr ⟨w1, addAll_perm hw hp h1, e⟩

theorem Decoder.decode_perm {lw : Array Nat} {d d1 : Decoder} (hinv : Decoder.Inv d)
    {l l' : List AddOp} (hp : l.Perm l') (h : d.addOps l = .ok d1) :
    ∃ d1', d.addOps l' = .ok d1' ∧ d1'.decode lw = d1.decode lw :=
  ⟨d1, Decoder.addOps_perm hinv hp h, rfl⟩

/-! ### 6'. any number of consecutive rounds -/

/-- add every shard in order, stopping at the first call that is not `ok` -/
def Encoder.addAll (e : Encoder) : List (Array Nat) → Outcome Encoder
  | [] => .ok e
  | s :: ss =>
    match e.add s with
    | (.ok _, e1) => e1.addAll ss
    | (.err er, _) => .err er
    | (.panic why, _) => .panic why

/-- one round: add the shards, encode, read and drop the result -/
def Encoder.round (e : Encoder) (l : List (Array Nat)) : Outcome (List (Array Nat) × Encoder) :=
  match e.addAll l with
  | .ok e1 =>
    match e1.encode with
    | (.ok out, e2) => .ok (out, e2)
    | (.err er, _) => .err er
    | (.panic why, _) => .panic why
  | .err er => .err er
  | .panic why => .panic why

def Encoder.rounds (e : Encoder) :
    List (List (Array Nat)) → Outcome (List (List (Array Nat)) × Encoder)
  | [] => .ok ([], e)
  | l :: ls =>
    match e.round l with
    | .ok (out, e1) =>
      match e1.rounds ls with
      | .ok (outs, e2) => .ok (out :: outs, e2)
      | .err er => .err er
      | .panic why => .panic why
    | .err er => .err er
    | .panic why => .panic why

theorem EncWork.reset_ok_recv {stale : Stale} {w w' : EncWork} {k r sb wc : Nat}
    (h : w.reset stale k r sb wc = .ok w') :
    w'.recv = 0 ∧ (w'.k, w'.r, w'.sb) = (k, r, sb) := by
  unfold EncWork.reset at h
  split at h
  · cases h
  · simp only [Outcome.ok.injEq] at h
    subst h
    exact ⟨rfl, rfl⟩

theorem EncWork.add_ok_state {w w' : EncWork} {s : Array Nat} (h : w.add s = .ok w') :
    (w'.k, w'.r, w'.sb) = (w.k, w.r, w.sb) ∧ w'.recv = w.recv + 1 := by
  unfold EncWork.add at h
  split at h
  · cases h
  · split at h
    · cases h
    · split at h
      · split at h
        · simp only [Outcome.ok.injEq] at h
          subst h
          exact ⟨rfl, rfl⟩
        · cases h
      · cases h

theorem Encoder.add_ok_state {e e' : Encoder} {u : Unit} {s : Array Nat} {rate : Rate}
    {w : EncWork} (hin : e.inner = .some rate w) (h : e.add s = (.ok u, e')) :
    ∃ w', e'.inner = .some rate w' ∧ (w'.k, w'.r, w'.sb) = (w.k, w.r, w.sb) ∧
      w'.recv = w.recv + 1 := by
  unfold Encoder.add at h
  rw [hin] at h
  simp only at h
  split at h
  · rename_i w' hw
    simp only [Prod.mk.injEq] at h
    obtain ⟨_, h2⟩ := h
    subst h2
    exact ⟨w', rfl, EncWork.add_ok_state hw⟩
  · simp only [Prod.mk.injEq] at h; cases h.1
  · simp only [Prod.mk.injEq] at h; cases h.1

theorem Encoder.addAll_ok_state (l : List (Array Nat)) :
    ∀ {e e1 : Encoder} {rate : Rate} {w : EncWork}, e.inner = .some rate w →
      e.addAll l = .ok e1 →
      ∃ w1, e1.inner = .some rate w1 ∧ (w1.k, w1.r, w1.sb) = (w.k, w.r, w.sb) ∧
        w1.recv = w.recv + l.length := by
  induction l with
  | nil =>
    intro e e1 rate w hin h
    simp only [Encoder.addAll, Outcome.ok.injEq] at h
    subst h
    exact ⟨w, hin, rfl, rfl⟩
  | cons s ss ih =>
    intro e e1 rate w hin h
    simp only [Encoder.addAll] at h
    split at h
    · rename_i u e2 hadd
      obtain ⟨w2, hin2, hc2, hr2⟩ := Encoder.add_ok_state hin hadd
      obtain ⟨w1, hin1, hc1, hr1⟩ := ih hin2 h
      refine ⟨w1, hin1, hc1.trans hc2, ?_⟩
      rw [hr1, hr2, List.length_cons]; omega
    · cases h
    · cases h

/-- a successful round from a fresh state: exactly `k` shards were added, `r` recovery shards
    come out, and the state is fresh again with the same configuration -/
theorem Encoder.round_ok_state {e e' : Encoder} {l : List (Array Nat)} {out : List (Array Nat)}
    {rate : Rate} {w : EncWork} (hin : e.inner = .some rate w) (hfresh : w.recv = 0)
    (h : e.round l = .ok (out, e')) :
    ∃ w', e'.inner = .some rate w' ∧ w'.recv = 0 ∧ (w'.k, w'.r, w'.sb) = (w.k, w.r, w.sb) ∧
      l.length = w.k ∧ out.length = w.r := by
  unfold Encoder.round at h
  split at h
  · rename_i e1 hadd
    obtain ⟨w1, hin1, hc1, hr1⟩ := Encoder.addAll_ok_state l hin hadd
    split at h
    · rename_i out' e2 henc
      simp only [Outcome.ok.injEq, Prod.mk.injEq] at h
      obtain ⟨ho, he⟩ := h
      subst ho; subst he
      obtain ⟨w2, hin2, hr2, hc2, _, _, _, _, _, hfull, hout⟩ := Encoder.encode_ok_state hin1 henc
      simp only [Prod.mk.injEq] at hc1 hc2
      refine ⟨w2, hin2, hr2, ?_, ?_, ?_⟩
      · simp only [Prod.mk.injEq]
        exact ⟨hc2.1.trans hc1.1, hc2.2.1.trans hc1.2.1, hc2.2.2.trans hc1.2.2⟩
      · rw [← hc1.1, ← hfull, hr1, hfresh]; omega
      · rw [hout, recoveryList_length]; exact hc1.2.1
    · cases h
    · cases h
  · cases h
  · cases h

/-- any number of consecutive successful rounds: the object is fresh again, same configuration -/
theorem Encoder.rounds_ok_state (ls : List (List (Array Nat))) :
    ∀ {e e' : Encoder} {outs : List (List (Array Nat))} {rate : Rate} {w : EncWork},
      e.inner = .some rate w → w.recv = 0 → e.rounds ls = .ok (outs, e') →
      ∃ w', e'.inner = .some rate w' ∧ w'.recv = 0 ∧ (w'.k, w'.r, w'.sb) = (w.k, w.r, w.sb) ∧
        (∀ l ∈ ls, l.length = w.k) ∧ outs.length = ls.length ∧ ∀ out ∈ outs, out.length = w.r := by
  induction ls with
  | nil =>
    intro e e' outs rate w hin hfresh h
    simp only [Encoder.rounds, Outcome.ok.injEq, Prod.mk.injEq] at h
    obtain ⟨h1, h2⟩ := h
    subst h1; subst h2
    exact ⟨w, hin, hfresh, rfl, by simp, rfl, by simp⟩
  | cons l ls ih =>
    intro e e' outs rate w hin hfresh h
    simp only [Encoder.rounds] at h
    split at h
    · rename_i out e1 hround
      obtain ⟨w1, hin1, hr1, hc1, hl, ho⟩ := Encoder.round_ok_state hin hfresh hround
      split at h
      · rename_i outs' e2 hrest
        simp only [Outcome.ok.injEq, Prod.mk.injEq] at h
        obtain ⟨h1, h2⟩ := h
        subst h1; subst h2
        obtain ⟨w2, hin2, hr2, hc2, hls, hlen, houts⟩ := ih hin1 hr1 hrest
        simp only [Prod.mk.injEq] at hc1 hc2
        refine ⟨w2, hin2, hr2, ?_, ?_, ?_, ?_⟩
        · simp only [Prod.mk.injEq]
          exact ⟨hc2.1.trans hc1.1, hc2.2.1.trans hc1.2.1, hc2.2.2.trans hc1.2.2⟩
        · intro l' hl'
          rcases List.mem_cons.mp hl' with h' | h'
          · subst h'; exact hl
          · rw [hls l' h', hc1.1]
        · simp [hlen]
        · intro o ho'
          rcases List.mem_cons.mp ho' with h' | h'
          · subst h'; exact ho
          · rw [houts o h', hc1.2.1]
      · cases h
      · cases h
    · cases h
    · cases h

/-- fresh bookkeeping of a decoder work space: what `reset` leaves -/
def DecWork.Fresh (w : DecWork) : Prop :=
  w.orecv = 0 ∧ w.rrecv = 0 ∧ ∀ p, w.recvAt p = false

theorem DecWork.reset_ok_fresh {stale : Stale} {w w' : DecWork} {k r sb ob rb wc : Nat}
    (h : w.reset stale k r sb ob rb wc = .ok w') :
    w'.Fresh ∧ (w'.k, w'.r, w'.sb, w'.obase, w'.rbase) = (k, r, sb, ob, rb) := by
  unfold DecWork.reset at h
  split at h
  · cases h
  · simp only [Outcome.ok.injEq] at h
    subst h
    refine ⟨⟨rfl, rfl, ?_⟩, rfl⟩
    intro p
    simp only [DecWork.recvAt, Array.getD_eq_getD_getElem?, Array.getElem?_replicate]
    split <;> rfl

/-- one round of the decoder: adds in any order, decode, read and drop the result -/
def Decoder.round (lw : Array Nat) (d : Decoder) (l : List AddOp) :
    Outcome (List (Nat × Array Nat) × Decoder) :=
  match d.addOps l with
  | .ok d1 =>
    match d1.decode lw with
    | (.ok out, d2) => .ok (out, d2)
    | (.err er, _) => .err er
    | (.panic why, _) => .panic why
  | .err er => .err er
  | .panic why => .panic why

def Decoder.rounds (lw : Array Nat) (d : Decoder) :
    List (List AddOp) → Outcome (List (List (Nat × Array Nat)) × Decoder)
  | [] => .ok ([], d)
  | l :: ls =>
    match d.round lw l with
    | .ok (out, d1) =>
      match d1.rounds lw ls with
      | .ok (outs, d2) => .ok (out :: outs, d2)
      | .err er => .err er
      | .panic why => .panic why
    | .err er => .err er
    | .panic why => .panic why

theorem DecWork.addOp_ok_cfg {w w' : DecWork} {a : AddOp} (h : w.addOp a = .ok w') :
    (w'.k, w'.r, w'.sb, w'.obase, w'.rbase) = (w.k, w.r, w.sb, w.obase, w.rbase) := by
  obtain ⟨_, _, _, _, _, e⟩ := DecWork.addOp_ok_iff.mp h
  subst e
  rfl

theorem DecWork.addAll_ok_cfg (l : List AddOp) :
    ∀ {w w' : DecWork}, w.addAll l = .ok w' →
      (w'.k, w'.r, w'.sb, w'.obase, w'.rbase) = (w.k, w.r, w.sb, w.obase, w.rbase) := by
  induction l with
  | nil =>
    intro w w' h
    simp only [DecWork.addAll, Outcome.ok.injEq] at h
    subst h; rfl
  | cons a l ih =>
    intro w w' h
    obtain ⟨w1, h1, h2⟩ := DecWork.addAll_cons_ok_iff.mp h
    exact (ih h2).trans (DecWork.addOp_ok_cfg h1)

theorem Decoder.round_ok_state {lw : Array Nat} {d d' : Decoder} {l : List AddOp}
    {out : List (Nat × Array Nat)} {rate : Rate} {w : DecWork} (hin : d.inner = .some rate w)
    (h : d.round lw l = .ok (out, d')) :
    ∃ w', d'.inner = .some rate w' ∧ w'.Fresh ∧
      (w'.k, w'.r, w'.sb, w'.obase, w'.rbase) = (w.k, w.r, w.sb, w.obase, w.rbase) := by
  unfold Decoder.round at h
  split at h
  · rename_i d1 hadd
    obtain ⟨w1, hw1, hd1⟩ := (Decoder.addOps_ok_iff hin).mp hadd
    have hin1 : d1.inner = .some rate w1 := by rw [hd1]
    split at h
    · rename_i out' d2 hdec
      simp only [Outcome.ok.injEq, Prod.mk.injEq] at h
      obtain ⟨ho, hd⟩ := h
      subst ho; subst hd
      obtain ⟨w2, hin2, ho2, hr2, hb2, hc2, _⟩ := Decoder.decode_ok_state hin1 hdec
      exact ⟨w2, hin2, ⟨ho2, hr2, hb2⟩, hc2.trans (DecWork.addAll_ok_cfg l hw1)⟩
    · cases h
    · cases h
  · cases h
  · cases h

theorem Decoder.rounds_ok_state {lw : Array Nat} (ls : List (List AddOp)) :
    ∀ {d d' : Decoder} {outs : List (List (Nat × Array Nat))} {rate : Rate} {w : DecWork},
      d.inner = .some rate w → w.Fresh → d.rounds lw ls = .ok (outs, d') →
      ∃ w', d'.inner = .some rate w' ∧ w'.Fresh ∧
        (w'.k, w'.r, w'.sb, w'.obase, w'.rbase) = (w.k, w.r, w.sb, w.obase, w.rbase) ∧
        outs.length = ls.length := by
  induction ls with
  | nil =>
    intro d d' outs rate w hin hfresh h
    simp only [Decoder.rounds, Outcome.ok.injEq, Prod.mk.injEq] at h
    obtain ⟨h1, h2⟩ := h
    subst h1; subst h2
    exact ⟨w, hin, hfresh, rfl, rfl⟩
  | cons l ls ih =>
    intro d d' outs rate w hin hfresh h
    simp only [Decoder.rounds] at h
    split at h
    · rename_i out d1 hround
      obtain ⟨w1, hin1, hf1, hc1⟩ := Decoder.round_ok_state hin hround
      split at h
      · rename_i outs' d2 hrest
        simp only [Outcome.ok.injEq, Prod.mk.injEq] at h
        obtain ⟨h1, h2⟩ := h
        subst h1; subst h2
        obtain ⟨w2, hin2, hf2, hc2, hlen⟩ := ih hin1 hf1 hrest
        exact ⟨w2, hin2, hf2, hc2.trans hc1, by simp [hlen]⟩
      · cases h
      · cases h
    · cases h
    · cases h

/-! ## C10 — one-shot = streaming -/

theorem useHighRate_error {k r : Nat} {e : Err} (h : useHighRate k r = .error e) :
    e = .unsupportedShardCount k r := by
  unfold useHighRate at h
  split at h
  · cases h; rfl
  · simp only at h
    split at h
    · cases h; rfl
    · split at h
      · cases h
      · split at h <;> cases h

theorem chooseRate_default_of_unsupported {k r : Nat} (h : supportsDefault k r = false) :
    chooseRate .default k r = .error (.unsupportedShardCount k r) := by
  unfold supportsDefault at h
  unfold chooseRate
  simp only
  cases hu : useHighRate k r with
  | error e => rw [useHighRate_error hu]
  | ok b => rw [hu] at h; cases h

/-! ### 11. encode -/

/-- the streaming way: create the default-rate encoder with the first shard's size, add every
    shard in order, encode -/
def streamEncode (stale : Stale) (k r : Nat) (l : List (Array Nat)) : Outcome (List (Array Nat)) :=
  match Encoder.new stale .default .twoLayer k r (l.headD #[]).size none with
  | .ok e =>
    match e.addAll l with
    | .ok e1 =>
      match e1.encode with
      | (.ok out, _) => .ok out
      | (.err er, _) => .err er
      | (.panic why, _) => .panic why
    | .err er => .err er
    | .panic why => .panic why
  | .err er => .err er
  | .panic why => .panic why

theorem oneShotEncode_addAll_eq (l : List (Array Nat)) :
    ∀ e : Encoder, oneShotEncode.addAll e l = e.addAll l := by
  induction l with
  | nil => intro e; rfl
  | cons s ss ih =>
    intro e
    simp only [oneShotEncode.addAll, Encoder.addAll, stepE]
    cases hadd : e.add s with
    | mk o e1 =>
      cases o with
      | ok u => simp only [Outcome.bind]; exact ih e1
      | err er => rfl
      | panic why => rfl

theorem Encoder.new_unsupported {stale : Stale} {k r sb : Nat} {s : Sched} {wk : Option EncWork}
    (h : supportsDefault k r = false) :
    Encoder.new stale .default s k r sb wk = .err (.unsupportedShardCount k r) := by
  unfold Encoder.new
  rw [chooseRate_default_of_unsupported h]

/-- the one-shot `encode` is the streaming encoder run on the same input -/
theorem oneShotEncode_eq_stream (stale : Stale) (k r : Nat) (l : List (Array Nat)) (hl : l ≠ []) :
    oneShotEncode stale k r l = streamEncode stale k r l := by
  cases l with
  | nil => exact absurd rfl hl
  | cons first rest =>
    unfold oneShotEncode streamEncode
    cases hs : supportsDefault k r with
    | false =>
      simp only [Bool.not_false, if_true, Encoder.new_unsupported hs]
    | true =>
      simp only [Bool.not_true, Bool.false_eq_true, if_false, List.headD_cons]
      cases Encoder.new stale .default .twoLayer k r first.size none with
      | err er => rfl
      | panic why => rfl
      | ok e =>
        simp only [Outcome.bind, oneShotEncode_addAll_eq]
        cases e.addAll (first :: rest) with
        | err er => rfl
        | panic why => rfl
        | ok e1 =>
          simp only [stepE]
          cases henc : e1.encode with
          | mk o e2 =>
            cases o <;> rfl

theorem oneShotEncode_unsupported (stale : Stale) (k r : Nat) (l : List (Array Nat))
    (h : supportsDefault k r = false) :
    oneShotEncode stale k r l = .err (.unsupportedShardCount k r) := by
  unfold oneShotEncode
  simp [h]

theorem oneShotEncode_nil (stale : Stale) (k r : Nat) (h : supportsDefault k r = true) :
    oneShotEncode stale k r [] = .err (.tooFewOriginal k 0) := by
  unfold oneShotEncode
  simp [h]

/-! ### 12. decode -/

def Decoder.addOriginals (d : Decoder) : List (Nat × Array Nat) → Outcome Decoder
  | [] => .ok d
  | p :: ps =>
    match d.addOriginal p.1 p.2 with
    | (.ok _, d1) => d1.addOriginals ps
    | (.err er, _) => .err er
    | (.panic why, _) => .panic why

def Decoder.addRecoveries (d : Decoder) : List (Nat × Array Nat) → Outcome Decoder
  | [] => .ok d
  | p :: ps =>
    match d.addRecovery p.1 p.2 with
    | (.ok _, d1) => d1.addRecoveries ps
    | (.err er, _) => .err er
    | (.panic why, _) => .panic why

/-- shard size the one-shot `decode` configures: first recovery shard, else first original -/
def firstSize (original recovery : List (Nat × Array Nat)) : Nat :=
  match recovery with
  | first :: _ => first.2.size
  | [] => (original.headD (0, #[])).2.size

/-- the streaming way: create the default-rate decoder, add the originals, then the recovery
    shards, decode -/
def streamDecode (stale : Stale) (lw : Array Nat) (k r : Nat)
    (original recovery : List (Nat × Array Nat)) : Outcome (List (Nat × Array Nat)) :=
  match Decoder.new stale .default .twoLayer k r (firstSize original recovery) none with
  | .ok d =>
    match d.addOriginals original with
    | .ok d1 =>
      match d1.addRecoveries recovery with
      | .ok d2 =>
        match d2.decode lw with
        | (.ok out, _) => .ok out
        | (.err er, _) => .err er
        | (.panic why, _) => .panic why
      | .err er => .err er
      | .panic why => .panic why
    | .err er => .err er
    | .panic why => .panic why
  | .err er => .err er
  | .panic why => .panic why

theorem addAllOriginal_eq (l : List (Nat × Array Nat)) :
    ∀ d : Decoder, addAllOriginal d l = d.addOriginals l := by
  induction l with
  | nil => intro d; rfl
  | cons p ps ih =>
    intro d
    obtain ⟨i, s⟩ := p
    simp only [addAllOriginal, Decoder.addOriginals, stepE]
    cases hadd : d.addOriginal i s with
    | mk o d1 =>
      cases o with
      | ok u => simp only [Outcome.bind]; exact ih d1
      | err er => rfl
      | panic why => rfl

theorem addAllRecovery_eq (l : List (Nat × Array Nat)) :
    ∀ d : Decoder, addAllRecovery d l = d.addRecoveries l := by
  induction l with
  | nil => intro d; rfl
  | cons p ps ih =>
    intro d
    obtain ⟨i, s⟩ := p
    simp only [addAllRecovery, Decoder.addRecoveries, stepE]
    cases hadd : d.addRecovery i s with
    | mk o d1 =>
      cases o with
      | ok u => simp only [Outcome.bind]; exact ih d1
      | err er => rfl
      | panic why => rfl

theorem Decoder.new_unsupported {stale : Stale} {k r sb : Nat} {s : Sched} {wk : Option DecWork}
    (h : supportsDefault k r = false) :
    Decoder.new stale .default s k r sb wk = .err (.unsupportedShardCount k r) := by
  unfold Decoder.new
  rw [chooseRate_default_of_unsupported h]

/-- the one-shot `decode` is the streaming decoder run on the same input -/
theorem oneShotDecode_eq_stream (stale : Stale) (lw : Array Nat) (k r : Nat)
    (original recovery : List (Nat × Array Nat)) (hne : original ≠ [] ∨ recovery ≠ []) :
    oneShotDecode stale lw k r original recovery = streamDecode stale lw k r original recovery := by
  unfold oneShotDecode streamDecode
  cases hs : supportsDefault k r with
  | false =>
    simp only [Bool.not_false, if_true, Decoder.new_unsupported hs]
  | true =>
    simp only [Bool.not_true, Bool.false_eq_true, if_false]
    cases recovery with
    | cons first rest =>
      simp only [firstSize]
      cases Decoder.new stale .default .twoLayer k r first.2.size none with
      | err er => rfl
      | panic why => rfl
      | ok d =>
        simp only [Outcome.bind, addAllOriginal_eq, addAllRecovery_eq]
        cases d.addOriginals original with
        | err er => rfl
        | panic why => rfl
        | ok d1 =>
          simp only
          cases d1.addRecoveries (first :: rest) with
          | err er => rfl
          | panic why => rfl
          | ok d2 =>
            simp only [stepE]
            cases hdec : d2.decode lw with
            | mk o d3 => cases o <;> rfl
    | nil =>
      cases original with
      | nil => rcases hne with h | h <;> exact absurd rfl h
      | cons first rest =>
        simp only [firstSize, List.headD_cons]
        cases Decoder.new stale .default .twoLayer k r first.2.size none with
        | err er => rfl
        | panic why => rfl
        | ok d =>
          simp only [Outcome.bind, addAllOriginal_eq]
          cases d.addOriginals (first :: rest) with
          | err er => rfl
          | panic why => rfl
          | ok d1 =>
            simp only [Decoder.addRecoveries, stepE]
            cases hdec : d1.decode lw with
            | mk o d3 => cases o <;> rfl

theorem oneShotDecode_unsupported (stale : Stale) (lw : Array Nat) (k r : Nat)
    (original recovery : List (Nat × Array Nat)) (h : supportsDefault k r = false) :
    oneShotDecode stale lw k r original recovery = .err (.unsupportedShardCount k r) := by
  unfold oneShotDecode
  simp [h]

theorem oneShotDecode_nil (stale : Stale) (lw : Array Nat) (k r : Nat)
    (h : supportsDefault k r = true) :
    oneShotDecode stale lw k r [] [] = .err (.notEnoughShards k 0 0) := by
  unfold oneShotDecode
  simp [h]

/-! ## complements -/

/-- the iterator yields `recovery 0, …, recovery (r-1)` in order, then `none` forever -/
theorem recoveryTake_eq_map (w : EncWork) (n : Nat) :
    recoveryTake w (w.r + n) {}
      = ((List.range w.r).map fun i => w.recovery i) ++ List.replicate n none := by
  have h := recoveryTake_from w w.r 0 n (by omega)
  rw [← List.range_eq_range'] at h
  exact h

theorem mem_restoredList_iff (w : DecWork) (i : Nat) (s : Array Nat) :
    (i, s) ∈ w.restoredList ↔ w.restoredOriginal i = some s := by
  unfold DecWork.restoredList
  rw [List.mem_filterMap]
  constructor
  · rintro ⟨a, _, ha⟩
    cases hr : w.restoredOriginal a with
    | none => rw [hr] at ha; cases ha
    | some s' =>
      rw [hr] at ha
      simp only [Option.map_some, Option.some.injEq, Prod.mk.injEq] at ha
      obtain ⟨h1, h2⟩ := ha
      subst h1; subst h2
      exact hr
  · intro h
    have hsome : (w.restoredOriginal i).isSome = true := by rw [h]; rfl
    have hik := ((restoredOriginal_isSome_iff w i).mp hsome).1
    exact ⟨i, List.mem_range.mpr hik, by rw [h]; rfl⟩

/-- non-vacuity of the commutation / permutation hypotheses: on a fresh dedicated high-rate
    decoder both orders of an original and a recovery add succeed -/
example : ∃ d d1, Decoder.new (fun L _ => Vector.replicate L 0#16) .high .naive 1 1 2 none = .ok d ∧
    d.addOps [.orig 0 #[1, 2], .recov 0 #[3, 4]] = .ok d1 ∧
    d.addOps [.recov 0 #[3, 4], .orig 0 #[1, 2]] = .ok d1 := by
  refine ⟨_, _, rfl, rfl, ?_⟩
  rfl

#print axioms recovery_isSome_iff
#print axioms recovery_size
#print axioms recoveryList_eq
#print axioms recoveryList_length
#print axioms recoveryList_getElem?
#print axioms recoveryTake_eq
#print axioms recoveryTake_eq_map
#print axioms restoredOriginal_isSome_iff
#print axioms restoredSearch_eq_some_iff
#print axioms restoredSearch_eq_none_iff
#print axioms restoredTake_eq
#print axioms mem_restoredList_iff
#print axioms Encoder.encode_ok_state
#print axioms Decoder.decode_ok_state
#print axioms Encoder.rounds_ok_state
#print axioms Decoder.rounds_ok_state
#print axioms EncWork.reset_ok_recv
#print axioms DecWork.reset_ok_fresh
#print axioms given_not_restored
#print axioms all_given_empty
#print axioms decode_all_given
#print axioms DecWork.addOp_comm
#print axioms addOriginal_addRecovery_comm
#print axioms addRecovery_addOriginal_comm
#print axioms addOriginal_addOriginal_comm
#print axioms addRecovery_addRecovery_comm
#print axioms le_npow2
#print axioms windows_disjoint
#print axioms addAll_perm
#print axioms Decoder.addOps_perm
#print axioms Decoder.decode_perm
#print axioms oneShotEncode_eq_stream
#print axioms oneShotEncode_unsupported
#print axioms oneShotEncode_nil
#print axioms oneShotDecode_eq_stream
#print axioms oneShotDecode_unsupported
#print axioms oneShotDecode_nil

end RS
