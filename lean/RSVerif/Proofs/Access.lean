/-
  C12 (result accessors, iterators, drop = new round), C11 (order / surplus at the bookkeeping
  level), C10 (one-shot = streaming at the model level).
-/
import RSVerif.Model.State
import RSVerif.Model.Iter
import RSVerif.Model.Spec
import RSVerif.Proofs.Inv
import RSVerif.Properties.C01

namespace RS

/-! ## C12 — accessors -/

/-! ### 1. `recovery` -/

theorem recovery_isSome_iff (w : EncWork) (i : Nat) : (w.recovery i).isSome = true ↔ i < w.r := by
  unfold EncWork.recovery
  by_cases h : i < w.r <;> simp [h]

theorem recovery_size {w : EncWork} {i : Nat} {s : Array Nat} (h : w.recovery i = some s) :
    s.size = w.sb := by
  unfold EncWork.recovery at h
  split at h
  · simp only [Option.some.injEq] at h
    subst h
    simp [unlayout]
  · simp at h

theorem recovery_eq_of_lt {w : EncWork} {i : Nat} (h : i < w.r) :
    w.recovery i = some (unlayout w.sb (w.mem.getD i (Vector.replicate w.L 0#16))) := by
  unfold EncWork.recovery; simp [h]

theorem recovery_eq_none_of_ge {w : EncWork} {i : Nat} (h : w.r ≤ i) : w.recovery i = none := by
  unfold EncWork.recovery
  have : ¬ i < w.r := by omega
  simp [this]

/-! ### 2. `recoveryList` -/

theorem recoveryList_aux (w : EncWork) (l : List Nat) (hl : ∀ i ∈ l, i < w.r) :
    (l.filterMap fun i => w.recovery i)
      = l.map (fun i => unlayout w.sb (w.mem.getD i (Vector.replicate w.L 0#16))) := by
  induction l with
  | nil => rfl
  | cons i is ih =>
    have hi : i < w.r := hl i (by simp)
    have ih' := ih (fun j hj => hl j (by simp [hj]))
    simp only [List.filterMap_cons, List.map_cons, recovery_eq_of_lt hi, ih']

theorem recoveryList_eq (w : EncWork) :
    w.recoveryList
      = (List.range w.r).map (fun i => unlayout w.sb (w.mem.getD i (Vector.replicate w.L 0#16))) := by
  unfold EncWork.recoveryList
  exact recoveryList_aux w _ (fun i hi => List.mem_range.mp hi)

theorem recoveryList_length (w : EncWork) : w.recoveryList.length = w.r := by
  rw [recoveryList_eq]; simp

theorem recoveryList_getElem? (w : EncWork) (i : Nat) : w.recoveryList[i]? = w.recovery i := by
  rw [recoveryList_eq]
  by_cases h : i < w.r
  · rw [recovery_eq_of_lt h]
    simp [h]
  · rw [recovery_eq_none_of_ge (by omega)]
    simp [h]

/-! ### 3. the `Recovery` iterator -/

theorem recoveryTake_ended (w : EncWork) (n : Nat) (c : Cursor) (h : c.ended = true) :
    recoveryTake w n c = List.replicate n none := by
  induction n with
  | zero => rfl
  | succ n ih =>
    simp only [recoveryTake, recoveryNext, h, if_true, List.replicate_succ, ih]

/-- from cursor position `j ≤ r`: the remaining `r - j` shards, then `none` forever -/
theorem recoveryTake_from (w : EncWork) (d : Nat) :
    ∀ (j n : Nat), j + d = w.r →
      recoveryTake w (d + n) { ended := false, next := j }
        = ((List.range' j d).map fun i => w.recovery i) ++ List.replicate n none := by
  induction d with
  | zero =>
    intro j n hj
    simp only [Nat.zero_add, List.range'_zero, List.map_nil, List.nil_append]
    cases n with
    | zero => rfl
    | succ n =>
      have hn : w.recovery j = none := recovery_eq_none_of_ge (by omega)
      simp only [recoveryTake, recoveryNext, hn, List.replicate_succ]
      simp only [Bool.false_eq_true, if_false]
      rw [recoveryTake_ended w n _ rfl]
  | succ d ih =>
    intro j n hj
    have hlt : j < w.r := by omega
    have hs := recovery_eq_of_lt hlt
    have e : d + 1 + n = (d + n) + 1 := by omega
    rw [e]
    simp only [recoveryTake, recoveryNext, hs, Bool.false_eq_true, if_false]
    rw [ih (j + 1) n (by omega)]
    simp [List.range'_succ, hs]

theorem recoveryTake_eq (w : EncWork) (n : Nat) :
    recoveryTake w (w.r + n) {} = (w.recoveryList.map some) ++ List.replicate n none := by
  have h := recoveryTake_from w w.r 0 n (by omega)
  have hc : ({} : Cursor) = { ended := false, next := 0 } := rfl
  rw [hc, h]
  congr 1
  rw [recoveryList_eq, List.map_map, ← List.range_eq_range']
  apply List.map_congr_left
  intro i hi
  simp [recovery_eq_of_lt (List.mem_range.mp hi)]

/-! ### 4. `restored_original` -/

theorem restoredOriginal_isSome_iff (w : DecWork) (i : Nat) :
    (w.restoredOriginal i).isSome = true ↔ i < w.k ∧ w.recvAt (w.obase + i) = false := by
  unfold DecWork.restoredOriginal
  by_cases h : i < w.k ∧ w.recvAt (w.obase + i) = false <;> simp [h]

theorem restoredOriginal_eq_none_iff (w : DecWork) (i : Nat) :
    w.restoredOriginal i = none ↔ ¬ (i < w.k ∧ w.recvAt (w.obase + i) = false) := by
  rw [← restoredOriginal_isSome_iff]
  cases w.restoredOriginal i <;> simp

/-! ### 5. the `RestoredOriginal` iterator -/

/-- what `restoredSearch` returns: the first index `≥ j` below `k` that was not received -/
theorem restoredSearch_spec (w : DecWork) (d : Nat) :
    ∀ j, j + d = w.k →
      match restoredSearch w d j with
      | none => ∀ m, j ≤ m → m < w.k → w.restoredOriginal m = none
      | some (i, s) => j ≤ i ∧ i < w.k ∧ w.restoredOriginal i = some s ∧
          ∀ m, j ≤ m → m < i → w.restoredOriginal m = none := by
  induction d with
  | zero =>
    intro j hj
    simp only [restoredSearch]
    intro m h1 h2; omega
  | succ d ih =>
    intro j hj
    have hlt : j < w.k := by omega
    simp only [restoredSearch, hlt, if_true]
    cases hr : w.restoredOriginal j with
    | some s =>
      simp only
      exact ⟨Nat.le_refl _, hlt, hr, fun m h1 h2 => by omega⟩
    | none =>
      simp only
      have := ih (j + 1) (by omega)
      cases hs : restoredSearch w d (j + 1) with
      | none =>
        rw [hs] at this
        simp only at this ⊢
        intro m h1 h2
        by_cases hm : m = j
        · subst hm; exact hr
        · exact this m (by omega) h2
      | some p =>
        obtain ⟨i, s⟩ := p
        rw [hs] at this
        simp only at this ⊢
        obtain ⟨a, b, c, e⟩ := this
        refine ⟨by omega, b, c, ?_⟩
        intro m h1 h2
        by_cases hm : m = j
        · subst hm; exact hr
        · exact e m (by omega) h2

/-- `restoredSearch w (k - j) j = some (i, s)`: `i` is the first index `≥ j` that is `< k` and
    not received, `s` its shard -/
theorem restoredSearch_eq_some_iff (w : DecWork) (j i : Nat) (s : Array Nat) (hj : j ≤ w.k) :
    restoredSearch w (w.k - j) j = some (i, s) ↔
      j ≤ i ∧ i < w.k ∧ w.recvAt (w.obase + i) = false ∧
      (∀ m, j ≤ m → m < i → w.recvAt (w.obase + m) = true) ∧
      s = unlayout w.sb (w.mem.getD (w.obase + i) (Vector.replicate w.L 0#16)) := by
  have hspec := restoredSearch_spec w (w.k - j) j (by omega)
  constructor
  · intro h
    rw [h] at hspec
    simp only at hspec
    obtain ⟨a, b, c, e⟩ := hspec
    have hsome : (w.restoredOriginal i).isSome = true := by rw [c]; rfl
    have hi := (restoredOriginal_isSome_iff w i).mp hsome
    refine ⟨a, b, hi.2, ?_, ?_⟩
    · intro m h1 h2
      have hn := (restoredOriginal_eq_none_iff w m).mp (e m h1 h2)
      have hmk : m < w.k := by omega
      cases hb : w.recvAt (w.obase + m) with
      | true => rfl
      | false => exact absurd ⟨hmk, hb⟩ hn
    · unfold DecWork.restoredOriginal at c
      simp only [hi, and_self, if_true, Option.some.injEq] at c
      exact c.symm
  · rintro ⟨a, b, c, e, f⟩
    have hi : w.restoredOriginal i = some s := by
      unfold DecWork.restoredOriginal
      simp [b, c, f]
    cases hs : restoredSearch w (w.k - j) j with
    | none =>
      rw [hs] at hspec
      simp only at hspec
      have := hspec i a b
      rw [hi] at this
      cases this
    | some p =>
      obtain ⟨i', s'⟩ := p
      rw [hs] at hspec
      simp only at hspec
      obtain ⟨a', b', c', e'⟩ := hspec
      have hii : i' = i := by
        rcases Nat.lt_trichotomy i' i with h | h | h
        · have hsome : (w.restoredOriginal i').isSome = true := by rw [c']; rfl
          have := ((restoredOriginal_isSome_iff w i').mp hsome).2
          rw [e i' a' h] at this
          cases this
        · exact h
        · have := e' i a h
          rw [hi] at this
          cases this
      subst hii
      rw [hi] at c'
      cases c'
      rfl

theorem restoredSearch_eq_none_iff (w : DecWork) (j : Nat) (hj : j ≤ w.k) :
    restoredSearch w (w.k - j) j = none ↔
      ∀ m, j ≤ m → m < w.k → w.recvAt (w.obase + m) = true := by
  have hspec := restoredSearch_spec w (w.k - j) j (by omega)
  constructor
  · intro h m h1 h2
    rw [h] at hspec
    simp only at hspec
    have hn := (restoredOriginal_eq_none_iff w m).mp (hspec m h1 h2)
    cases hb : w.recvAt (w.obase + m) with
    | true => rfl
    | false => exact absurd ⟨h2, hb⟩ hn
  · intro h
    cases hs : restoredSearch w (w.k - j) j with
    | none => rfl
    | some p =>
      obtain ⟨i, s⟩ := p
      rw [hs] at hspec
      simp only at hspec
      obtain ⟨a, b, c, _⟩ := hspec
      have hsome : (w.restoredOriginal i).isSome = true := by rw [c]; rfl
      have := ((restoredOriginal_isSome_iff w i).mp hsome).2
      rw [h i a b] at this
      cases this

/-- the entries of `restoredList` from index `j` on -/
def DecWork.restoredFrom (w : DecWork) (j : Nat) : List (Nat × Array Nat) :=
  (List.range' j (w.k - j)).filterMap fun i => (w.restoredOriginal i).map fun s => (i, s)

theorem restoredFrom_zero (w : DecWork) : w.restoredFrom 0 = w.restoredList := by
  unfold DecWork.restoredFrom DecWork.restoredList
  rw [Nat.sub_zero, ← List.range_eq_range']

theorem restoredFrom_step (w : DecWork) (j : Nat) (hj : j < w.k) :
    w.restoredFrom j =
      match w.restoredOriginal j with
      | some s => (j, s) :: w.restoredFrom (j + 1)
      | none => w.restoredFrom (j + 1) := by
  unfold DecWork.restoredFrom
  have e : w.k - j = (w.k - (j + 1)) + 1 := by omega
  rw [e, List.range'_succ, List.filterMap_cons]
  cases w.restoredOriginal j <;> simp

/-- skipping a stretch of received indexes does not change the rest of the list -/
theorem restoredFrom_skip (w : DecWork) (d : Nat) :
    ∀ j i, i = j + d → i ≤ w.k → (∀ m, j ≤ m → m < i → w.restoredOriginal m = none) →
      w.restoredFrom j = w.restoredFrom i := by
  induction d with
  | zero => intro j i hi _ _; subst hi; rfl
  | succ d ih =>
    intro j i hi hk hn
    have hj : j < w.k := by omega
    rw [restoredFrom_step w j hj, hn j (Nat.le_refl _) (by omega)]
    exact ih (j + 1) i (by omega) hk (fun m h1 h2 => hn m (by omega) h2)

theorem restoredSearch_list (w : DecWork) (j : Nat) (hj : j ≤ w.k) :
    match restoredSearch w (w.k - j) j with
    | none => w.restoredFrom j = []
    | some (i, s) => i < w.k ∧ w.restoredFrom j = (i, s) :: w.restoredFrom (i + 1) := by
  have hspec := restoredSearch_spec w (w.k - j) j (by omega)
  cases hs : restoredSearch w (w.k - j) j with
  | none =>
    rw [hs] at hspec
    simp only at hspec ⊢
    rw [restoredFrom_skip w (w.k - j) j w.k (by omega) (Nat.le_refl _) hspec]
    unfold DecWork.restoredFrom
    simp
  | some p =>
    obtain ⟨i, s⟩ := p
    rw [hs] at hspec
    simp only at hspec ⊢
    obtain ⟨a, b, c, e⟩ := hspec
    refine ⟨b, ?_⟩
    rw [restoredFrom_skip w (i - j) j i (by omega) (by omega) e, restoredFrom_step w i b, c]

theorem restoredTake_ended (w : DecWork) (n : Nat) (c : Cursor) (h : c.ended = true) :
    restoredTake w n c = List.replicate n none := by
  induction n with
  | zero => rfl
  | succ n ih =>
    simp only [restoredTake, restoredNext, h, if_true, List.replicate_succ, ih]

theorem restoredTake_from (w : DecWork) (n : Nat) (m : Nat) :
    ∀ j, j ≤ w.k → (w.restoredFrom j).length = m →
      restoredTake w (m + n) { ended := false, next := j }
        = ((w.restoredFrom j).map some) ++ List.replicate n none := by
  induction m with
  | zero =>
    intro j hj hlen
    have hnil : w.restoredFrom j = [] := List.eq_nil_of_length_eq_zero hlen
    have hl := restoredSearch_list w j hj
    cases hs : restoredSearch w (w.k - j) j with
    | some p =>
      obtain ⟨i, s⟩ := p
      rw [hs] at hl
      simp only at hl
      rw [hnil] at hl
      cases hl.2
    | none =>
      rw [hnil]
      simp only [Nat.zero_add, List.map_nil, List.nil_append]
      cases n with
      | zero => rfl
      | succ n =>
        simp only [restoredTake, restoredNext, hs, List.replicate_succ]
        simp only [Bool.false_eq_true, if_false]
        rw [restoredTake_ended w n _ rfl]
  | succ m ih =>
    intro j hj hlen
    have hl := restoredSearch_list w j hj
    cases hs : restoredSearch w (w.k - j) j with
    | none =>
      rw [hs] at hl
      simp only at hl
      rw [hl] at hlen
      cases hlen
    | some p =>
      obtain ⟨i, s⟩ := p
      rw [hs] at hl
      simp only at hl
      obtain ⟨hik, hcons⟩ := hl
      have hlen' : (w.restoredFrom (i + 1)).length = m := by
        rw [hcons] at hlen
        simpa using hlen
      have e : m + 1 + n = (m + n) + 1 := by omega
      rw [e]
      simp only [restoredTake, restoredNext, hs, Bool.false_eq_true, if_false]
      rw [ih (i + 1) (by omega) hlen', hcons]
      rfl

theorem restoredTake_eq (w : DecWork) (n : Nat) :
    restoredTake w (w.restoredList.length + n) {}
      = (w.restoredList.map some) ++ List.replicate n none := by
  have h := restoredTake_from w n w.restoredList.length 0 (Nat.zero_le _)
    (by rw [restoredFrom_zero])
  rw [restoredFrom_zero] at h
  exact h

/-! ### 6. dropping the result starts a new round -/

theorem Encoder.encode_ok_state {e e' : Encoder} {out : List (Array Nat)} {rate : Rate}
    {w : EncWork} (hin : e.inner = .some rate w) (h : e.encode = (.ok out, e')) :
    ∃ w', e'.inner = .some rate w' ∧ w'.recv = 0 ∧ (w'.k, w'.r, w'.sb) = (w.k, w.r, w.sb) ∧
      w'.L = w.L ∧ w'.heldBlocks = w.heldBlocks ∧ w'.allocs = w.allocs ∧
      e'.kind = e.kind ∧ e'.sched = e.sched ∧ w.recv = w.k ∧
      out = ({ w with mem := encodeMem rate e.sched w.k w.r w.mem } : EncWork).recoveryList := by
  unfold Encoder.encode at h
  rw [hin] at h
  simp only at h
  split at h
  · rename_i hk
    simp only [Prod.mk.injEq, Outcome.ok.injEq] at h
    obtain ⟨h1, h2⟩ := h
    subst h2
    exact ⟨_, rfl, rfl, rfl, rfl, rfl, rfl, rfl, rfl, hk, h1.symm⟩
  · simp only [Prod.mk.injEq] at h
    cases h.1

theorem recvAt_resetReceived (w : DecWork) (p : Nat) : w.resetReceived.recvAt p = false := by
  unfold DecWork.resetReceived DecWork.recvAt
  simp only [Array.getD_eq_getD_getElem?, Array.getElem?_replicate]
  split <;> rfl

theorem Decoder.decode_ok_state {lw : Array Nat} {d d' : Decoder} {out : List (Nat × Array Nat)}
    {rate : Rate} {w : DecWork} (hin : d.inner = .some rate w) (h : d.decode lw = (.ok out, d')) :
    ∃ w', d'.inner = .some rate w' ∧ w'.orecv = 0 ∧ w'.rrecv = 0 ∧ (∀ p, w'.recvAt p = false) ∧
      (w'.k, w'.r, w'.sb, w'.obase, w'.rbase) = (w.k, w.r, w.sb, w.obase, w.rbase) ∧
      w'.L = w.L ∧ w'.received.size = w.received.size ∧
      w'.heldBlocks = w.heldBlocks ∧ w'.allocs = w.allocs ∧ w'.bitAllocs = w.bitAllocs ∧
      d'.kind = d.kind ∧ d'.sched = d.sched := by
  unfold Decoder.decode at h
  rw [hin] at h
  simp only at h
  split at h
  · simp only [Prod.mk.injEq] at h
    cases h.1
  · split at h
    · simp only [Prod.mk.injEq, Outcome.ok.injEq] at h
      obtain ⟨_, h2⟩ := h
      subst h2
      refine ⟨_, rfl, rfl, rfl, recvAt_resetReceived _, rfl, rfl, ?_, rfl, rfl, rfl, rfl, rfl⟩
      simp [DecWork.resetReceived]
    · simp only [Prod.mk.injEq, Outcome.ok.injEq] at h
      obtain ⟨_, h2⟩ := h
      subst h2
      refine ⟨_, rfl, rfl, rfl, recvAt_resetReceived _, rfl, rfl, ?_, rfl, rfl, rfl, rfl, rfl⟩
      simp [DecWork.resetReceived]

/-! ## bookkeeping of the decoder's `add_*_shard` calls -/

/-- an `add_original_shard` / `add_recovery_shard` call
    (the second constructor cannot be called `rec`: that name is taken by the recursor) -/
inductive AddOp where
  | orig (i : Nat) (s : Array Nat)
  | recov (j : Nat) (t : Array Nat)

namespace AddOp
def shard : AddOp → Array Nat
  | .orig _ s => s
  | .recov _ t => t
def dO : AddOp → Nat
  | .orig _ _ => 1
  | .recov _ _ => 0
def dR : AddOp → Nat
  | .orig _ _ => 0
  | .recov _ _ => 1
def inRange (w : DecWork) : AddOp → Prop
  | .orig i _ => i < w.k
  | .recov j _ => j < w.r
def pos (w : DecWork) : AddOp → Nat
  | .orig i _ => w.obase + i
  | .recov j _ => w.rbase + j
end AddOp

def DecWork.addOp (w : DecWork) : AddOp → Outcome DecWork
  | .orig i s => w.addOriginal i s
  | .recov j t => w.addRecovery j t

/-- sequential adds, stopping at the first call that is not `ok` -/
def DecWork.addAll (w : DecWork) : List AddOp → Outcome DecWork
  | [] => .ok w
  | a :: l =>
    match w.addOp a with
    | .ok w1 => w1.addAll l
    | .err e => .err e
    | .panic why => .panic why

/-- public copy of the private `DecWork.insert` -/
def DecWork.put (w : DecWork) (pos : Nat) (shard : Array Nat) : Outcome DecWork :=
  if h : w.sb / 2 = w.L then
    if pos < w.mem.size then
      .ok { w with mem := w.mem.setIfInBounds pos (h ▸ layout w.sb shard),
                   received := w.received.setIfInBounds pos true }
    else .panic "shard index out of range"
  else .panic "lane count invariant broken"

theorem DecWork.addOriginal_eq_put (w : DecWork) (i : Nat) (s : Array Nat) :
    w.addOriginal i s =
      if i ≥ w.k then .err (.invalidOriginalIndex w.k i)
      else if w.recvAt (w.obase + i) then .err (.duplicateOriginal i)
      else if s.size ≠ w.sb then .err (.differentShardSize w.sb s.size)
      else (w.put (w.obase + i) s).bind fun w => .ok { w with orecv := w.orecv + 1 } := rfl

theorem DecWork.addRecovery_eq_put (w : DecWork) (j : Nat) (t : Array Nat) :
    w.addRecovery j t =
      if j ≥ w.r then .err (.invalidRecoveryIndex w.r j)
      else if w.recvAt (w.rbase + j) then .err (.duplicateRecovery j)
      else if t.size ≠ w.sb then .err (.differentShardSize w.sb t.size)
      else (w.put (w.rbase + j) t).bind fun w => .ok { w with rrecv := w.rrecv + 1 } := rfl

/-- memory and bitmap effect of a successful add at `pos` -/
def DecWork.place (w : DecWork) (pos : Nat) (shard : Array Nat) (h : w.sb / 2 = w.L) : DecWork :=
  { w with mem := w.mem.setIfInBounds pos (h ▸ layout w.sb shard),
           received := w.received.setIfInBounds pos true }

/-- counter effect of a successful add -/
def DecWork.bump (w : DecWork) (a : AddOp) : DecWork :=
  { w with orecv := w.orecv + a.dO, rrecv := w.rrecv + a.dR }

theorem DecWork.put_ok_iff {w w' : DecWork} {pos : Nat} {s : Array Nat} :
    w.put pos s = .ok w' ↔ ∃ h : w.sb / 2 = w.L, pos < w.mem.size ∧ w' = w.place pos s h := by
  unfold DecWork.put
  by_cases h : w.sb / 2 = w.L
  · by_cases h2 : pos < w.mem.size
    · simp only [dif_pos h, if_pos h2, Outcome.ok.injEq]
      constructor
      · intro e; exact ⟨h, h2, e.symm⟩
      · rintro ⟨_, _, e⟩; exact e.symm
    · simp only [dif_pos h, if_neg h2]
      constructor
      · intro e; cases e
      · rintro ⟨_, h2', _⟩; exact absurd h2' h2
  · simp only [dif_neg h]
    constructor
    · intro e; cases e
    · rintro ⟨h', _⟩; exact absurd h' h

theorem Outcome.bind_ok_iff {α β : Type} {x : Outcome α} {f : α → Outcome β} {b : β} :
    x.bind f = .ok b ↔ ∃ a, x = .ok a ∧ f a = .ok b := by
  cases x with
  | ok a => simp [Outcome.bind]
  | err e => simp [Outcome.bind]
  | panic why => simp [Outcome.bind]

/-- when exactly an add call succeeds, and what it does -/
theorem DecWork.addOp_ok_iff {w w' : DecWork} {a : AddOp} :
    w.addOp a = .ok w' ↔
      a.inRange w ∧ w.recvAt (a.pos w) = false ∧ a.shard.size = w.sb ∧
      ∃ h : w.sb / 2 = w.L, a.pos w < w.mem.size ∧ w' = (w.place (a.pos w) a.shard h).bump a := by
  cases a with
  | orig i s =>
    simp only [DecWork.addOp, AddOp.inRange, AddOp.pos, AddOp.shard, DecWork.addOriginal_eq_put]
    by_cases h1 : i ≥ w.k
    · simp only [if_pos h1]
      constructor
      · intro e; cases e
      · rintro ⟨h, _⟩; omega
    · by_cases h2 : w.recvAt (w.obase + i) = true
      · simp only [if_neg h1, h2]
        constructor
        · intro e; cases e
        · rintro ⟨_, h, _⟩; cases h
      · by_cases h3 : s.size ≠ w.sb
        · simp only [if_neg h1, if_neg h2, if_pos h3]
          constructor
          · intro e; cases e
          · rintro ⟨_, _, h, _⟩; exact absurd h h3
        · simp only [if_neg h1, if_neg h2, if_neg h3, Outcome.bind_ok_iff, DecWork.put_ok_iff]
          have h2' : w.recvAt (w.obase + i) = false := by simpa using h2
          have h3' : s.size = w.sb := by simpa using h3
          constructor
          · rintro ⟨w1, ⟨h, hm, e1⟩, e2⟩
            subst e1
            simp only [Outcome.ok.injEq] at e2
            exact ⟨by omega, h2', h3', h, hm, e2.symm⟩
          · rintro ⟨_, _, _, h, hm, e⟩
            exact ⟨_, ⟨h, hm, rfl⟩, by rw [e]; rfl⟩
  | recov j t =>
    simp only [DecWork.addOp, AddOp.inRange, AddOp.pos, AddOp.shard, DecWork.addRecovery_eq_put]
    by_cases h1 : j ≥ w.r
    · simp only [if_pos h1]
      constructor
      · intro e; cases e
      · rintro ⟨h, _⟩; omega
    · by_cases h2 : w.recvAt (w.rbase + j) = true
      · simp only [if_neg h1, h2]
        constructor
        · intro e; cases e
        · rintro ⟨_, h, _⟩; cases h
      · by_cases h3 : t.size ≠ w.sb
        · simp only [if_neg h1, if_neg h2, if_pos h3]
          constructor
          · intro e; cases e
          · rintro ⟨_, _, h, _⟩; exact absurd h h3
        · simp only [if_neg h1, if_neg h2, if_neg h3, Outcome.bind_ok_iff, DecWork.put_ok_iff]
          have h2' : w.recvAt (w.rbase + j) = false := by simpa using h2
          have h3' : t.size = w.sb := by simpa using h3
          constructor
          · rintro ⟨w1, ⟨h, hm, e1⟩, e2⟩
            subst e1
            simp only [Outcome.ok.injEq] at e2
            exact ⟨by omega, h2', h3', h, hm, e2.symm⟩
          · rintro ⟨_, _, _, h, hm, e⟩
            exact ⟨_, ⟨h, hm, rfl⟩, by rw [e]; rfl⟩

/-! ### what an add leaves unchanged -/

theorem AddOp.inRange_place_bump (w : DecWork) (p : Nat) (s : Array Nat) (h : w.sb / 2 = w.L)
    (a b : AddOp) : b.inRange ((w.place p s h).bump a) ↔ b.inRange w := by
  cases b <;> exact Iff.rfl

theorem AddOp.pos_place_bump (w : DecWork) (p : Nat) (s : Array Nat) (h : w.sb / 2 = w.L)
    (a b : AddOp) : b.pos ((w.place p s h).bump a) = b.pos w := by
  cases b <;> rfl

theorem DecWork.recvAt_place_bump (w : DecWork) (p : Nat) (s : Array Nat) (h : w.sb / 2 = w.L)
    (a : AddOp) (q : Nat) :
    ((w.place p s h).bump a).recvAt q
      = if p = q ∧ p < w.received.size then true else w.recvAt q := by
  simp only [DecWork.recvAt, DecWork.place, DecWork.bump, Array.getD_eq_getD_getElem?,
    Array.getElem?_setIfInBounds]
  by_cases h1 : p = q
  · subst h1
    by_cases h2 : p < w.received.size
    · simp [h2]
    · simp [h2]
  · simp [h1]

theorem DecWork.place_comm (w : DecWork) {p q : Nat} (hpq : p ≠ q) (s t : Array Nat)
    (h : w.sb / 2 = w.L) :
    (w.place p s h).place q t h = (w.place q t h).place p s h := by
  simp only [DecWork.place]
  rw [Array.setIfInBounds_comm (α := Bool) _ _ hpq,
    Array.setIfInBounds_comm (α := Vector Sym w.L) _ _ hpq]

/-- the two orders of two adds at different positions give the same state -/
theorem DecWork.place_bump_swap (w : DecWork) {p q : Nat} (hpq : p ≠ q) (s t : Array Nat)
    (h : w.sb / 2 = w.L) (a b : AddOp) :
    (((w.place p s h).bump a).place q t h).bump b
      = (((w.place q t h).bump b).place p s h).bump a := by
  simp only [DecWork.place, DecWork.bump]
  rw [Array.setIfInBounds_comm (α := Bool) _ _ hpq,
    Array.setIfInBounds_comm (α := Vector Sym w.L) _ _ hpq,
    Nat.add_right_comm w.orecv, Nat.add_right_comm w.rrecv]

theorem DecWork.place_bump (w : DecWork) (p : Nat) (s : Array Nat) (h : w.sb / 2 = w.L)
    (a : AddOp) : (w.bump a).place p s h = (w.place p s h).bump a := rfl

theorem DecWork.bump_comm (w : DecWork) (a b : AddOp) : (w.bump a).bump b = (w.bump b).bump a := by
  simp only [DecWork.bump, Nat.add_right_comm]

/-- the part of `DecWork.Inv` the commutation argument needs: the bitmap covers both windows -/
def DecWork.BitsOk (w : DecWork) : Prop :=
  max (w.obase + w.k) (w.rbase + w.r) ≤ w.received.size

theorem DecWork.Inv.bitsOk {rate : Rate} {w : DecWork} (h : DecWork.Inv rate w) : w.BitsOk := h.bits

theorem AddOp.pos_lt {w : DecWork} (hb : w.BitsOk) {a : AddOp} (ha : a.inRange w) :
    a.pos w < w.received.size := by
  unfold DecWork.BitsOk at hb
  cases a with
  | orig i s =>
    simp only [AddOp.inRange, AddOp.pos] at ha ⊢
    have : w.obase + w.k ≤ max (w.obase + w.k) (w.rbase + w.r) := Nat.le_max_left _ _
    omega
  | recov j t =>
    simp only [AddOp.inRange, AddOp.pos] at ha ⊢
    have : w.rbase + w.r ≤ max (w.obase + w.k) (w.rbase + w.r) := Nat.le_max_right _ _
    omega

theorem DecWork.BitsOk.addOp {w w' : DecWork} {a : AddOp} (hb : w.BitsOk)
    (h : w.addOp a = .ok w') : w'.BitsOk := by
  obtain ⟨_, _, _, hl, _, e⟩ := DecWork.addOp_ok_iff.mp h
  subst e
  unfold DecWork.BitsOk at hb ⊢
  simpa [DecWork.place, DecWork.bump] using hb

/-! ### 7. two successful adds commute -/

/-- two consecutive successful adds can be swapped; the final state (memory, bitmap, counters)
    is the same -/
theorem DecWork.addOp_comm {w w1 w2 : DecWork} (hb : w.BitsOk) {a b : AddOp}
    (h1 : w.addOp a = .ok w1) (h2 : w1.addOp b = .ok w2) :
    ∃ w1', w.addOp b = .ok w1' ∧ w1'.addOp a = .ok w2 := by
  obtain ⟨ra, na, sa, h, ma, e1⟩ := DecWork.addOp_ok_iff.mp h1
  subst e1
  obtain ⟨rb, nb, sb, h', mb, e2⟩ := DecWork.addOp_ok_iff.mp h2
  subst e2
  rw [AddOp.inRange_place_bump] at rb
  rw [AddOp.pos_place_bump] at nb mb
  rw [DecWork.recvAt_place_bump] at nb
  have hpa : a.pos w < w.received.size := AddOp.pos_lt hb ra
  have hne : a.pos w ≠ b.pos w := by
    intro heq
    rw [if_pos ⟨heq, hpa⟩] at nb
    cases nb
  have nb' : w.recvAt (b.pos w) = false := by
    rw [if_neg (fun hh => hne hh.1)] at nb
    exact nb
  have sb' : b.shard.size = w.sb := sb
  have mb' : b.pos w < w.mem.size := by
    simpa [DecWork.place, DecWork.bump] using mb
  refine ⟨(w.place (b.pos w) b.shard h).bump b, ?_, ?_⟩
  · exact DecWork.addOp_ok_iff.mpr ⟨rb, nb', sb', h, mb', rfl⟩
  · refine DecWork.addOp_ok_iff.mpr ⟨?_, ?_, sa, h, ?_, ?_⟩
    · rw [AddOp.inRange_place_bump]; exact ra
    · rw [AddOp.pos_place_bump, DecWork.recvAt_place_bump,
        if_neg (fun hh => hne hh.1.symm)]
      exact na
    · rw [AddOp.pos_place_bump]
      simpa [DecWork.place, DecWork.bump] using ma
    · rw [AddOp.pos_place_bump, AddOp.pos_place_bump]
      exact DecWork.place_bump_swap w hne a.shard b.shard h a b

/-- `add_original_shard` then `add_recovery_shard` = the other order -/
theorem addOriginal_addRecovery_comm {rate : Rate} {w w1 w2 : DecWork} (hinv : DecWork.Inv rate w)
    {i j : Nat} {s t : Array Nat}
    (h1 : w.addOriginal i s = .ok w1) (h2 : w1.addRecovery j t = .ok w2) :
    ∃ w1', w.addRecovery j t = .ok w1' ∧ w1'.addOriginal i s = .ok w2 :=
  DecWork.addOp_comm hinv.bitsOk (a := .orig i s) (b := .recov j t) h1 h2

theorem addRecovery_addOriginal_comm {rate : Rate} {w w1 w2 : DecWork} (hinv : DecWork.Inv rate w)
    {i j : Nat} {s t : Array Nat}
    (h1 : w.addRecovery j t = .ok w1) (h2 : w1.addOriginal i s = .ok w2) :
    ∃ w1', w.addOriginal i s = .ok w1' ∧ w1'.addRecovery j t = .ok w2 :=
  DecWork.addOp_comm hinv.bitsOk (a := .recov j t) (b := .orig i s) h1 h2

/-- two originals commute (`i ≠ i'` is automatic: a duplicate add fails) -/
theorem addOriginal_addOriginal_comm {rate : Rate} {w w1 w2 : DecWork} (hinv : DecWork.Inv rate w)
    {i i' : Nat} {s s' : Array Nat}
    (h1 : w.addOriginal i s = .ok w1) (h2 : w1.addOriginal i' s' = .ok w2) :
    i ≠ i' ∧ ∃ w1', w.addOriginal i' s' = .ok w1' ∧ w1'.addOriginal i s = .ok w2 := by
  refine ⟨?_, DecWork.addOp_comm hinv.bitsOk (a := .orig i s) (b := .orig i' s') h1 h2⟩
  intro heq
  subst heq
  obtain ⟨ra, na, sa, h, ma, e1⟩ := (DecWork.addOp_ok_iff (a := .orig i s)).mp h1
  subst e1
  obtain ⟨rb, nb, _⟩ := (DecWork.addOp_ok_iff (a := .orig i s')).mp h2
  rw [AddOp.pos_place_bump, DecWork.recvAt_place_bump] at nb
  have hpa := AddOp.pos_lt hinv.bitsOk ra
  rw [if_pos ⟨rfl, hpa⟩] at nb
  cases nb

theorem addRecovery_addRecovery_comm {rate : Rate} {w w1 w2 : DecWork} (hinv : DecWork.Inv rate w)
    {j j' : Nat} {t t' : Array Nat}
    (h1 : w.addRecovery j t = .ok w1) (h2 : w1.addRecovery j' t' = .ok w2) :
    j ≠ j' ∧ ∃ w1', w.addRecovery j' t' = .ok w1' ∧ w1'.addRecovery j t = .ok w2 := by
  refine ⟨?_, DecWork.addOp_comm hinv.bitsOk (a := .recov j t) (b := .recov j' t') h1 h2⟩
  intro heq
  subst heq
  obtain ⟨ra, na, sa, h, ma, e1⟩ := (DecWork.addOp_ok_iff (a := .recov j t)).mp h1
  subst e1
  obtain ⟨rb, nb, _⟩ := (DecWork.addOp_ok_iff (a := .recov j t')).mp h2
  rw [AddOp.pos_place_bump, DecWork.recvAt_place_bump] at nb
  have hpa := AddOp.pos_lt hinv.bitsOk ra
  rw [if_pos ⟨rfl, hpa⟩] at nb
  cases nb

/-! ### 8. any order of the same successful adds gives the same state -/

theorem DecWork.addAll_cons_ok_iff {w w2 : DecWork} {a : AddOp} {l : List AddOp} :
    w.addAll (a :: l) = .ok w2 ↔ ∃ w1, w.addOp a = .ok w1 ∧ w1.addAll l = .ok w2 := by
  simp only [DecWork.addAll]
  cases w.addOp a with
  | ok w1 => simp
  | err e => simp
  | panic why => simp

theorem DecWork.addAll_perm_aux {l l' : List AddOp} (hp : l.Perm l') :
    ∀ {w w2 : DecWork}, w.BitsOk → w.addAll l = .ok w2 → w.addAll l' = .ok w2 := by
  induction hp with
  | nil => intro w w2 _ h; exact h
  | cons x _ ih =>
    intro w w2 hb h
    obtain ⟨w1, h1, h2⟩ := DecWork.addAll_cons_ok_iff.mp h
    exact DecWork.addAll_cons_ok_iff.mpr ⟨w1, h1, ih (hb.addOp h1) h2⟩
  | swap x y l =>
    intro w w2 hb h
    obtain ⟨w1, h1, h'⟩ := DecWork.addAll_cons_ok_iff.mp h
    obtain ⟨w1', h2, h3⟩ := DecWork.addAll_cons_ok_iff.mp h'
    obtain ⟨v, g1, g2⟩ := DecWork.addOp_comm hb h1 h2
    exact DecWork.addAll_cons_ok_iff.mpr ⟨v, g1, DecWork.addAll_cons_ok_iff.mpr ⟨w1', g2, h3⟩⟩
  | trans _ _ ih1 ih2 =>
    intro w w2 hb h
    exact ih2 hb (ih1 hb h)

theorem addAll_perm {rate : Rate} {w w2 : DecWork} {l l' : List AddOp} (hinv : DecWork.Inv rate w)
    (hp : l.Perm l') (h : w.addAll l = .ok w2) : w.addAll l' = .ok w2 :=
  DecWork.addAll_perm_aux hp hinv.bitsOk h

end RS
