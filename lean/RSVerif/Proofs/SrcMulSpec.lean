/-
  The multiplication-table initialisers AS TRANSLATED FROM TODAY'S SOURCE (Gen/SrcMul.lean, regenerated from
  src/engine/tables.rs on every run: `initialize_mul16`, `initialize_mul128`; nested arrays flattened with one
  bounds check per level, `u128::from_le_bytes(bytes)` kept as its 16 little-endian bytes): they never panic and
  every entry is the product the model defines (`initMul16Entry`, i.e. `tables::mul(i << 4k, log_m)`), split into
  its low and high byte for the SIMD tables.
-/
import RSVerif.Gen.SrcMul
import RSVerif.Model.TableInit
import RSVerif.Proofs.SrcTablesAux
import RSVerif.Proofs.SrcMulAux

namespace RS.SrcU
open RS RS.RustU
open RS.SrcT RS.SrcM

/-- `initialize_mul16`: entry `[log_m][k][i]` (flat index `(log_m * 4 + k) * 16 + i`) is `mul(i << 4k, log_m)` -/
theorem src_initialize_mul16 (exp log : Array Nat) (hE : exp.size = 65536) (hL : log.size = 65536)
    (he : ∀ i, exp.getD i 0 < 65536) (hl : ∀ i, log.getD i 0 < 65536) :
    ∃ t, U_initialize_mul16 exp log = some t ∧ t.size = 4194304 ∧
      ∀ logm k i, logm < 65536 → k < 4 → i < 16 →
        t.getD ((logm * 4 + k) * 16 + i) 0 = initMul16Entry exp log logm k i := by
  have _ := he
  unfold U_initialize_mul16
  have hA1 : (Array.replicate 4194304 0 : Array Nat).size = 4194304 := Array.size_replicate ..
  generalize (Array.replicate 4194304 0 : Array Nat) = A at hA1 ⊢
  refine Ok.elim ?_
  refine Ok.forStep0 (fun n t => t.size = 4194304 ∧ ∀ a k i, a < n → k < 4 → i < 16 →
      t.getD ((a * 4 + k) * 16 + i) 0 = initMul16Entry exp log a k i)
    ⟨hA1, fun a k i h => absurd h (Nat.not_lt_zero _)⟩ ?_ ?_
  · intro m t hm ⟨h1, h2⟩
    have hm' : m < 65536 := hm
    simp only [hm', if_true, bind_some']
    refine Ok.forStep0 (fun j t => t.size = 4194304 ∧
        (∀ a k i, a < m → k < 4 → i < 16 → t.getD ((a * 4 + k) * 16 + i) 0 = initMul16Entry exp log a k i) ∧
        (∀ k i, k < 4 → i < j → t.getD ((m * 4 + k) * 16 + i) 0 = initMul16Entry exp log m k i))
      ⟨h1, h2, fun k i _ h => absurd h (Nat.not_lt_zero _)⟩ ?_ ?_
    · intro j s hj ⟨g1, g2, g3⟩
      have e0 := sh0 hj
      have e1 := sh1 hj
      have e2 := sh2 hj
      have e3 := sh3 hj
      simp only [e0, e1, e2, e3, hj, (by decide : (0 : Nat) < 4), (by decide : (1 : Nat) < 4),
        (by decide : (2 : Nat) < 4), (by decide : (3 : Nat) < 4), (by decide : (4 : Nat) < 64),
        (by decide : (8 : Nat) < 64), (by decide : (12 : Nat) < 64), and_self, if_true, bind_some',
        mul_src hE hL hl (shift_lt (k := 0) (by omega) hj) hm',
        mul_src hE hL hl (shift_lt (k := 1) (by omega) hj) hm',
        mul_src hE hL hl (shift_lt (k := 2) (by omega) hj) hm',
        mul_src hE hL hl (shift_lt (k := 3) (by omega) hj) hm']
      have b0 : (m * 4 + 0) * 16 + j < s.size := by rw [g1]; omega
      have b1 : (m * 4 + 1) * 16 + j < s.size := by rw [g1]; omega
      have b2 : (m * 4 + 2) * 16 + j < s.size := by rw [g1]; omega
      have b3 : (m * 4 + 3) * 16 + j < s.size := by rw [g1]; omega
      refine Ok.some ⟨by rw [size_set, size_set, size_set, size_set]; exact g1,
        fun a k i ha hk hi => ?_, fun k i hk hi => ?_⟩
      · rw [getD_set4 _ _ _ _ _ _ _ _ _ _ b0 b1 b2 b3, if_neg (by omega), if_neg (by omega), if_neg (by omega),
          if_neg (by omega)]
        exact g2 a k i ha hk hi
      · rw [getD_set4 _ _ _ _ _ _ _ _ _ _ b0 b1 b2 b3]
        by_cases c : i = j
        · subst c
          have : k = 0 ∨ k = 1 ∨ k = 2 ∨ k = 3 := by omega
          rcases this with rfl | rfl | rfl | rfl
          · rw [if_neg (by omega), if_neg (by omega), if_neg (by omega), if_pos rfl]; rfl
          · rw [if_neg (by omega), if_neg (by omega), if_pos rfl]; rfl
          · rw [if_neg (by omega), if_pos rfl]; rfl
          · rw [if_pos rfl]; rfl
        · rw [if_neg (by omega), if_neg (by omega), if_neg (by omega), if_neg (by omega)]
          exact g3 k i hk (by omega)
    · intro s ⟨g1, g2, g3⟩
      refine Ok.some ⟨g1, fun a k i ha hk hi => ?_⟩
      by_cases c : a < m
      · exact g2 a k i c hk hi
      · have : a = m := by omega
        subst this
        exact g3 k i hk hi
  · intro s ⟨g1, g2⟩
    exact Ok.some ⟨g1, g2⟩

/-- `initialize_mul128`: byte `x` of `lo[k]` / `hi[k]` of entry `log_m` (flat index `(log_m * 4 + k) * 16 + x`) is the
    low / high byte of `mul(x << 4k, log_m)` -/
theorem src_initialize_mul128 (exp log : Array Nat) (hE : exp.size = 65536) (hL : log.size = 65536)
    (he : ∀ i, exp.getD i 0 < 65536) (hl : ∀ i, log.getD i 0 < 65536) :
    ∃ lo hi, U_initialize_mul128 exp log = some (lo, hi) ∧ lo.size = 4194304 ∧ hi.size = 4194304 ∧
      ∀ logm k x, logm < 65536 → k < 4 → x < 16 →
        lo.getD ((logm * 4 + k) * 16 + x) 0 = initMul16Entry exp log logm k x % 256 ∧
        hi.getD ((logm * 4 + k) * 16 + x) 0 = initMul16Entry exp log logm k x / 256 := by
  suffices h : Ok (U_initialize_mul128 exp log) (fun p => p.1.size = 4194304 ∧ p.2.size = 4194304 ∧
      ∀ logm k x, logm < 65536 → k < 4 → x < 16 →
        p.1.getD ((logm * 4 + k) * 16 + x) 0 = initMul16Entry exp log logm k x % 256 ∧
        p.2.getD ((logm * 4 + k) * 16 + x) 0 = initMul16Entry exp log logm k x / 256) by
    obtain ⟨⟨lo, hi⟩, h1, h2⟩ := h
    exact ⟨lo, hi, h1, h2⟩
  unfold U_initialize_mul128
  have hA1 : (Array.replicate 4194304 0 : Array Nat).size = 4194304 := Array.size_replicate ..
  generalize (Array.replicate 4194304 0 : Array Nat) = A at hA1 ⊢
  have hB1 : (Array.replicate 16 0 : Array Nat).size = 16 := Array.size_replicate ..
  generalize (Array.replicate 16 0 : Array Nat) = B at hB1 ⊢
  -- state = (lo, hi)
  refine Ok.forStep0 (fun n (st : Array Nat × Array Nat) => st.2.size = 4194304 ∧ st.1.size = 4194304 ∧
      ∀ a k x, a < n → k < 4 → x < 16 →
        st.1.getD ((a * 4 + k) * 16 + x) 0 = initMul16Entry exp log a k x % 256 ∧
        st.2.getD ((a * 4 + k) * 16 + x) 0 = initMul16Entry exp log a k x / 256)
    ⟨hA1, hA1, fun a k i h => absurd h (Nat.not_lt_zero _)⟩ ?_ ?_
  · rintro m ⟨tl, th⟩ hm ⟨h1, h2, h3⟩
    have hm' : m < 65536 := hm
    simp only at h1 h2 h3
    simp only []
    refine Ok.forStep0 (fun n (st : Array Nat × Array Nat) => st.2.size = 4194304 ∧ st.1.size = 4194304 ∧
        (∀ a k x, a < m → k < 4 → x < 16 →
          st.1.getD ((a * 4 + k) * 16 + x) 0 = initMul16Entry exp log a k x % 256 ∧
          st.2.getD ((a * 4 + k) * 16 + x) 0 = initMul16Entry exp log a k x / 256) ∧
        (∀ k x, k < n → x < 16 →
          st.1.getD ((m * 4 + k) * 16 + x) 0 = initMul16Entry exp log m k x % 256 ∧
          st.2.getD ((m * 4 + k) * 16 + x) 0 = initMul16Entry exp log m k x / 256))
      ⟨h1, h2, h3, fun k x h => absurd h (Nat.not_lt_zero _)⟩ ?_ ?_
    · rintro k ⟨sl, sh⟩ hk ⟨g1, g2, g3, g4⟩
      have hk' : k < 4 := hk
      simp only at g1 g2 g3 g4
      simp only []
      have c1 : k * 4 < 18446744073709551616 := by omega
      have c2 : k * 4 < 64 := by omega
      simp only [c1, c2, hm', hk', and_self, if_true, bind_some']
      refine Ok.forStep0 (fun n (st : Array Nat × Array Nat) => st.2.size = 16 ∧ st.1.size = 16 ∧
          ∀ y, y < n → st.1.getD y 0 = initMul16Entry exp log m k y % 256 ∧
            st.2.getD y 0 = initMul16Entry exp log m k y / 256)
        ⟨hB1, hB1, fun y h => absurd h (Nat.not_lt_zero _)⟩ ?_ ?_
      · rintro x ⟨pl, ph⟩ hx ⟨p1, p2, p3⟩
        simp only at p1 p2 p3
        have e : x * 2 ^ (k * 4) % 18446744073709551616 % 65536 = x * 2 ^ (4 * k) := by
          have := shift_lt hk' hx
          rw [Nat.mul_comm k 4, Nat.mod_eq_of_lt (by omega), Nat.mod_eq_of_lt (by omega)]
        simp only [e, mul_src hE hL hl (shift_lt hk' hx) hm', p1, p2, hx, if_true, bind_some']
        refine Ok.some ⟨by rw [size_set]; exact p1, by rw [size_set]; exact p2, fun y hy => ?_⟩
        simp only []
        rw [getD_set _ _ _ _ (by rw [p2]; exact hx), getD_set _ _ _ _ (by rw [p1]; exact hx)]
        by_cases c : y = x
        · subst c
          rw [if_pos rfl, if_pos rfl]
          refine ⟨rfl, ?_⟩
          have := tmul_lt he (y * 2 ^ (4 * k)) m (log := log)
          unfold initMul16Entry
          omega
        · rw [if_neg c, if_neg c]; exact p3 y (by omega)
      · rintro ⟨pl, ph⟩ ⟨p1, p2, p3⟩
        simp only at p1 p2 p3 ⊢
        refine Ok.bind (write16_ok sl _ pl p2 (by rw [g2]; omega)) ?_
        intro rl ⟨w1, w2, w3⟩
        refine Ok.bind (write16_ok sh _ ph p1 (by rw [g1]; omega)) ?_
        intro rh ⟨v1, v2, v3⟩
        refine Ok.some ⟨by rw [v1]; exact g1, by rw [w1]; exact g2, fun a k' x ha hk2 hx => ?_,
          fun k' x hk2 hx => ?_⟩
        · simp only []
          rw [w3 _ (by omega), v3 _ (by omega)]; exact g3 a k' x ha hk2 hx
        · simp only []
          by_cases c : k' = k
          · subst c; rw [w2 x hx, v2 x hx]; exact p3 x hx
          · rw [w3 _ (by omega), v3 _ (by omega)]; exact g4 k' x (by omega) hx
    · rintro ⟨sl, sh⟩ ⟨g1, g2, g3, g4⟩
      simp only at g1 g2 g3 g4
      refine Ok.some ⟨g1, g2, fun a k x ha hk hx => ?_⟩
      by_cases c : a < m
      · exact g3 a k x c hk hx
      · have : a = m := by omega
        subst this
        exact g4 k x hk hx
  · rintro ⟨sl, sh⟩ ⟨g1, g2, g3⟩
    exact Ok.some ⟨g2, g1, g3⟩

end RS.SrcU
